#!/usr/bin/env python3
"""dev helper: print walker paths (conds -> ret) for functions whose id contains any of the given substrings. uses .work/facts-cov"""
import os, sys
sys.path.insert(0, os.path.dirname(os.path.abspath(__file__)))
from uecheck.run import Ctx, VERIF
from uecheck.facts import Facts
from uecheck.sym import short
from uecheck.common import cond_str
from uecheck import sym
fd = os.path.join(VERIF, ".work", sys.argv[1] if sys.argv[1].startswith("facts") else "facts-cov")
args = sys.argv[2:] if sys.argv[1].startswith("facts") else sys.argv[1:]
CANON = "--canon" in args
args = [a for a in args if a != "--canon"]
F = Facts(fd, None)
for fid, f in sorted(F.fns.items()):
    if any(a in fid for a in args):
        print("==", fid, f.at())
        try:
            for p in sym.walk(f, F, canon=CANON):
                print("   [%s] -> %s   calls=%d end=%s" % (cond_str(p)[:300], short(p.ret, 10), len(p.calls()), p.end))
        except Exception as e:
            print("   walk failed:", e)
