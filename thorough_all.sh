#!/bin/bash
# dev helper: thorough tier for every property, one at a time, holding the /repo lock shared with seeded/eval.sh
cd /verif
for i in ${@:-01 02 03 04 05 06 07 08 09 10 11 12 13 14 15 16 17 18 19}; do
  flock /tmp/uec-repo.lock ./check C$i --tier thorough > .work/thorough-C$i.out 2>&1
  echo "C$i rc=$? $(grep -E 'self-test:' .work/thorough-C$i.out | head -1) $(grep -c -E '^VIOLATION|SELFTEST-PROBLEM' .work/thorough-C$i.out) problems"
done
