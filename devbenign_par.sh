#!/bin/bash
# dev helper: devbenign.py over stored benign facts (all, or those matching the glob suffix given, e.g. "s"), one process per seed
cd /verif
SUF="${1:-[rstuv]}"
ls -d .work/facts-C*-$SUF | sed 's#.work/facts-##' | xargs -P 6 -I{} sh -c 'NVIOL=${NVIOL:-4} NDIFF=0 python3 devbenign.py {} > .work/devbenign-{}.out 2>&1'
for f in $(ls .work/devbenign-C*-$SUF.out); do grep -v "^TOTAL\|WARNING" $f; done
echo "TOTAL: $(cat .work/devbenign-C*-$SUF.out | grep -c '  violation')+"
