#!/usr/bin/env python3-vt
import json, sys, glob, jsonschema
es = json.load(open('/root/.vp/EVIDENCE.schema.json'))
ms = json.load(open('/root/.vp/MANIFEST.schema.json'))
ok = True
for f in sorted(glob.glob('/verif/evidence/C*.json')):
    try:
        jsonschema.validate(json.load(open(f)), es)
    except Exception as e:
        ok = False; print('INVALID', f, str(e)[:300])
try:
    jsonschema.validate(json.load(open('/verif/MANIFEST.json')), ms); print('manifest valid')
except Exception as e:
    ok = False; print('MANIFEST INVALID', str(e)[:300])
print('evidence ok' if ok else 'PROBLEMS')
