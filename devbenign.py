#!/usr/bin/env python3
"""dev helper: run every rule module on the stored facts of the benign seeds; print reference report + violations per seed"""
import sys, os, io, contextlib, json, glob
sys.path.insert(0, os.path.dirname(os.path.abspath(__file__)))
from uecheck.run import run_property, PROPS
from uecheck.facts import Facts
only = sys.argv[1:]
tot = 0
for d in sorted(glob.glob("/verif/.work/facts-C*-[rstuv]")):
    sid = os.path.basename(d)[6:]
    if only and sid not in only:
        continue
    F = Facts(d, None)
    rr = F.reference_report
    print("== %s equivalent=%d different=%d new=%d" % (sid, len(rr.get("equivalent", [])), len(rr.get("different", [])), len(rr.get("new", []))))
    diff = rr.get("different", [])
    for x in diff[:int(os.environ.get("NDIFF", "4"))]:
        print("     different:", x[:150])
    if len(diff) > 4:
        print("     ... +%d more different" % (len(diff) - 4))
    for p in PROPS:
        buf = io.StringIO()
        with contextlib.redirect_stdout(buf):
            run_property(p, "quick", 0, facts_dir=d, do_extract=False, write=False, quiet=True)
        out = [l for l in buf.getvalue().splitlines() if l.startswith("  violation")]
        tot += len(out)
        nv = int(os.environ.get("NVIOL", "2"))
        for l in out[:nv]:
            print("   ", l[:230])
        if len(out) > nv:
            print("    ... +%d in %s" % (len(out) - nv, p))
print("TOTAL false alarms:", tot)
