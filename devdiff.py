#!/usr/bin/env python3
"""dev helper: devdiff.py <facts-subdir> <fn id substring>: canonical summary path keys only in current / only in reference"""
import sys, os
sys.path.insert(0, os.path.dirname(os.path.abspath(__file__)))
os.environ["UEC_NO_REFERENCE"] = "1"
from uecheck.facts import Facts
from uecheck import canonsum
F = Facts(os.path.join("/verif/.work", sys.argv[1]), None)
R = canonsum.load_reference()
blk = [b for b in os.environ.get("BLOCK", "").split(",") if b]
F.noinline = R.noinline = frozenset(fid for fid in F.fns if any(b in fid for b in blk))
sc, sr = canonsum.Summariser(F), canonsum.Summariser(R)
W = int(os.environ.get("W", "900"))
for fid, f in sorted(F.fns.items()):
    if not any(a in fid for a in sys.argv[2:]) or (f.is_closure and not os.environ.get("CLO")):
        continue
    g = R.fns.get(fid)
    if g is None:
        print("NEW", fid); continue
    a, b = sc.of(f), sr.of(g)
    print("==", fid, "EQUAL" if a == b else "DIFFERENT", len(a[1]) if isinstance(a[1], frozenset) else a[0], len(b[1]) if isinstance(b[1], frozenset) else b[0])
    if a != b and isinstance(a[1], frozenset) and isinstance(b[1], frozenset):
        ca, cb = sorted(map(repr, a[1] - b[1])), sorted(map(repr, b[1] - a[1]))
        import os.path as _p
        for x in ca:
            best, bl = None, -1
            for y in cb:
                l = len(_p.commonprefix([x, y]))
                if l > bl:
                    best, bl = y, l
            print("  CUR ..." + x[max(0, bl - 150):bl + W])
            if best is not None:
                print("  REF ..." + best[max(0, bl - 150):bl + W])
            print("  --")
        if not ca:
            for y in cb:
                print("  REF-only:", y[:W])
