#!/bin/bash
# Build the framework offline from files on disk: the fact-extraction driver, a warm cargo target dir
# for /repo's workspace (nightly), and the doctest dependencies of the C19 witness crate.
set -euo pipefail
cd "$(dirname "$0")"
export CARGO_NET_OFFLINE=true
(cd driver && cargo build --offline 2>&1 | tail -2)
mkdir -p .work
./extract.sh .work/facts >/dev/null
# warm the witness target dir (compiles push as a dependency once)
./check C19 --tier quick >/dev/null 2>&1 || true
echo "setup done"
