#!/bin/bash
# Regenerate /verif/reference/*.json.gz: the fact files of the COMMITTED tree of /repo (HEAD), extracted from a clean
# export (never from the working tree, which may carry a change under evaluation).  Needed after every driver change
# that alters the fact format, and after every new commit in /repo.
set -euo pipefail
cd "$(dirname "$0")"
D=$(mktemp -d /tmp/uec-ref-src-XXXXXX)
trap 'rm -rf "$D" .work/facts-reference' EXIT
git -C /repo archive HEAD | tar -x -C "$D"
find "$D/packages/ec-macros" "$D/packages/push-macros" -type f -exec touch {} +
UEC_REPO="$D" ./extract.sh .work/facts-reference >/dev/null
for c in ec_core ec_linear push; do gzip -9 -c .work/facts-reference/$c.json > reference/$c.json.gz; done
git -C /repo rev-parse --short HEAD > reference/COMMIT
echo "reference regenerated at $(cat reference/COMMIT)"
