#!/bin/bash
# dev helper: re-extract every dev fact set (after a driver change): base, stored seeds (r,s) and the round e/t patches kept under /tmp
cd /verif
D=$(mktemp -d /tmp/uec-cov-XXXX); git -C /repo archive HEAD | tar -x -C $D; find $D/packages/ec-macros $D/packages/push-macros -type f -exec touch {} +; UEC_REPO=$D ./extract.sh .work/facts-cov >/dev/null; rm -rf $D
for d in seeded/C*-[rs]; do id=$(basename $d); ./devseed.sh $id /verif/$d/patch.diff | tail -1; done
for f in /tmp/ps-e/*.diff /tmp/ps-t/*.diff; do [ -f $f ] && ./devseed.sh $(basename $f .diff) $f | tail -1; done
echo done
