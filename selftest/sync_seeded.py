#!/usr/bin/env python3
"""(Re)generate the catalogue entries `seeded-<id>` from /verif/seeded/<id>/meta.json: every independently written
breaking change is a regression mutant for the checks that detect it (any violation of that property counts)."""
import json, os, glob
V = os.path.dirname(os.path.dirname(os.path.abspath(__file__)))
catp = os.path.join(V, "selftest", "catalog.json")
cat = [e for e in json.load(open(catp)) if not e["id"].startswith("seeded-")]
for mp in sorted(glob.glob(os.path.join(V, "seeded", "C*", "meta.json"))):
    m = json.load(open(mp))
    sid = m["id"]
    if m.get("kind") == "benign":
        props = sorted(set(([m["property"]] if m.get("property") else []) + (m.get("false_alarms_first_evaluation") or []) + (m.get("false_alarms") or [])))
        ent = {"id": "seeded-" + sid, "kind": "benign", "props": props, "patch": "seeded/%s/patch.diff" % sid,
               "note": "behaviour-preserving refactoring %s (property %s): %s" % (sid, m.get("property"), (m.get("summary") or "")[:300])}
        still = {p: v["violation_keys"] for p, v in (m.get("checks_run_against_repo_with_patch") or {}).items() if v.get("violation_keys")}
        if still and m.get("false_alarms_first_evaluation") is not None:
            # correct code that is still reported: a recorded limit (exact keys), so that any *other* alarm on it is still a self-test failure
            ent["known_limit"] = still
        cat.append(ent)
        continue
    det = m.get("detected_by") or []
    if not det:
        continue
    cat.append({"id": "seeded-" + sid, "kind": "mutant", "props": det, "patch": "seeded/%s/patch.diff" % sid,
                "expect": {p: "." for p in det}, "note": "seeded change %s (property %s): %s" % (sid, m.get("property"), (m.get("summary") or "")[:300])})
json.dump(cat, open(catp, "w"), indent=1)
print(len(cat), "entries;", sum(1 for e in cat if e["id"].startswith("seeded-")), "seeded")
