#!/usr/bin/env python3
"""Self-test runner: apply one catalogued change (mutant or benign) to a scratch
copy of the repository and run the named property checks against it.

usage: mut.py [--jobs N] [--only ID[,ID..]] [--prop Cxx] [--kind mutant|benign] [--catalog file] [--keep]
Catalogue entries (selftest/catalog.json):
  {"id": ..., "kind": "mutant"|"benign", "props": ["C06"], "edits": [{"file","old","new"}],
   "expect": {"C06": "regex over violation keys"}, "note": ...}
"""
import argparse, concurrent.futures, json, os, re, shutil, subprocess, sys, tempfile, time

VERIF = os.path.dirname(os.path.dirname(os.path.abspath(__file__)))
REPO = os.environ.get("UEC_BASE_REPO", "/repo")


def apply_edits(d, edits):
    for e in edits or []:
        p = os.path.join(d, e["file"])
        s = open(p).read()
        cnt = s.count(e["old"])
        want = e.get("count", 1)
        if cnt < 1 or (want != "all" and cnt != want):
            raise RuntimeError("edit does not apply (%d occurrences, expected %s): %s :: %r" % (cnt, want, e["file"], e["old"][:80]))
        s = s.replace(e["old"], e["new"])
        open(p, "w").write(s)


def make_scratch(edits, patch=None, post_edits=None):
    """edits, then the patch, then post_edits (a mutation of code the patch introduced: a mutant of a refactored form)"""
    d = tempfile.mkdtemp(prefix="uec-mut-", dir="/tmp")
    # seeded/eval*.sh hold this lock while /repo carries a patch under evaluation: never copy a patched tree
    import fcntl
    with open("/tmp/uec-repo.lock", "a") as lk:
        fcntl.flock(lk, fcntl.LOCK_EX)
        subprocess.check_call(["rsync", "-a", "--exclude", "target", "--exclude", ".git", REPO + "/", d + "/"])
    apply_edits(d, edits)
    if patch:
        if not os.path.isabs(patch):
            patch = os.path.join(VERIF, patch)
        subprocess.check_call(["patch", "-p1", "-s", "-d", d, "-i", patch])
    apply_edits(d, post_edits)
    return d


MACRO_DIRS = ("packages/ec-macros", "packages/push-macros")


def touch_macros(scratch):
    """rsync -a keeps /repo's old mtimes, so cargo would take a proc-macro artifact built from a
    previous mutant in this lane for fresh; bump the mtimes to force a rebuild."""
    now = time.time()
    for d in MACRO_DIRS:
        for root, _, files in os.walk(os.path.join(scratch, d)):
            for f in files:
                os.utime(os.path.join(root, f), (now, now))


def run_checks(scratch, props, lane, tier="quick", entry=None):
    work0 = os.path.join(VERIF, ".work", "lane%d" % lane)
    os.makedirs(work0, exist_ok=True)
    marker = os.path.join(work0, "macros_dirty")
    edits_macros = any(e["file"].startswith(MACRO_DIRS) for e in (entry or {}).get("edits", [])) or bool((entry or {}).get("patch"))
    if edits_macros or os.path.exists(marker):
        touch_macros(scratch)
    if edits_macros:
        open(marker, "w").write("1")
    elif os.path.exists(marker):
        os.remove(marker)
    env = dict(os.environ)
    env["UEC_REPO"] = scratch
    work = os.path.join(VERIF, ".work", "lane%d" % lane)
    os.makedirs(work, exist_ok=True)
    env["UEC_WORK"] = work
    env["UEC_TARGET_DIR"] = os.path.join(work, "target")
    env["UEC_EVIDENCE_DIR"] = os.path.join(work, "evidence")
    env["VERIF_TIER"] = "quick"
    out = {}
    for p in props:
        r = subprocess.run([os.path.join(VERIF, "check"), p, "--tier", "quick"], env=env, stdout=subprocess.PIPE, stderr=subprocess.STDOUT, text=True)
        keys = re.findall(r"^  violation (\S+)", r.stdout, re.M)
        out[p] = {"rc": r.returncode, "keys": keys, "out": r.stdout}
    return out


def judge(entry, res):
    """returns (ok, text)"""
    msgs = []
    ok = True
    for p in entry["props"]:
        r = res[p]
        engine = [k for k in r["keys"] if "engine-failure" in k]
        if entry["kind"] == "benign":
            limit = set((entry.get("known_limit") or {}).get(p, []))
            if r["rc"] != 0 or r["keys"]:
                if limit and set(r["keys"]) <= limit:
                    msgs.append("%s: reported (recorded limit of the technique: %d key(s), see DESIGN 9.5)" % (p, len(r["keys"])))
                else:
                    ok = False
                    msgs.append("%s: FALSE ALARM on benign change: %s" % (p, r["keys"][:5]))
            else:
                msgs.append("%s: silent" % p)
        else:
            if engine:
                # does the mutant compile at all?
                if "cargo check failed" in r["out"]:
                    msgs.append("%s: mutant does not compile (killed by the type system)" % p)
                    continue
                ok = False
                msgs.append("%s: ENGINE FAILURE %s" % (p, r["out"][-400:]))
                continue
            exp = (entry.get("expect") or {}).get(p)
            if exp is None:
                continue
            if exp == "":
                if r["keys"]:
                    ok = False
                    msgs.append("%s: unexpected %s" % (p, r["keys"][:4]))
                continue
            hit = [k for k in r["keys"] if re.search(exp, k)]
            if hit:
                msgs.append("%s: caught (%s%s)" % (p, hit[0], " +%d" % (len(r["keys"]) - 1) if len(r["keys"]) > 1 else ""))
            else:
                ok = False
                msgs.append("%s: MISSED (expected /%s/, got %s)" % (p, exp, r["keys"][:4]))
    return ok, "; ".join(msgs)


def one(entry, lane, keep=False):
    t0 = time.time()
    try:
        d = make_scratch(entry.get("edits"), entry.get("patch"), entry.get("post_edits"))
    except Exception as e:
        return entry["id"], False, "SETUP: %s" % e, {}
    try:
        # two mut.py processes may run at the same time: a lane (its target dir and fact files) is used by one entry at a time
        import fcntl
        os.makedirs(os.path.join(VERIF, ".work", "lane%d" % lane), exist_ok=True)
        with open(os.path.join(VERIF, ".work", "lane%d" % lane, ".lock"), "w") as lk:
            fcntl.flock(lk, fcntl.LOCK_EX)
            res = run_checks(d, entry["props"], lane, entry=entry)
        ok, text = judge(entry, res)
        return entry["id"], ok, text + " (%.0fs)" % (time.time() - t0), res
    finally:
        if not keep:
            shutil.rmtree(d, ignore_errors=True)


def main():
    ap = argparse.ArgumentParser()
    ap.add_argument("--jobs", type=int, default=4)
    ap.add_argument("--only", default=None)
    ap.add_argument("--prop", default=None)
    ap.add_argument("--kind", default=None)
    ap.add_argument("--catalog", default=os.path.join(VERIF, "selftest", "catalog.json"))
    ap.add_argument("--keep", action="store_true")
    ap.add_argument("--verbose", action="store_true")
    ap.add_argument("--json", default=None)
    a = ap.parse_args()
    cat = json.load(open(a.catalog))
    if a.only:
        ids = set(a.only.split(","))
        cat = [e for e in cat if e["id"] in ids]
    if a.prop:
        cat = [e for e in cat if a.prop in e["props"]]
        for e in cat:
            e["props"] = [a.prop]
    if a.kind:
        cat = [e for e in cat if e["kind"] == a.kind]
    results = []
    allok = True
    with concurrent.futures.ThreadPoolExecutor(max_workers=a.jobs) as ex:
        lanes = list(range(a.jobs))
        import queue
        q = queue.Queue()
        for l in lanes:
            q.put(l)

        def task(e):
            l = q.get()
            try:
                return one(e, l, a.keep)
            finally:
                q.put(l)
        for (eid, ok, text, res), e in zip(ex.map(task, cat), cat):
            allok &= ok
            print("%-8s %-44s %s" % ("ok" if ok else "FAIL", eid + " [" + e["kind"] + "]", text))
            if a.verbose or not ok:
                for p, r in res.items():
                    if not ok:
                        print("\n".join("      " + x for x in r["out"].splitlines()[:30]))
            results.append({"id": eid, "kind": e["kind"], "ok": ok, "text": text})
            sys.stdout.flush()
    if a.json:
        json.dump(results, open(a.json, "w"), indent=1)
    return 0 if allok else 1


if __name__ == "__main__":
    sys.exit(main())
