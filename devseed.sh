#!/bin/bash
# dev helper: devseed.sh <id> <patch.diff>: extract facts of HEAD+patch into .work/facts-<id>
cd /verif
id=$1; patch=$2
rm -rf /tmp/scr-$id .work/facts-$id; mkdir -p /tmp/scr-$id && git -C /repo archive HEAD | tar -x -C /tmp/scr-$id && (cd /tmp/scr-$id && patch -p1 -s < $patch && find packages/ec-macros packages/push-macros -type f -exec touch {} +) && UEC_REPO=/tmp/scr-$id ./extract.sh .work/facts-$id >/dev/null && echo "extracted $id"
rm -rf /tmp/scr-$id
