#!/bin/bash
# Extract fact files from $UEC_REPO (default /repo) working tree with the
# uecfacts driver.  Usage: extract.sh <facts_dir> [--release] [--cold]
# Prints the nonce on stdout.  Fails if a fact file is missing or stale.
set -euo pipefail
VERIF="$(cd "$(dirname "$0")" && pwd)"
REPO="${UEC_REPO:-/repo}"
FACTS="$1"; shift
mkdir -p "$FACTS"; FACTS="$(cd "$FACTS" && pwd)"
PROFILE=""; COLD=0
for a in "$@"; do
  case "$a" in
    --release) PROFILE="--release";;
    --cold) COLD=1;;
  esac
done
DRV="$VERIF/driver/target/debug/uecfacts"
if [ ! -x "$DRV" ] || [ -n "$(find "$VERIF/driver/src" "$VERIF/driver/Cargo.toml" -newer "$DRV" 2>/dev/null | head -1)" ]; then
  (cd "$VERIF/driver" && CARGO_NET_OFFLINE=true cargo build --offline >/dev/null 2>&1) || { echo "extract: driver build failed" >&2; exit 2; }
fi
TARGET="${UEC_TARGET_DIR:-$VERIF/.work/target}"
if [ "$COLD" = 1 ]; then TARGET="$(mktemp -d /tmp/uec-cold-XXXXXX)"; fi
mkdir -p "$FACTS" "$TARGET"
rm -f "$FACTS"/*.json
NONCE="n$$-$(date +%s%N)"
# one extraction at a time per target dir (concurrent checks would race on the fingerprints)
exec 9>"$TARGET.lock"
flock 9
# cargo's freshness cache would skip the wrapper: drop the members' fingerprints
for prof in debug release; do
  if [ -d "$TARGET/$prof/.fingerprint" ]; then
    rm -rf "$TARGET/$prof/.fingerprint"/ec-core-* "$TARGET/$prof/.fingerprint"/ec-linear-* "$TARGET/$prof/.fingerprint"/push-[0-9a-f]* "$TARGET/$prof/.fingerprint"/ec_core-* "$TARGET/$prof/.fingerprint"/ec_linear-* \
           "$TARGET/$prof/.fingerprint"/ec_macros-* "$TARGET/$prof/.fingerprint"/push_macros-* "$TARGET/$prof/.fingerprint"/ec-macros-* "$TARGET/$prof/.fingerprint"/push-macros-* 2>/dev/null || true
  fi
done
SYSROOT="$(rustc +nightly --print sysroot)"
FEAT=""
if grep -q '^verif *=' "$REPO/packages/push/Cargo.toml" 2>/dev/null; then FEAT="--features push/verif"; fi
LOG="$FACTS/extract.log"
set +e
( cd "$REPO" && \
  CARGO_NET_OFFLINE=true LD_LIBRARY_PATH="$SYSROOT/lib" RUSTFLAGS="-Zmir-opt-level=0 -Awarnings" \
  RUSTC_WORKSPACE_WRAPPER="$DRV" CARGO_TARGET_DIR="$TARGET" UEC_FACTS_DIR="$FACTS" UEC_NONCE="$NONCE" \
  cargo +nightly check --offline --workspace --lib $PROFILE $FEAT >"$LOG" 2>&1 )
RC=$?
set -e
if [ "$COLD" = 1 ]; then rm -rf "$TARGET"; fi
if [ $RC -ne 0 ]; then echo "extract: cargo check failed (see $LOG)" >&2; tail -30 "$LOG" >&2; exit 2; fi
for c in ec_core ec_linear push; do
  if [ ! -s "$FACTS/$c.json" ]; then echo "extract: missing fact file $c.json" >&2; exit 2; fi
  if ! head -c 200 "$FACTS/$c.json" | grep -q "\"nonce\":\"$NONCE\""; then echo "extract: stale fact file $c.json" >&2; exit 2; fi
done
echo "$NONCE"
