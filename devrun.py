#!/usr/bin/env python3
"""dev helper: devrun.py <facts-subdir-under-.work> <Cxx>... : run rule modules on already extracted facts, print violations only"""
import sys, os
sys.path.insert(0, os.path.dirname(os.path.abspath(__file__)))
from uecheck.run import run_property
import io, contextlib
fd = os.path.join(os.path.dirname(os.path.abspath(__file__)), ".work", sys.argv[1])
for p in sys.argv[2:]:
    buf = io.StringIO()
    with contextlib.redirect_stdout(buf):
        r = run_property(p, "quick", 0, facts_dir=fd, do_extract=False, write=False, quiet=True)
    out = [l for l in buf.getvalue().splitlines() if l.startswith("  violation")]
    print(p, "violations:", len(out))
    for l in out:
        print(l[:500])
