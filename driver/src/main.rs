//! uecfacts: rustc_private driver that dumps the type-checked program (MIR at
//! opt-level 0, impl headers, ADT layouts, statics, unsafe uses) of the
//! unhindered-ec workspace crates as JSON "fact files".  It is injected into
//! the real `cargo +nightly check` of /repo through RUSTC_WORKSPACE_WRAPPER, so
//! it sees exactly the flags, features and cfgs of the real build.
//!
//! Nothing is executed or interpreted here: this is a serializer.  All rules
//! live in /verif/uecheck (Python).
#![feature(rustc_private)]

extern crate rustc_abi;
extern crate rustc_driver;
extern crate rustc_hir;
extern crate rustc_interface;
extern crate rustc_middle;
extern crate rustc_span;

mod json;

use json::J;
use rustc_driver::Compilation;
use rustc_hir::def::DefKind;
use rustc_hir::def_id::{DefId, LocalDefId, LOCAL_CRATE};
use rustc_middle::mir::{
    self, AggregateKind, BasicBlockData, Body, BorrowKind, CastKind, Operand, Place, PlaceElem,
    Rvalue, StatementKind, TerminatorKind,
};
use rustc_middle::ty::print::{with_crate_prefix, with_no_trimmed_paths, PrintTraitRefExt};
use rustc_middle::ty::{self, Instance, Ty, TyCtxt, TypingEnv};
use rustc_span::Span;

const CRATES: &[&str] = &["ec_core", "ec_linear", "push", "uec_states"];

struct Cb;

impl rustc_driver::Callbacks for Cb {
    fn after_analysis<'tcx>(
        &mut self,
        _compiler: &rustc_interface::interface::Compiler,
        tcx: TyCtxt<'tcx>,
    ) -> Compilation {
        let name = tcx.crate_name(LOCAL_CRATE).to_string();
        let extra = std::env::var("UEC_EXTRA_CRATES").unwrap_or_default();
        let wanted = CRATES.contains(&name.as_str()) || extra.split(',').any(|c| c == name);
        if !wanted {
            return Compilation::Continue;
        }
        // Only library targets are of interest (`--lib`), but be defensive: a
        // test harness build of the same crate must not overwrite the facts.
        if tcx.sess.opts.test {
            return Compilation::Continue;
        }
        let Ok(dir) = std::env::var("UEC_FACTS_DIR") else {
            return Compilation::Continue;
        };
        let nonce = std::env::var("UEC_NONCE").unwrap_or_default();
        let facts = with_crate_prefix!(with_no_trimmed_paths!(dump_crate(tcx, &name, &nonce)));
        let mut out = String::with_capacity(1 << 22);
        facts.write(&mut out);
        let path = format!("{dir}/{name}.json");
        let tmp = format!("{path}.tmp.{}", std::process::id());
        std::fs::write(&tmp, out).expect("uecfacts: cannot write fact file");
        std::fs::rename(&tmp, &path).expect("uecfacts: cannot rename fact file");
        Compilation::Continue
    }
}

fn main() {
    let mut args: Vec<String> = std::env::args().collect();
    // RUSTC_WORKSPACE_WRAPPER mode: argv[1] is the path of the real rustc.
    if args.len() > 1 && (args[1].ends_with("rustc") || args[1].contains("/rustc")) {
        args.remove(1);
    }
    rustc_driver::run_compiler(&args, &mut Cb);
}

// ---------------------------------------------------------------------------

fn span_str(tcx: TyCtxt<'_>, span: Span) -> String {
    let sm = tcx.sess.source_map();
    let lo = sm.lookup_char_pos(span.lo());
    let file = match &lo.file.name {
        rustc_span::FileName::Real(r) => match r.local_path() {
            Some(p) => p.to_string_lossy().into_owned(),
            None => format!("{:?}", lo.file.name),
        },
        other => format!("{other:?}"),
    };
    format!("{}:{}:{}", file, lo.line, lo.col.0 + 1)
}

/// Span facts: where (outermost call site if from a macro), whether from an
/// expansion, and the chain of macro names.
fn span_j(tcx: TyCtxt<'_>, span: Span) -> J {
    let mut o = vec![];
    let exp = span.from_expansion();
    let site = if exp { span.source_callsite() } else { span };
    o.push(("at".into(), J::s(span_str(tcx, site))));
    if exp {
        o.push(("exp".into(), J::Bool(true)));
        let mut names = vec![];
        let mut s = span;
        let mut guard = 0;
        while s.from_expansion() && guard < 16 {
            let data = s.ctxt().outer_expn_data();
            let n = match data.kind {
                rustc_span::ExpnKind::Macro(_, sym) => sym.to_string(),
                rustc_span::ExpnKind::Desugaring(d) => format!("desugar:{d:?}"),
                rustc_span::ExpnKind::AstPass(p) => format!("astpass:{p:?}"),
                rustc_span::ExpnKind::Root => "root".to_string(),
            };
            names.push(J::s(n));
            s = data.call_site;
            guard += 1;
        }
        o.push(("macros".into(), J::Arr(names)));
    }
    J::Obj(o)
}

fn ty_s(ty: Ty<'_>) -> String {
    format!("{ty}")
}

fn def_s(tcx: TyCtxt<'_>, did: DefId) -> String {
    tcx.def_path_str(did)
}

/// Structural description of a type head: enough for the rule engine to
/// recognise pointers, ADTs (by path), closures, fn defs, dyn traits.
fn ty_j<'tcx>(tcx: TyCtxt<'tcx>, ty: Ty<'tcx>, depth: usize) -> J {
    let mut o: Vec<(String, J)> = vec![("s".into(), J::s(ty_s(ty)))];
    if depth == 0 {
        return J::Obj(o);
    }
    match ty.kind() {
        ty::Ref(_, inner, m) => {
            o.push(("k".into(), J::s(if m.is_mut() { "refmut" } else { "ref" })));
            o.push(("of".into(), ty_j(tcx, *inner, depth - 1)));
        }
        ty::RawPtr(inner, m) => {
            o.push(("k".into(), J::s(if m.is_mut() { "ptrmut" } else { "ptr" })));
            o.push(("of".into(), ty_j(tcx, *inner, depth - 1)));
        }
        ty::Adt(adt, args) => {
            o.push(("k".into(), J::s("adt")));
            o.push(("path".into(), J::s(def_s(tcx, adt.did()))));
            let a: Vec<J> = args
                .iter()
                .filter_map(|g| g.as_type())
                .map(|t| ty_j(tcx, t, depth - 1))
                .collect();
            o.push(("args".into(), J::Arr(a)));
            let c: Vec<J> = args
                .iter()
                .filter_map(|g| g.as_const())
                .map(|c| J::s(format!("{c}")))
                .collect();
            if !c.is_empty() {
                o.push(("cargs".into(), J::Arr(c)));
            }
        }
        ty::Dynamic(preds, _) => {
            o.push(("k".into(), J::s("dyn")));
            let mut principal = J::Null;
            let mut autos = vec![];
            for p in preds.iter() {
                match p.skip_binder() {
                    ty::ExistentialPredicate::Trait(t) => {
                        principal = J::s(def_s(tcx, t.def_id));
                    }
                    ty::ExistentialPredicate::AutoTrait(d) => autos.push(J::s(def_s(tcx, d))),
                    ty::ExistentialPredicate::Projection(_) => {}
                }
            }
            o.push(("principal".into(), principal));
            o.push(("autos".into(), J::Arr(autos)));
        }
        ty::Closure(did, _) => {
            o.push(("k".into(), J::s("closure")));
            o.push(("path".into(), J::s(def_s(tcx, *did))));
        }
        ty::FnDef(did, args) => {
            o.push(("k".into(), J::s("fndef")));
            o.push(("path".into(), J::s(def_s(tcx, *did))));
            o.push((
                "full".into(),
                J::s(tcx.def_path_str_with_args(*did, args)),
            ));
        }
        ty::Tuple(ts) => {
            o.push(("k".into(), J::s("tuple")));
            o.push((
                "args".into(),
                J::Arr(ts.iter().map(|t| ty_j(tcx, t, depth - 1)).collect()),
            ));
        }
        ty::Slice(t) => {
            o.push(("k".into(), J::s("slice")));
            o.push(("of".into(), ty_j(tcx, *t, depth - 1)));
        }
        ty::Array(t, n) => {
            o.push(("k".into(), J::s("array")));
            o.push(("of".into(), ty_j(tcx, *t, depth - 1)));
            o.push(("len".into(), J::s(format!("{n}"))));
        }
        ty::Param(p) => {
            o.push(("k".into(), J::s("param")));
            o.push(("name".into(), J::s(p.name.to_string())));
        }
        ty::Bool | ty::Char | ty::Int(_) | ty::Uint(_) | ty::Float(_) | ty::Str => {
            o.push(("k".into(), J::s("prim")));
        }
        ty::Alias(..) => {
            o.push(("k".into(), J::s("alias")));
        }
        ty::FnPtr(..) => {
            o.push(("k".into(), J::s("fnptr")));
        }
        ty::Never => {
            o.push(("k".into(), J::s("never")));
        }
        _ => {
            o.push(("k".into(), J::s("other")));
        }
    }
    J::Obj(o)
}

// ---------------------------------------------------------------------------

fn dump_crate<'tcx>(tcx: TyCtxt<'tcx>, name: &str, nonce: &str) -> J {
    let mut adts = vec![];
    let mut impls = vec![];
    let mut traits = vec![];
    let mut statics = vec![];
    let mut consts = vec![];

    let items = tcx.hir_crate_items(());
    for ldid in items.definitions() {
        let did = ldid.to_def_id();
        match tcx.def_kind(did) {
            DefKind::Struct | DefKind::Enum | DefKind::Union => adts.push(dump_adt(tcx, did)),
            DefKind::Impl { .. } => impls.push(dump_impl(tcx, ldid)),
            DefKind::Trait => traits.push(dump_trait(tcx, did)),
            DefKind::Static { mutability, .. } => {
                let ty = tcx.type_of(did).instantiate_identity().skip_norm_wip();
                statics.push(J::Obj(vec![
                    ("path".into(), J::s(def_s(tcx, did))),
                    ("mut".into(), J::Bool(mutability.is_mut())),
                    ("ty".into(), ty_j(tcx, ty, 3)),
                    ("freeze".into(), J::Bool(ty.is_freeze(tcx, TypingEnv::post_analysis(tcx, did)))),
                    ("thread_local".into(), J::Bool(tcx.is_thread_local_static(did))),
                    ("span".into(), span_j(tcx, tcx.def_span(did))),
                ]));
            }
            DefKind::Const { .. } | DefKind::AssocConst { .. } => {
                consts.push(J::Obj(vec![
                    ("path".into(), J::s(def_s(tcx, did))),
                    ("span".into(), span_j(tcx, tcx.def_span(did))),
                ]));
            }
            _ => {}
        }
    }

    let mut fns = vec![];
    for ldid in tcx.mir_keys(()).iter() {
        let did = ldid.to_def_id();
        match tcx.def_kind(did) {
            DefKind::Fn | DefKind::AssocFn | DefKind::Closure | DefKind::InlineConst => {}
            _ => continue,
        }
        fns.push(dump_fn(tcx, *ldid));
    }

    let unsafe_uses = dump_unsafe(tcx);

    J::Obj(vec![
        ("crate".into(), J::s(name)),
        ("nonce".into(), J::s(nonce)),
        (
            "opts".into(),
            J::Obj(vec![
                (
                    "overflow_checks".into(),
                    J::Bool(tcx.sess.overflow_checks()),
                ),
                (
                    "debug_assertions".into(),
                    J::Bool(tcx.sess.opts.debug_assertions),
                ),
            ]),
        ),
        ("adts".into(), J::Arr(adts)),
        ("impls".into(), J::Arr(impls)),
        ("traits".into(), J::Arr(traits)),
        ("statics".into(), J::Arr(statics)),
        ("consts".into(), J::Arr(consts)),
        ("unsafe".into(), J::Arr(unsafe_uses)),
        ("fns".into(), J::Arr(fns)),
    ])
}

fn derived_traits_of_impl(tcx: TyCtxt<'_>, did: DefId) -> bool {
    tcx.is_automatically_derived(did)
}

fn dump_adt<'tcx>(tcx: TyCtxt<'tcx>, did: DefId) -> J {
    let adt = tcx.adt_def(did);
    let mut variants = vec![];
    for (vidx, v) in adt.variants().iter_enumerated() {
        let discr = if adt.is_enum() {
            J::Num(adt.discriminant_for_variant(tcx, vidx).val as i128)
        } else {
            J::Num(0)
        };
        let mut fields = vec![];
        for f in v.fields.iter() {
            let fty = tcx.type_of(f.did).instantiate_identity().skip_norm_wip();
            fields.push(J::Obj(vec![
                ("name".into(), J::s(f.name.to_string())),
                ("ty".into(), ty_j(tcx, fty, 4)),
                ("pub".into(), J::Bool(f.vis.is_public())),
                (
                    "vis".into(),
                    J::s(match f.vis {
                        ty::Visibility::Public => "pub".to_string(),
                        ty::Visibility::Restricted(m) => format!("in:{}", def_s(tcx, m)),
                    }),
                ),
            ]));
        }
        variants.push(J::Obj(vec![
            ("name".into(), J::s(v.name.to_string())),
            ("idx".into(), J::Num(vidx.as_u32() as i128)),
            ("discr".into(), discr),
            ("fields".into(), J::Arr(fields)),
        ]));
    }
    let generics = tcx.generics_of(did);
    let gparams: Vec<J> = generics
        .own_params
        .iter()
        .map(|p| J::s(p.name.to_string()))
        .collect();
    J::Obj(vec![
        ("path".into(), J::s(def_s(tcx, did))),
        (
            "kind".into(),
            J::s(if adt.is_enum() {
                "enum"
            } else if adt.is_union() {
                "union"
            } else {
                "struct"
            }),
        ),
        ("pub".into(), J::Bool(tcx.visibility(did).is_public())),
        ("generics".into(), J::Arr(gparams)),
        ("variants".into(), J::Arr(variants)),
        ("span".into(), span_j(tcx, tcx.def_span(did))),
    ])
}

fn predicates_j<'tcx>(tcx: TyCtxt<'tcx>, did: DefId) -> J {
    let preds = tcx.predicates_of(did);
    let mut out = vec![];
    let mut cur = Some(preds);
    // own predicates first, then parents'
    while let Some(p) = cur {
        for (clause, _) in p.predicates.iter() {
            let mut o = vec![("s".into(), J::s(format!("{clause}")))];
            if let Some(tp) = clause.as_trait_clause() {
                let tp = tp.skip_binder();
                o.push(("trait".into(), J::s(def_s(tcx, tp.def_id()))));
                o.push(("self".into(), ty_j(tcx, tp.self_ty(), 3)));
                let targs: Vec<J> = tp
                    .trait_ref
                    .args
                    .iter()
                    .skip(1)
                    .filter_map(|g| g.as_type())
                    .map(|t| ty_j(tcx, t, 3))
                    .collect();
                o.push(("targs".into(), J::Arr(targs)));
            } else if let Some(pp) = clause.as_projection_clause() {
                let pp = pp.skip_binder();
                o.push(("proj".into(), J::s(def_s(tcx, pp.projection_term.def_id()))));
                o.push(("proj_self".into(), J::s(format!("{}", pp.projection_term.self_ty()))));
                if let Some(t) = pp.term.as_type() {
                    o.push(("term".into(), ty_j(tcx, t, 3)));
                }
            }
            out.push(J::Obj(o));
        }
        cur = p.parent.map(|pid| tcx.predicates_of(pid));
    }
    J::Arr(out)
}

fn dump_impl<'tcx>(tcx: TyCtxt<'tcx>, ldid: LocalDefId) -> J {
    let did = ldid.to_def_id();
    let self_ty = tcx.type_of(did).instantiate_identity().skip_norm_wip();
    let mut o = vec![
        ("id".into(), J::s(def_s(tcx, did))),
        ("self".into(), ty_j(tcx, self_ty, 5)),
        ("derived".into(), J::Bool(derived_traits_of_impl(tcx, did))),
        ("span".into(), span_j(tcx, tcx.def_span(did))),
        ("preds".into(), predicates_j(tcx, did)),
    ];
    if let DefKind::Impl { of_trait: true } = tcx.def_kind(did) {
        let tr = tcx.impl_trait_ref(did).instantiate_identity().skip_norm_wip();
        o.push(("trait".into(), J::s(def_s(tcx, tr.def_id))));
        o.push(("trait_full".into(), J::s(format!("{}", tr.print_only_trait_path()))));
        let targs: Vec<J> = tr
            .args
            .iter()
            .skip(1)
            .filter_map(|g| g.as_type())
            .map(|t| ty_j(tcx, t, 4))
            .collect();
        o.push(("targs".into(), J::Arr(targs)));
    } else {
        o.push(("trait".into(), J::Null));
    }
    let generics = tcx.generics_of(did);
    o.push((
        "generics".into(),
        J::Arr(
            generics
                .own_params
                .iter()
                .map(|p| J::s(p.name.to_string()))
                .collect(),
        ),
    ));
    let mut items = vec![];
    for &it in tcx.associated_item_def_ids(did) {
        let ai = tcx.associated_item(it);
        let mut io = vec![
            ("path".into(), J::s(def_s(tcx, it))),
            ("name".into(), J::s(ai.name().to_string())),
            ("kind".into(), J::s(format!("{:?}", tcx.def_kind(it)))),
        ];
        if matches!(tcx.def_kind(it), DefKind::AssocTy) {
            let t = tcx.type_of(it).instantiate_identity().skip_norm_wip();
            io.push(("ty".into(), ty_j(tcx, t, 4)));
        }
        if matches!(tcx.def_kind(it), DefKind::AssocFn) {
            io.push(("pub".into(), J::Bool(tcx.visibility(it).is_public())));
        }
        items.push(J::Obj(io));
    }
    o.push(("items".into(), J::Arr(items)));
    J::Obj(o)
}

fn dump_trait<'tcx>(tcx: TyCtxt<'tcx>, did: DefId) -> J {
    let mut items = vec![];
    for &it in tcx.associated_item_def_ids(did) {
        let ai = tcx.associated_item(it);
        items.push(J::Obj(vec![
            ("path".into(), J::s(def_s(tcx, it))),
            ("name".into(), J::s(ai.name().to_string())),
            ("kind".into(), J::s(format!("{:?}", tcx.def_kind(it)))),
            (
                "has_default".into(),
                J::Bool(ai.defaultness(tcx).has_value()),
            ),
        ]));
    }
    J::Obj(vec![
        ("path".into(), J::s(def_s(tcx, did))),
        ("items".into(), J::Arr(items)),
        ("preds".into(), predicates_j(tcx, did)),
        ("span".into(), span_j(tcx, tcx.def_span(did))),
    ])
}

// ---------------------------------------------------------------------------
// unsafe uses (HIR walk)

struct UnsafeVisitor<'tcx> {
    tcx: TyCtxt<'tcx>,
    out: Vec<J>,
}

impl<'tcx> rustc_hir::intravisit::Visitor<'tcx> for UnsafeVisitor<'tcx> {
    type NestedFilter = rustc_middle::hir::nested_filter::All;
    fn maybe_tcx(&mut self) -> TyCtxt<'tcx> {
        self.tcx
    }
    fn visit_block(&mut self, b: &'tcx rustc_hir::Block<'tcx>) {
        if let rustc_hir::BlockCheckMode::UnsafeBlock(src) = b.rules {
            if matches!(src, rustc_hir::UnsafeSource::UserProvided) {
                self.out.push(J::Obj(vec![
                    ("kind".into(), J::s("block")),
                    ("span".into(), span_j(self.tcx, b.span)),
                ]));
            }
        }
        rustc_hir::intravisit::walk_block(self, b);
    }
}

fn dump_unsafe<'tcx>(tcx: TyCtxt<'tcx>) -> Vec<J> {
    let mut v = UnsafeVisitor { tcx, out: vec![] };
    tcx.hir_walk_toplevel_module(&mut v);
    let mut out = v.out;
    let items = tcx.hir_crate_items(());
    for ldid in items.definitions() {
        let did = ldid.to_def_id();
        match tcx.def_kind(did) {
            DefKind::Fn | DefKind::AssocFn => {
                let sig = tcx.fn_sig(did).instantiate_identity().skip_norm_wip();
                if sig.safety().is_unsafe() {
                    out.push(J::Obj(vec![
                        ("kind".into(), J::s("fn")),
                        ("path".into(), J::s(def_s(tcx, did))),
                        ("span".into(), span_j(tcx, tcx.def_span(did))),
                    ]));
                }
            }
            DefKind::Impl { of_trait: true } => {
                let h = tcx.impl_trait_header(did);
                if h.safety.is_unsafe() && !tcx.def_span(did).from_expansion() {
                    out.push(J::Obj(vec![
                        ("kind".into(), J::s("impl")),
                        ("path".into(), J::s(def_s(tcx, did))),
                        ("span".into(), span_j(tcx, tcx.def_span(did))),
                    ]));
                }
            }
            _ => {}
        }
    }
    out
}

// ---------------------------------------------------------------------------
// functions

fn dump_fn<'tcx>(tcx: TyCtxt<'tcx>, ldid: LocalDefId) -> J {
    let did = ldid.to_def_id();
    let kind = tcx.def_kind(did);
    let body: &Body<'tcx> = if matches!(kind, DefKind::InlineConst) {
        tcx.mir_for_ctfe(did)
    } else {
        tcx.optimized_mir(did)
    };
    let tenv = TypingEnv::post_analysis(tcx, did);

    let mut o: Vec<(String, J)> = vec![
        ("id".into(), J::s(def_s(tcx, did))),
        ("kind".into(), J::s(format!("{kind:?}"))),
        ("span".into(), span_j(tcx, tcx.def_span(did))),
        ("argc".into(), J::Num(body.arg_count as i128)),
    ];
    // parent (closure → enclosing fn; assoc fn → impl/trait)
    if let Some(parent) = tcx.opt_parent(did) {
        o.push(("parent".into(), J::s(def_s(tcx, parent))));
        o.push((
            "parent_kind".into(),
            J::s(format!("{:?}", tcx.def_kind(parent))),
        ));
    }
    if matches!(kind, DefKind::InlineConst) {
        let root = tcx.typeck_root_def_id(did);
        o.push(("root".into(), J::s(def_s(tcx, root))));
    } else if matches!(kind, DefKind::Closure) {
        let root = tcx.typeck_root_def_id(did);
        o.push(("root".into(), J::s(def_s(tcx, root))));
        // captured variables in upvar order
        let caps: Vec<J> = tcx
            .closure_captures(ldid)
            .iter()
            .map(|c| {
                J::Obj(vec![
                    ("var".into(), J::s(c.to_symbol().to_string())),
                    ("by_ref".into(), J::Bool(c.is_by_ref())),
                    ("ty".into(), ty_j(tcx, c.place.ty(), 3)),
                ])
            })
            .collect();
        o.push(("captures".into(), J::Arr(caps)));
    } else {
        let sig = tcx.fn_sig(did).instantiate_identity().skip_norm_wip();
        o.push(("sig".into(), J::s(format!("{sig}"))));
        o.push(("pub".into(), J::Bool(tcx.visibility(did).is_public())));
        o.push(("is_const".into(), J::Bool(tcx.is_const_fn(did))));
    }
    if let Some(ai) = tcx.opt_associated_item(did) {
        o.push(("assoc_name".into(), J::s(ai.name().to_string())));
        if let Some(ti) = ai.trait_item_def_id() {
            o.push(("trait_item".into(), J::s(def_s(tcx, ti))));
        }
        o.push(("takes_self".into(), J::Bool(ai.is_method())));
    }
    o.push(("preds".into(), predicates_j(tcx, did)));
    // names of the type / const parameters in the order of a call's generic arguments (parents first, lifetimes skipped)
    {
        let mut chain = vec![];
        let mut cur = Some(tcx.typeck_root_def_id(did));
        while let Some(d) = cur {
            let g = tcx.generics_of(d);
            chain.push(g);
            cur = g.parent;
        }
        let mut names = vec![];
        for g in chain.iter().rev() {
            for p in g.own_params.iter() {
                if matches!(p.kind, ty::GenericParamDefKind::Lifetime) {
                    continue;
                }
                names.push(J::s(p.name.to_string()));
            }
        }
        o.push(("generics".into(), J::Arr(names)));
    }

    // locals
    let mut locals = vec![];
    for (_l, decl) in body.local_decls.iter_enumerated() {
        locals.push(J::Obj(vec![
            ("ty".into(), ty_j(tcx, decl.ty, 4)),
            ("mut".into(), J::Bool(decl.mutability.is_mut())),
        ]));
    }
    o.push(("locals".into(), J::Arr(locals)));

    // debug names
    let mut dbg = vec![];
    for vdi in &body.var_debug_info {
        if let mir::VarDebugInfoContents::Place(p) = vdi.value {
            dbg.push(J::Obj(vec![
                ("name".into(), J::s(vdi.name.to_string())),
                ("place".into(), place_j(tcx, body, &p)),
            ]));
        }
    }
    o.push(("debug".into(), J::Arr(dbg)));

    let mut blocks = vec![];
    for (_bb, data) in body.basic_blocks.iter_enumerated() {
        blocks.push(block_j(tcx, body, tenv, data));
    }
    o.push(("blocks".into(), J::Arr(blocks)));
    // promoted constants (e.g. `&0.0`): tiny bodies whose _0 is the promoted value
    let mut proms = vec![];
    for pbody in tcx.promoted_mir(did).iter() {
        let mut pblocks = vec![];
        for (_bb, data) in pbody.basic_blocks.iter_enumerated() {
            pblocks.push(block_j(tcx, pbody, tenv, data));
        }
        proms.push(J::Arr(pblocks));
    }
    if !proms.is_empty() {
        o.push(("promoted".into(), J::Arr(proms)));
    }
    J::Obj(o)
}

fn place_j<'tcx>(tcx: TyCtxt<'tcx>, body: &Body<'tcx>, place: &Place<'tcx>) -> J {
    let mut proj = vec![];
    let mut pty = mir::PlaceTy::from_ty(body.local_decls[place.local].ty);
    for elem in place.projection.iter() {
        let j = match elem {
            PlaceElem::Deref => J::s("deref"),
            PlaceElem::Field(f, fty) => {
                let mut o = vec![("f".into(), J::Num(f.as_u32() as i128))];
                match pty.ty.kind() {
                    ty::Adt(adt, _) => {
                        let vidx = pty.variant_index.unwrap_or(rustc_abi::FIRST_VARIANT);
                        if adt.is_enum() || adt.is_struct() || adt.is_union() {
                            if let Some(v) = adt.variants().get(vidx) {
                                if let Some(fd) = v.fields.get(f) {
                                    o.push(("name".into(), J::s(fd.name.to_string())));
                                }
                                o.push(("adt".into(), J::s(def_s(tcx, adt.did()))));
                                if adt.is_enum() {
                                    o.push(("variant".into(), J::s(v.name.to_string())));
                                }
                            }
                        }
                    }
                    ty::Closure(cdid, _) => {
                        if let Some(l) = cdid.as_local() {
                            let caps = tcx.closure_captures(l);
                            if let Some(c) = caps.get(f.as_usize()) {
                                o.push(("name".into(), J::s(c.to_symbol().to_string())));
                                o.push(("upvar".into(), J::Bool(true)));
                            }
                        }
                    }
                    ty::Tuple(_) => {
                        o.push(("tuple".into(), J::Bool(true)));
                    }
                    _ => {}
                }
                o.push(("ty".into(), J::s(ty_s(fty))));
                J::Obj(o)
            }
            PlaceElem::Downcast(name, vidx) => J::Obj(vec![
                ("dc".into(), J::Num(vidx.as_u32() as i128)),
                (
                    "name".into(),
                    match name {
                        Some(n) => J::s(n.to_string()),
                        None => J::Null,
                    },
                ),
            ]),
            PlaceElem::Index(l) => J::Obj(vec![("idx".into(), J::Num(l.as_u32() as i128))]),
            PlaceElem::ConstantIndex {
                offset,
                min_length,
                from_end,
            } => J::Obj(vec![
                ("cidx".into(), J::Num(offset as i128)),
                ("min".into(), J::Num(min_length as i128)),
                ("from_end".into(), J::Bool(from_end)),
            ]),
            PlaceElem::Subslice { from, to, from_end } => J::Obj(vec![
                ("sub".into(), J::Num(from as i128)),
                ("to".into(), J::Num(to as i128)),
                ("from_end".into(), J::Bool(from_end)),
            ]),
            PlaceElem::OpaqueCast(_) => J::s("opaque"),
            PlaceElem::UnwrapUnsafeBinder(_) => J::s("unwrap_binder"),
        };
        proj.push(j);
        pty = pty.projection_ty(tcx, elem);
    }
    J::Obj(vec![
        ("l".into(), J::Num(place.local.as_u32() as i128)),
        ("p".into(), J::Arr(proj)),
    ])
}

fn const_j<'tcx>(tcx: TyCtxt<'tcx>, tenv: TypingEnv<'tcx>, c: &mir::ConstOperand<'tcx>) -> J {
    let ty = c.const_.ty();
    let mut o = vec![
        ("k".into(), J::s("const")),
        ("ty".into(), J::s(ty_s(ty))),
        ("s".into(), J::s(format!("{}", c.const_))),
    ];
    if let mir::Const::Unevaluated(uv, _) = c.const_ {
        if let Some(p) = uv.promoted {
            o.push(("promoted".into(), J::Num(p.as_u32() as i128)));
        }
    }
    match ty.kind() {
        ty::FnDef(did, args) => {
            o.push(("fn".into(), J::s(def_s(tcx, *did))));
            o.push(("full".into(), J::s(tcx.def_path_str_with_args(*did, args))));
            o.push(("targs".into(), generic_args_j(tcx, args)));
            o.push(("res".into(), resolve_j(tcx, tenv, *did, args)));
            o.push(("krate".into(), J::s(tcx.crate_name(did.krate).to_string())));
        }
        ty::Closure(did, _) => {
            o.push(("closure".into(), J::s(def_s(tcx, *did))));
        }
        ty::Bool | ty::Int(_) | ty::Uint(_) | ty::Char => {
            if let Some(si) = c.const_.try_eval_scalar_int(tcx, tenv) {
                let size = si.size();
                let bits = si.to_bits(size);
                let v: i128 = match ty.kind() {
                    ty::Int(_) => {
                        // sign extend
                        let shift = 128 - size.bits();
                        ((bits as i128) << shift) >> shift
                    }
                    _ => bits as i128,
                };
                o.push(("v".into(), J::Num(v)));
            }
        }
        ty::Float(_) => {
            if let Some(si) = c.const_.try_eval_scalar_int(tcx, tenv) {
                let size = si.size();
                let bits = si.to_bits(size);
                o.push(("bits".into(), J::s(format!("{bits}"))));
                let f = if size.bits() == 64 {
                    f64::from_bits(bits as u64)
                } else if size.bits() == 32 {
                    f32::from_bits(bits as u32) as f64
                } else {
                    f64::NAN
                };
                o.push(("fv".into(), J::s(format!("{f:?}"))));
            }
        }
        _ => {}
    }
    J::Obj(o)
}

fn generic_args_j<'tcx>(tcx: TyCtxt<'tcx>, args: ty::GenericArgsRef<'tcx>) -> J {
    let mut out = vec![];
    for g in args.iter() {
        if let Some(t) = g.as_type() {
            out.push(ty_j(tcx, t, 3));
        } else if let Some(c) = g.as_const() {
            out.push(J::Obj(vec![
                ("k".into(), J::s("constarg")),
                ("s".into(), J::s(format!("{c}"))),
            ]));
        }
    }
    J::Arr(out)
}

fn resolve_j<'tcx>(
    tcx: TyCtxt<'tcx>,
    tenv: TypingEnv<'tcx>,
    did: DefId,
    args: ty::GenericArgsRef<'tcx>,
) -> J {
    // Only meaningful for trait methods; for others return the def itself.
    if tcx.trait_of_assoc(did).is_none() {
        return J::Null;
    }
    match Instance::try_resolve(tcx, tenv, did, args) {
        Ok(Some(inst)) => {
            let rid = inst.def_id();
            let kind = match inst.def {
                ty::InstanceKind::Item(_) => "item",
                ty::InstanceKind::Virtual(..) => "virtual",
                ty::InstanceKind::ClosureOnceShim { .. } => "closure_once",
                ty::InstanceKind::FnPtrShim(..) => "fnptr_shim",
                ty::InstanceKind::CloneShim(..) => "clone_shim",
                ty::InstanceKind::Intrinsic(_) => "intrinsic",
                ty::InstanceKind::DropGlue(..) => "drop_glue",
                _ => "other",
            };
            // `x.into()` resolves to core's blanket `impl<T, U: From<T>> Into<U> for T`, whose body is `U::from(self)`:
            // record which `From` impl that dispatches to (when the types say), so that `x.into()` and `U::from(x)` are
            // known to be the same call
            let mut via = J::Null;
            if def_s(tcx, rid) == "<T as std::convert::Into<U>>::into" && inst.args.len() == 2 {
                if let (Some(t), Some(u)) = (inst.args[0].as_type(), inst.args[1].as_type()) {
                    let from_fn = tcx.get_diagnostic_item(rustc_span::sym::From).and_then(|tr| {
                        tcx.associated_items(tr)
                            .in_definition_order()
                            .find(|i| i.name().as_str() == "from")
                            .map(|i| i.def_id)
                    });
                    if let Some(from_fn) = from_fn {
                        let fargs = tcx.mk_args(&[u.into(), t.into()]);
                        if let Ok(Some(fi)) = Instance::try_resolve(tcx, tenv, from_fn, fargs) {
                            let fid = fi.def_id();
                            via = J::Obj(vec![
                                ("def".into(), J::s(def_s(tcx, fid))),
                                ("local".into(), J::Bool(fid.is_local())),
                                ("full".into(), J::s(tcx.def_path_str_with_args(fid, fi.args))),
                                ("targs".into(), generic_args_j(tcx, fi.args)),
                            ]);
                        }
                    }
                }
            }
            J::Obj(vec![
                ("def".into(), J::s(def_s(tcx, rid))),
                ("via_from".into(), via),
                ("kind".into(), J::s(kind)),
                ("local".into(), J::Bool(rid.is_local())),
                ("krate".into(), J::s(tcx.crate_name(rid.krate).to_string())),
                (
                    "full".into(),
                    J::s(tcx.def_path_str_with_args(rid, inst.args)),
                ),
                // the generic arguments of the resolved item (impl parameters first, then the method's own):
                // what the resolved body's type and const parameters stand for at this call site
                ("targs".into(), generic_args_j(tcx, inst.args)),
            ])
        }
        _ => J::Null,
    }
}

fn operand_j<'tcx>(
    tcx: TyCtxt<'tcx>,
    body: &Body<'tcx>,
    tenv: TypingEnv<'tcx>,
    op: &Operand<'tcx>,
) -> J {
    match op {
        Operand::Copy(p) => J::Obj(vec![
            ("k".into(), J::s("copy")),
            ("place".into(), place_j(tcx, body, p)),
        ]),
        Operand::Move(p) => J::Obj(vec![
            ("k".into(), J::s("move")),
            ("place".into(), place_j(tcx, body, p)),
        ]),
        Operand::Constant(c) => const_j(tcx, tenv, c),
        #[allow(unreachable_patterns)]
        _ => J::Obj(vec![("k".into(), J::s("other"))]),
    }
}

fn rvalue_j<'tcx>(
    tcx: TyCtxt<'tcx>,
    body: &Body<'tcx>,
    tenv: TypingEnv<'tcx>,
    rv: &Rvalue<'tcx>,
) -> J {
    let op = |o: &Operand<'tcx>| operand_j(tcx, body, tenv, o);
    match rv {
        Rvalue::Use(o, ..) => J::Obj(vec![("k".into(), J::s("use")), ("a".into(), op(o))]),
        Rvalue::Repeat(o, n) => J::Obj(vec![
            ("k".into(), J::s("repeat")),
            ("a".into(), op(o)),
            ("n".into(), J::s(format!("{n}"))),
        ]),
        Rvalue::Ref(_, bk, p) => J::Obj(vec![
            ("k".into(), J::s("ref")),
            (
                "mut".into(),
                J::Bool(matches!(bk, BorrowKind::Mut { .. })),
            ),
            ("place".into(), place_j(tcx, body, p)),
        ]),
        Rvalue::RawPtr(k, p) => J::Obj(vec![
            ("k".into(), J::s("rawptr")),
            ("kind".into(), J::s(format!("{k:?}"))),
            ("place".into(), place_j(tcx, body, p)),
        ]),
        Rvalue::Cast(kind, o, ty) => J::Obj(vec![
            ("k".into(), J::s("cast")),
            (
                "kind".into(),
                J::s(match kind {
                    CastKind::IntToInt => "IntToInt".to_string(),
                    CastKind::FloatToInt => "FloatToInt".to_string(),
                    CastKind::IntToFloat => "IntToFloat".to_string(),
                    CastKind::FloatToFloat => "FloatToFloat".to_string(),
                    CastKind::Transmute => "Transmute".to_string(),
                    other => format!("{other:?}"),
                }),
            ),
            ("a".into(), op(o)),
            ("ty".into(), ty_j(tcx, *ty, 3)),
        ]),
        Rvalue::BinaryOp(bop, ab) => {
            let (a, b) = &**ab;
            J::Obj(vec![
                ("k".into(), J::s("binop")),
                ("op".into(), J::s(format!("{bop:?}"))),
                ("a".into(), op(a)),
                ("b".into(), op(b)),
            ])
        }
        Rvalue::UnaryOp(uop, a) => J::Obj(vec![
            ("k".into(), J::s("unop")),
            ("op".into(), J::s(format!("{uop:?}"))),
            ("a".into(), op(a)),
        ]),
        Rvalue::Discriminant(p) => J::Obj(vec![
            ("k".into(), J::s("discr")),
            ("place".into(), place_j(tcx, body, p)),
        ]),
        Rvalue::Aggregate(kind, ops) => {
            let mut o = vec![("k".into(), J::s("agg"))];
            match &**kind {
                AggregateKind::Array(_) => o.push(("agg".into(), J::s("array"))),
                AggregateKind::Tuple => o.push(("agg".into(), J::s("tuple"))),
                AggregateKind::Adt(did, vidx, _, _, active) => {
                    o.push(("agg".into(), J::s("adt")));
                    let adt = tcx.adt_def(*did);
                    o.push(("adt".into(), J::s(def_s(tcx, *did))));
                    let v = adt.variant(*vidx);
                    o.push(("variant".into(), J::s(v.name.to_string())));
                    o.push(("vidx".into(), J::Num(vidx.as_u32() as i128)));
                    let names: Vec<J> = v.fields.iter().map(|f| J::s(f.name.to_string())).collect();
                    o.push(("fields".into(), J::Arr(names)));
                    if let Some(a) = active {
                        o.push(("active".into(), J::Num(a.as_u32() as i128)));
                    }
                }
                AggregateKind::Closure(did, _) => {
                    o.push(("agg".into(), J::s("closure")));
                    o.push(("closure".into(), J::s(def_s(tcx, *did))));
                }
                other => o.push(("agg".into(), J::s(format!("{other:?}")))),
            }
            o.push((
                "ops".into(),
                J::Arr(ops.iter().map(|x| op(x)).collect()),
            ));
            J::Obj(o)
        }
        Rvalue::CopyForDeref(p) => J::Obj(vec![
            ("k".into(), J::s("copy_for_deref")),
            ("place".into(), place_j(tcx, body, p)),
        ]),
        Rvalue::ThreadLocalRef(did) => J::Obj(vec![
            ("k".into(), J::s("thread_local_ref")),
            ("path".into(), J::s(def_s(tcx, *did))),
        ]),
        other => J::Obj(vec![
            ("k".into(), J::s("other")),
            ("s".into(), J::s(format!("{other:?}"))),
        ]),
    }
}

fn block_j<'tcx>(
    tcx: TyCtxt<'tcx>,
    body: &Body<'tcx>,
    tenv: TypingEnv<'tcx>,
    data: &BasicBlockData<'tcx>,
) -> J {
    let mut stmts = vec![];
    for st in &data.statements {
        match &st.kind {
            StatementKind::Assign(b) => {
                let (place, rv) = &**b;
                stmts.push(J::Obj(vec![
                    ("k".into(), J::s("assign")),
                    ("lhs".into(), place_j(tcx, body, place)),
                    ("rv".into(), rvalue_j(tcx, body, tenv, rv)),
                    ("span".into(), span_j(tcx, st.source_info.span)),
                ]));
            }
            StatementKind::SetDiscriminant {
                place,
                variant_index,
            } => {
                stmts.push(J::Obj(vec![
                    ("k".into(), J::s("setdiscr")),
                    ("lhs".into(), place_j(tcx, body, place)),
                    ("vidx".into(), J::Num(variant_index.as_u32() as i128)),
                    ("span".into(), span_j(tcx, st.source_info.span)),
                ]));
            }
            StatementKind::Intrinsic(i) => {
                stmts.push(J::Obj(vec![
                    ("k".into(), J::s("intrinsic")),
                    ("s".into(), J::s(format!("{i:?}"))),
                ]));
            }
            _ => {}
        }
    }
    let term = data.terminator();
    let sp = span_j(tcx, term.source_info.span);
    let bbn = |b: mir::BasicBlock| J::Num(b.as_u32() as i128);
    let t = match &term.kind {
        TerminatorKind::Goto { target } => J::Obj(vec![
            ("k".into(), J::s("goto")),
            ("target".into(), bbn(*target)),
        ]),
        TerminatorKind::SwitchInt { discr, targets } => {
            let mut arms = vec![];
            for (v, t) in targets.iter() {
                arms.push(J::Arr(vec![J::Num(v as i128), bbn(t)]));
            }
            J::Obj(vec![
                ("k".into(), J::s("switch")),
                ("discr".into(), operand_j(tcx, body, tenv, discr)),
                (
                    "discr_ty".into(),
                    J::s(ty_s(discr.ty(&body.local_decls, tcx))),
                ),
                ("arms".into(), J::Arr(arms)),
                ("otherwise".into(), bbn(targets.otherwise())),
                ("span".into(), sp),
            ])
        }
        TerminatorKind::Return => J::Obj(vec![("k".into(), J::s("return")), ("span".into(), sp)]),
        TerminatorKind::Unreachable => {
            J::Obj(vec![("k".into(), J::s("unreachable")), ("span".into(), sp)])
        }
        TerminatorKind::UnwindResume => J::Obj(vec![("k".into(), J::s("resume"))]),
        TerminatorKind::UnwindTerminate(_) => J::Obj(vec![("k".into(), J::s("terminate"))]),
        TerminatorKind::Drop { place, target, .. } => J::Obj(vec![
            ("k".into(), J::s("drop")),
            ("place".into(), place_j(tcx, body, place)),
            ("target".into(), bbn(*target)),
        ]),
        TerminatorKind::Call {
            func,
            args,
            destination,
            target,
            unwind,
            fn_span,
            ..
        } => {
            let mut o = vec![("k".into(), J::s("call"))];
            let fty = func.ty(&body.local_decls, tcx);
            match fty.kind() {
                ty::FnDef(did, gargs) => {
                    o.push(("fn".into(), J::s(def_s(tcx, *did))));
                    o.push((
                        "full".into(),
                        J::s(tcx.def_path_str_with_args(*did, gargs)),
                    ));
                    o.push(("targs".into(), generic_args_j(tcx, gargs)));
                    if let Some(tr) = tcx.trait_of_assoc(*did) {
                        o.push(("trait".into(), J::s(def_s(tcx, tr))));
                    }
                    if let Some(ai) = tcx.opt_associated_item(*did) {
                        o.push(("name".into(), J::s(ai.name().to_string())));
                    } else {
                        o.push(("name".into(), J::s(tcx.item_name(*did).to_string())));
                    }
                    o.push(("res".into(), resolve_j(tcx, tenv, *did, gargs)));
                    o.push(("local".into(), J::Bool(did.is_local())));
                    o.push(("krate".into(), J::s(tcx.crate_name(did.krate).to_string())));
                }
                _ => {
                    o.push(("fn".into(), J::Null));
                    o.push(("fnop".into(), operand_j(tcx, body, tenv, func)));
                    o.push(("fnty".into(), J::s(ty_s(fty))));
                }
            }
            o.push((
                "args".into(),
                J::Arr(
                    args.iter()
                        .map(|a| operand_j(tcx, body, tenv, &a.node))
                        .collect(),
                ),
            ));
            o.push(("dest".into(), place_j(tcx, body, destination)));
            o.push((
                "target".into(),
                match target {
                    Some(t) => bbn(*t),
                    None => J::Null,
                },
            ));
            o.push((
                "cleanup".into(),
                match unwind {
                    mir::UnwindAction::Cleanup(b) => bbn(*b),
                    _ => J::Null,
                },
            ));
            o.push(("span".into(), sp));
            o.push(("fn_span".into(), span_j(tcx, *fn_span)));
            J::Obj(o)
        }
        TerminatorKind::Assert {
            cond,
            expected,
            msg,
            target,
            ..
        } => {
            let kind = match &**msg {
                mir::AssertKind::BoundsCheck { .. } => "BoundsCheck".to_string(),
                mir::AssertKind::Overflow(op, ..) => format!("Overflow:{op:?}"),
                mir::AssertKind::OverflowNeg(_) => "OverflowNeg".to_string(),
                mir::AssertKind::DivisionByZero(_) => "DivisionByZero".to_string(),
                mir::AssertKind::RemainderByZero(_) => "RemainderByZero".to_string(),
                mir::AssertKind::MisalignedPointerDereference { .. } => {
                    "MisalignedPointerDereference".to_string()
                }
                mir::AssertKind::NullPointerDereference => "NullPointerDereference".to_string(),
                other => {
                    let s = format!("{other:?}");
                    s.split(|c: char| !c.is_alphanumeric())
                        .next()
                        .unwrap_or("Other")
                        .to_string()
                }
            };
            let mut ops = vec![];
            match &**msg {
                mir::AssertKind::BoundsCheck { len, index } => {
                    ops.push(operand_j(tcx, body, tenv, len));
                    ops.push(operand_j(tcx, body, tenv, index));
                }
                mir::AssertKind::Overflow(_, a, b) => {
                    ops.push(operand_j(tcx, body, tenv, a));
                    ops.push(operand_j(tcx, body, tenv, b));
                }
                mir::AssertKind::OverflowNeg(a)
                | mir::AssertKind::DivisionByZero(a)
                | mir::AssertKind::RemainderByZero(a) => {
                    ops.push(operand_j(tcx, body, tenv, a));
                }
                _ => {}
            }
            J::Obj(vec![
                ("k".into(), J::s("assert")),
                ("cond".into(), operand_j(tcx, body, tenv, cond)),
                ("expected".into(), J::Bool(*expected)),
                ("msg".into(), J::s(kind)),
                ("ops".into(), J::Arr(ops)),
                ("target".into(), bbn(*target)),
                ("span".into(), sp),
            ])
        }
        other => J::Obj(vec![
            ("k".into(), J::s("other")),
            ("s".into(), J::s(format!("{other:?}"))),
        ]),
    };
    J::Obj(vec![
        ("stmts".into(), J::Arr(stmts)),
        ("term".into(), t),
        ("cleanup".into(), J::Bool(data.is_cleanup)),
    ])
}
