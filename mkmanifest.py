#!/usr/bin/env python3
"""Generate /verif/MANIFEST.json from the rule modules' META blocks."""
import importlib, json, os, sys
sys.path.insert(0, os.path.dirname(os.path.abspath(__file__)))
PROPS = ["C%02d" % i for i in range(1, 20)]
TECH = {
    "C01": "MIR effect analysis (abstract interpretation over stack primitives) + def-use pattern rules vs. spec tables",
    "C02": "MIR effect analysis: mutation-before-failure on the boundary grid; helper summaries verified structurally",
    "C03": "MIR CFG/loop analysis, effect analysis (fatal => overflow), call-graph panic-site and loop audit",
    "C04": "path-sensitive MIR def-use rules (guards, thresholds, order), field ownership (who-may-write), panic-site audit",
    "C05": "path-sensitive MIR def-use rules (linear use of genes, block count), NumOpens table, panic-site audit",
    "C06": "MIR provenance/forwarder rules over 37 Selector impls, escape-hatch scan, panic-site audit",
    "C07": "MIR def-use pattern rules (reducer, sampling primitive, strict guard)",
    "C08": "path-sensitive MIR rules (shuffle dominance, Ordering-arm effects, loop exits)",
    "C09": "MIR rules on the generation step (count, write-after-success, who-may-write, rng provenance, Send/Sync bounds)",
    "C10": "path-sensitive MIR rules (guards, cut-point domain, ordered single exchange), panic-site audit",
    "C11": "MIR pipeline-shape rules (length preserving adaptors, [old,new] order, gene sources), panic-site audit",
    "C12": "MIR rate-provenance (def-use) rules for every random draw",
    "C13": "MIR def-use rules (Bernoulli ratio provenance, arm/member wiring, overflow guard)",
    "C14": "MIR data-flow/ordering/early-exit rules per combinator, forwarder matcher",
    "C15": "impl-header facts (derived vs manual impls) + MIR pattern rules (single reversal, projections, sum of stored results)",
    "C16": "whole-workspace who-may-call / ADT-shape / rng-threading analysis (purity argument)",
    "C17": "forwarder identity over the macro-expanded impl matrix (5 x (1 + 28) impls + assoc types)",
    "C18": "MIR pattern rules + field ownership (private, constructed once, never written), panic-site audit",
    "C19": "typestate automaton extracted from impl headers, exhaustive exploration; rustc compile_fail witnesses; MIR body rules",
}
checks = []
for p in PROPS:
    m = importlib.import_module("uecheck.rules_" + p.lower())
    M = m.META
    note = "Trusted: " + "; ".join(M.get("trusted_base", [])) + (". Assumes: " + "; ".join(M["assumptions"]) if M.get("assumptions") else "") + \
        (". NOT decided by this check: " + "; ".join(M["not_decided"]) if M.get("not_decided") else "")
    checks.append({
        "property_id": p,
        "quick_cmd": "./check %s --tier quick" % p,
        "thorough_cmd": "./check %s --tier thorough" % p,
        "evidence_file": "evidence/%s.json" % p,
        "replay_cmd_template": "./check %s --replay {path}" % p,
        "engine": "uecfacts+uecheck",
        "level_claimed": {"category": M["level"], "text": M["explanation"], "design_ref": "DESIGN.md section 3, " + p},
        "level_note": note,
        "technique": "static analysis: " + TECH[p],
    })
man = {
    "version": 1,
    "setup_cmd": "./setup.sh",
    "hooks": {
        "guard": "push/verif (cargo feature of crate push; off by default)",
        "enable": "fact extraction runs `cargo +nightly check --workspace --lib --features push/verif` when the feature exists in the tree being checked (extract.sh); nothing else in /repo is instrumented",
        "baseline_off_cmd": "cd /repo && cargo test --workspace --no-fail-fast --offline",
        "source_commits": json.load(open(os.path.join(os.path.dirname(os.path.abspath(__file__)), "hooks.json")))["source_commits"] if os.path.exists(os.path.join(os.path.dirname(os.path.abspath(__file__)), "hooks.json")) else [],
        "add_only": True,
    },
    "engines": [
        {"name": "uecfacts", "path": "driver/", "serves_properties": PROPS, "kind_free_text": "rustc_private driver (nightly) injected with RUSTC_WORKSPACE_WRAPPER into cargo check of /repo: dumps MIR (opt-level 0), impl headers, ADT layouts, statics, unsafe uses as JSON facts"},
        {"name": "uecheck", "path": "uecheck/", "serves_properties": PROPS, "kind_free_text": "Python rule engine: path-sensitive def-use reconstruction (sym.py), call graph / who-may-call / panic-site audit (graph.py, common.py), CFG loops (cfg.py), per-property rule modules with spec tables"},
        {"name": "pushfx", "path": "uecheck/pushfx.py", "serves_properties": ["C01", "C02", "C03"], "kind_free_text": "effect extraction + interval abstract interpretation of all Push instructions over stack primitives; oracle tables in pushspec.py"},
        {"name": "typestate+witnesses", "path": "uecheck/rules_c19.py", "serves_properties": ["C19"], "kind_free_text": "typestate automaton from impl headers, exhaustive exploration, nightly rustdoc compile_fail,E0599 witnesses with compiling twins"},
        {"name": "selftest", "path": "selftest/", "serves_properties": PROPS, "kind_free_text": "catalogue of mutants (must be reported) and benign rewrites (must stay silent), applied to scratch copies; run by the thorough tier"},
    ],
    "checks": checks,
    "notes": "Every check extracts facts afresh from /repo's working tree (cargo +nightly check through the driver; nonce-stamped fact files), never executes repository code, and fails closed on missing anchors / instance counts below hand-confirmed floors. Each property is decided at clause level: level_claimed.text lists the decided clauses, level_note what is trusted and what is explicitly not decided. Known findings: known_findings.jsonl (all six defects found were repaired by fix: commits in /repo).",
    "not_applicable": [],
}
json.dump(man, open(os.path.join(os.path.dirname(os.path.abspath(__file__)), "MANIFEST.json"), "w"), indent=1)
print("MANIFEST.json written: %d checks" % len(checks))
