"""C10 - Crossover recombines parental genes position-wise and reports misuse as errors."""
from .pat import ANY, Bind, Call, Param, CParam, Field, Through, Agg, Const, BinOp, match, find, callee_is, path_ends
from .sym import short, subexprs
from .common import (site_is, TryOk, TryErr, is_err_return, return_paths, peel, mentions, derives_from_self, rng_passthrough,
                     check_forwarder, closure_paths, cond_str, audit_panics, CallGraph, ctor_names)

META = {
    "level": "other",
    "explanation": (
        "Static rule conformance on the MIR of the 8 Recombinator impls of TwoPointXo/UniformXo and of Crossover for Bitstring. Decided: (R10.1) a length "
        "inequality guard returning DifferentGenomeLength(len_a, len_b) precedes every draw and every exchange, and the tuple impls forward to the array impls; "
        "(R10.2) panic-site audit over the call-graph closure: every may-panic site (random_range on a possibly empty range, slice range indexing, Vec indexing, "
        "swap_with_slice) must be discharged by a verified guard; (R10.3) cut-point domain: each two-point draw is over the inclusive range 0..=len (or an equivalent "
        "spelling), because with 0..len the exchanged segment can never contain the last gene and an empty parent panics; (R10.4) the cut points are ordered on every "
        "path before the single exchange on first..second, the same range on both parents, the child is the first parent; (R10.5) UniformXo draws one random::<bool>() per "
        "position and takes the gene at that same position from one parent or the other; (R10.6) Bitstring::crossover_gene swaps exactly gene_mut(index) of both with the "
        "same index and reports (index, size) otherwise; crossover_segment exchanges exactly the addressed range or reports GeneAccessRange without panicking. "
        "NOT decided: that every segment actually occurs with positive probability (rand's uniform range contract)."),
    "rules": {
        "R10.1": "length guard -> DifferentGenomeLength(len_a, len_b) dominates draws and exchanges; tuple impls forward to array impls via From",
        "R10.2": "panic-site audit (A8) over the recombinators and Bitstring's Crossover impl",
        "R10.3": "two-point cut points are drawn from 0..=len (inclusive upper bound = genome length)",
        "R10.4": "cut points ordered before exactly one exchange on first..second, same range on both parents, returns the first parent",
        "R10.5": "UniformXo: one random::<bool>() per position; gene at the same position from either parent; UniformXo<G> returns the child only when 0..len is exhausted",
        "R10.6": "Bitstring::crossover_gene / crossover_segment: same index/range on both sides, exactly one swap and no other in-place operation on the gene vectors, errors carry the address and size",
    },
    "trusted_base": ["rand 0.9 Rng::random_range (uniform over the given range, panics iff empty), Rng::random::<bool>()", "std slice::swap_with_slice / get_mut / mem::swap", "uecfacts driver + uecheck rule engine"],
    "assumptions": [],
    "not_decided": ["segment distribution (rand)"],
}

R = "ec_core::operator::recombinator::Recombinator<%s>>::recombine"
TP = "<ec_linear::recombinator::two_point_xo::TwoPointXo as "
UX = "<ec_linear::recombinator::uniform_xo::UniformXo as "
BS = "<ec_linear::genome::bitstring::Bitstring as ec_linear::recombinator::crossover::Crossover>::"
RNG = ("param", 3)


def G(i):
    return ("index", ("param", 2), ("const", "usize", str(i), i))


def is_len_of(e, i):
    e = peel(e, (), casts=False)
    return callee_is(e, "Vec::len", "Linear::size", "[T]::len") and peel(e[3][0], ("Deref::deref",)) == G(i)


def len_guard(p):
    """the path's length-inequality condition: returns 'equal' / 'different' / None"""
    for c in p.conds:
        e = c[0]
        if e[0] == "binop" and e[1] in ("Ne", "Eq"):
            a, b = e[2], e[3]
            if (is_len_of(a, 0) and is_len_of(b, 1)) or (is_len_of(a, 1) and is_len_of(b, 0)):
                truth = c[1] != 0
                if e[1] == "Ne":
                    return "different" if truth else "equal"
                return "equal" if truth else "different"
    return None


def draw_domain(c):
    """classify a random_range call: ('incl', lo, hi) | ('excl', lo, hi) | None"""
    r = c[3][1]
    if r[0] == "agg" and path_ends(r[2], "Range::Range") and len(r[3]) == 2:
        hi = r[3][1]
        if hi[0] == "binop" and hi[1] in ("Add", "AddWithOverflow") and hi[3][0] == "const" and hi[3][3] == 1:
            return ("incl", r[3][0], hi[2])
        if hi[0] == "field" and hi[1][0] == "binop" and hi[1][1] in ("AddWithOverflow",) and hi[1][3][0] == "const" and hi[1][3][3] == 1:
            return ("incl", r[3][0], hi[1][2])
        return ("excl", r[3][0], hi)
    if callee_is(r, "RangeInclusive::new") and len(r[3]) == 2:
        return ("incl", r[3][0], r[3][1])
    return None


def ordered_by_conds(p, start, end):
    """the path conditions establish start <= end"""
    for c in p.conds:
        e = c[0]
        if e[0] != "binop":
            continue
        truth = c[1] != 0
        a, b = e[2], e[3]
        op = e[1]
        if (op == "Lt" and truth and a == start and b == end) or (op == "Le" and truth and a == start and b == end):
            return True
        if (op == "Lt" and not truth and a == end and b == start) or (op == "Gt" and not truth and a == start and b == end):
            return True
        if (op == "Gt" and truth and a == end and b == start) or (op == "Ge" and truth and a == end and b == start):
            return True
        if (op == "Le" and not truth and a == end and b == start) or (op == "Ge" and not truth and a == start and b == end):
            # !(end <= start)  => start < end
            return True
    return start == end


def pair_as_array(a):
    """[pair.0, pair.1]: the tuple's components in order, spelled as an array literal (what <[T; 2]>::from((a, b)) builds)"""
    return a[0] == "agg" and a[1] == "array" and len(a[3]) == 2 and all(peel(x, ()) == ("field", ("param", 2), i, None) for i, x in enumerate(a[3]))


def ordered_draw_range(p, r):
    """r is a half-open range start..end over two random_range draws with start <= end: either the path has established
    the order of the two draws, or the bounds are min(a, b)..max(a, b) of them; returns the two draws, else None"""
    if not (r[0] == "agg" and path_ends(r[2], "Range::Range") and len(r[3]) == 2):
        return None
    lo, hi = r[3]
    is_draw = lambda y: callee_is(y, "Rng::random_range", "Rng::gen_range")
    if callee_is(lo, "Ord::min", "cmp::min") and callee_is(hi, "Ord::max", "cmp::max") and len(lo[3]) == 2 and len(hi[3]) == 2 and \
            all(is_draw(y) for y in lo[3]) and set(lo[3]) == set(hi[3]) and lo[3][0] != lo[3][1] and "usize" in (lo[2] or "") and "usize" in (hi[2] or ""):
        return tuple(lo[3])
    if is_draw(lo) and is_draw(hi) and ordered_by_conds(p, lo, hi):
        return (lo, hi)
    return None


def check_two_point(ctx, fid, kind):
    f = ctx.fn(fid)
    paths = [p for p in ctx.paths(f) if p.end != "unreachable"]
    tag = "TwoPointXo<%s>" % kind
    at = f.at()
    n_ok = 0
    for i, p in enumerate(paths):
        g = len_guard(p)
        draws = [c for c in p.calls() if callee_is(c, "Rng::random_range", "Rng::gen_range")]
        exch = [c for c in p.calls() if callee_is(c, "[T]::swap_with_slice", "Crossover::crossover_segment")]
        if g == "different" or (g is None and is_err_return(p) and not draws):
            ok = is_err_return(p) and not draws and not exch and "DifferentGenomeLength" in "".join(ctor_names(p.ret)) and \
                any(x[0] == "agg" and path_ends(x[2], "DifferentGenomeLength::DifferentGenomeLength") and is_len_of(x[3][0], 0) and is_len_of(x[3][1], 1) for x in subexprs(p.ret))
            ctx.check(ok and g == "different", "R10.1", "%s/length-mismatch->DifferentGenomeLength(len_a,len_b)" % tag, cond_str(p) + " -> " + short(p.ret, 5), at)
            continue
        # equal-length paths
        ctx.check(g == "equal", "R10.1", "%s/draws-and-exchange-under-equal-length/%d" % (tag, i), cond_str(p)[:300], at,
                  bad_detail="a path that draws/exchanges is not guarded by the length equality check: " + cond_str(p)[:400])
        n_ok += 1
        # R10.3 domain
        ok_dom = len(draws) == 2
        doms = [draw_domain(c) for c in draws]
        for c, d in zip(draws, doms):
            good = d is not None and d[0] == "incl" and d[1][0] == "const" and d[1][3] == 0 and is_len_of(d[2], 0) and c[3][0] == RNG
            ok_dom = ok_dom and good
        if i == ([j for j, q in enumerate(paths) if len_guard(q) == "equal"] or [i])[0]:
            ctx.check(ok_dom, "R10.3", "%s/cut-points-from-0..=len" % tag, "; ".join(short(c[3][1], 4) for c in draws), at,
                      bad_detail="cut points must be drawn from 0..=len (so that a segment can end at the last gene and an empty parent does not panic); extracted ranges: " +
                      "; ".join(short(c[3][1], 5) for c in draws))
        # R10.4 single ordered exchange
        if kind == "Vec":
            ok = len(exch) == 1
            detail = ", ".join(short(c, 3) for c in exch)
            if ok:
                lhs, rhs = exch[0][3][0], exch[0][3][1]
                lhs = peel(lhs, ()); rhs = peel(rhs, ())
                ok = callee_is(lhs, "IndexMut::index_mut") and callee_is(rhs, "IndexMut::index_mut") and \
                    peel(lhs[3][0], ("DerefMut::deref_mut",)) == G(0) and peel(rhs[3][0], ("DerefMut::deref_mut",)) == G(1) and \
                    peel(lhs[3][1], ("Clone::clone",)) == peel(rhs[3][1], ("Clone::clone",))
                rng_ = peel(lhs[3][1], ("Clone::clone",)) if ok else None
        else:
            ok = len(exch) == 1
            detail = ", ".join(short(c, 3) for c in exch)
            if ok:
                ok = peel(exch[0][3][0], ()) == G(0) and peel(exch[0][3][1], ()) == G(1)
                rng_ = exch[0][3][2] if ok else None
        if ok:
            od = ordered_draw_range(p, rng_)
            ok = od is not None and len(draws) == 2 and set(od) == set(draws)
        ctx.check(ok, "R10.4", "%s/one-exchange-on-ordered-first..second/%d" % (tag, i), detail, at,
                  bad_detail="expected exactly one exchange of the same half-open range first..second (first <= second established by the path) on both parents; extracted %s under [%s]" % (detail, cond_str(p)[:300]))
        if not is_err_return(p):
            # the first parent, changed in place by nothing but the exchange checked above (the walker marks a by-value
            # argument that is mutably indexed: the only such access allowed is the exchange's own left-hand side)
            xl = peel(exch[0][3][0], ()) if (kind == "Vec" and len(exch) == 1) else None
            is_child = lambda e: e == G(0) or (xl is not None and e[0] == "tampered" and e[1] == G(0) and e[2] == "index_mut" and e[3] == xl[4])
            ctx.check(match(p.ret, Agg("Result::Ok", is_child)), "R10.4", "%s/child-is-first-parent/%d" % (tag, i), short(p.ret), at)
    ctx.floor("R10.4", n_ok, 1, tag + " equal-length paths")


def check(ctx):
    from .common import shadowing_audit
    ctx.floor('R10.6', shadowing_audit(ctx, 'R10.6', ('ec_core::operator::recombinator::', 'ec_linear::recombinator::', 'ec_linear::genome::Linear', 'ec_core::genome::Genome')), 6, 'Recombinator / Crossover / Linear impls of workspace types (shadowing audit)')
    F = ctx.F
    check_two_point(ctx, TP + R % "[std::vec::Vec<T>; 2]", "Vec")
    check_two_point(ctx, TP + R % "[G; 2]", "G")
    # tuple impls forward
    for pre, tag in ((TP, "TwoPointXo"), (UX, "UniformXo")):
        for ty in ("(std::vec::Vec<T>, std::vec::Vec<T>)", "(G, G)"):
            f = ctx.fn(pre + R % ty)
            check_forwarder(ctx, "R10.1", "%s<%s>/forwards-to-array-impl" % (tag, ty), f, "Recombinator::recombine",
                            [lambda a: derives_from_self(a), lambda a: (callee_is(a, "From::from", "Into::into") and a[3][0] == ("param", 2)) or pair_as_array(a), lambda a: rng_passthrough(a, 3)], wrappers=(), allowed_extra=("From::from", "Into::into"))

    check_uniform(ctx)
    check_bitstring_and_audit(ctx)


def check_uniform(ctx):
    F = ctx.F
    from . import ckit as K
    def vec_indexed(ctx):
        F = ctx.F
        # ---- UniformXo Vec ---------------------------------------------------------
        f = ctx.fn(UX + R % "[std::vec::Vec<T>; 2]")
        for p in [p for p in ctx.paths(f) if p.end != "unreachable"]:
            g = len_guard(p)
            if g == "different":
                ok = is_err_return(p) and any(x[0] == "agg" and path_ends(x[2], "DifferentGenomeLength::DifferentGenomeLength") and is_len_of(x[3][0], 0) and is_len_of(x[3][1], 1) for x in subexprs(p.ret))
                ctx.check(ok, "R10.1", "UniformXo<Vec>/length-mismatch->DifferentGenomeLength(len_a,len_b)", short(p.ret, 5), f.at())
                continue
            b = {}
            ok = g == "equal" and match(p.ret, Agg("Result::Ok", Call("Iterator::collect", Call("Iterator::map", Agg("Range::Range", Const(0), lambda e: is_len_of(e, 0)), Bind("clo"), nargs=2), nargs=1)), b)
            ctx.check(ok, "R10.5", "UniformXo<Vec>/collect(map(0..len,closure))-under-equal-length", short(p.ret, 6), f.at())
            if ok:
                cps = [q for q in closure_paths(ctx, b["clo"]) if q.end != "unreachable"]
                seen = set()
                good = len(cps) == 2
                for q in cps:
                    dr = [c for c in q.calls() if callee_is(c, "Rng::random")]
                    good = good and len(dr) == 1 and rng_passthrough(dr[0][3][0], 3) and len(q.conds) == 1 and q.conds[0][0] == dr[0]
                    r = q.ret
                    okr = match(r, Call("Clone::clone", Call("Index::index", ANY, CParam(2), nargs=2), nargs=1))
                    if okr:
                        src = peel(r[3][0][3][0], ("Deref::deref",))
                        seen.add(0 if src == G(0) else 1 if src == G(1) else -1)
                    good = good and okr
                    # bool generic
                    term = F.fns[dr[0][4][-2]].blocks[dr[0][4][-1]]["term"] if dr else None
                    good = good and term is not None and any(t.get("s") == "bool" for t in term.get("targs", []))
                ctx.check(good and seen == {0, 1}, "R10.5", "UniformXo<Vec>/per-position-coin-picks-same-position-gene", "parents used: %s" % sorted(seen), f.at(),
                          bad_detail="closure must draw one random::<bool>() and return first[pos].clone() or second[pos].clone(): " + "; ".join(short(q.ret, 5) for q in cps))

    def vec_zipped(ctx):
        """the same clauses for `first.iter().zip(&second).map(|(a, b)| if coin { a.clone() } else { b.clone() }).collect()`: position-wise by
        construction (zip pairs equal positions), one coin per position, true takes the first parent's gene"""
        f = ctx.fn(UX + R % "[std::vec::Vec<T>; 2]")
        for p in [p for p in ctx.paths(f) if p.end != "unreachable"]:
            g = len_guard(p)
            if g == "different":
                ok = is_err_return(p) and any(x[0] == "agg" and path_ends(x[2], "DifferentGenomeLength::DifferentGenomeLength") and is_len_of(x[3][0], 0) and is_len_of(x[3][1], 1) for x in subexprs(p.ret))
                ctx.check(ok, "R10.1", "UniformXo<Vec>/length-mismatch->DifferentGenomeLength(len_a,len_b)", short(p.ret, 5), f.at())
                continue
            b = {}
            side = lambda i: (lambda e: peel(e, ("Deref::deref", "[T]::iter", "IntoIterator::into_iter", "Vec::as_slice")) == G(i))
            ok = g == "equal" and match(p.ret, Agg("Result::Ok", Call("Iterator::collect", Call("Iterator::map", Call("Iterator::zip", side(0), side(1), nargs=2), Bind("clo"), nargs=2), nargs=1)), b)
            ctx.check(ok, "R10.5", "UniformXo<Vec>/collect(map(0..len,closure))-under-equal-length", short(p.ret, 6), f.at())
            if ok:
                cps = [q for q in closure_paths(ctx, b["clo"]) if q.end != "unreachable"]
                picked = {}
                good = len(cps) == 2
                for q in cps:
                    dr = [c for c in q.calls() if callee_is(c, "Rng::random")]
                    good = good and len(dr) == 1 and rng_passthrough(dr[0][3][0], 3) and len(q.conds) == 1 and q.conds[0][0] == dr[0]
                    r = q.ret
                    okr = callee_is(r, "Clone::clone") and len(r[3]) == 1 and peel(r[3][0], ())[0] == "field" and peel(peel(r[3][0], ())[1], ())[:2] == ("cparam", 2)
                    if okr and good:
                        picked[q.conds[0][1] != 0] = peel(r[3][0], ())[2]
                    good = good and okr
                    term = F.fns[dr[0][4][-2]].blocks[dr[0][4][-1]]["term"] if dr else None
                    good = good and term is not None and any(t.get("s") == "bool" for t in term.get("targs", []))
                ctx.check(good and sorted(picked) == [False, True] and sorted(picked.values()) == [0, 1], "R10.5", "UniformXo<Vec>/per-position-coin-picks-same-position-gene", "one outcome of the coin takes the first parent's gene of the pair, the other the second's", f.at(),
                          bad_detail="closure must draw one random::<bool>() and return one parent's gene of the pair on true and the other parent's on false: " + "; ".join(short(q.ret, 5) for q in cps))

    def vec_loop(ctx):
        """the same clauses for the explicit loop `for (a, b) in first.iter().zip(&second) { out.push(if coin { a } else { b }.clone()) } Ok(out)`:
        position-wise by construction (zip pairs equal positions; equal lengths are established), one coin and one push per position"""
        F = ctx.F
        f = ctx.fn(UX + R % "[std::vec::Vec<T>; 2]")
        side = lambda i: (lambda e: peel(e, ("Deref::deref", "[T]::iter", "IntoIterator::into_iter", "Vec::as_slice")) == G(i))
        is_nx = lambda c: callee_is(c, "Iterator::next") and (match(c[3][0], Through(Call("IntoIterator::into_iter", Call("Iterator::zip", side(0), side(1), nargs=2), nargs=1))) or
                                                             match(c[3][0], Through(Call("Iterator::zip", side(0), side(1), nargs=2))))
        is_out = lambda e: callee_is(K.strip(e, calls=()), "Vec::with_capacity", "Vec::new")
        good_all, seen, picked = True, set(), {}
        for p in K.live(ctx.cpaths(f)):
            g = len_guard(p)
            if g == "different":
                ok = is_err_return(p) and any(x[0] == "agg" and path_ends(x[2], "DifferentGenomeLength::DifferentGenomeLength") and is_len_of(x[3][0], 0) and is_len_of(x[3][1], 1) for x in subexprs(p.ret))
                ctx.check(ok, "R10.1", "UniformXo<Vec>/length-mismatch->DifferentGenomeLength(len_a,len_b)", short(p.ret, 5), f.at())
                continue
            nx = [c for c in p.calls() if is_nx(c)]
            if g != "equal" or len(nx) != 1 or len([c for c in p.calls() if callee_is(c, "Iterator::next")]) != 1:
                good_all = False
                continue
            dr = [c for c in p.calls() if callee_is(c, "Rng::random")]
            push = K.calls_of(p, "Vec::push", "Extend::extend", "Vec::insert", "Vec::extend_from_slice")
            if K.discr_is(p, lambda o: o == nx[0], 0):
                kind, pay = K.outcome(p)
                good_all = good_all and kind == "ok" and pay is not None and is_out(pay) and not dr and not push
                seen.add("done")
                continue
            item = ("field", nx[0], 0, "Some")
            ok = p.end.startswith("loop:") and len(dr) == 1 and dr[0][3][0] == RNG and len(push) == 1 and callee_is(push[0], "Vec::push") and is_out(push[0][3][0])
            coin = [cc for cc in p.conds if cc[0] == dr[0]] if dr else []
            cs = p.calls()
            ok = ok and len(coin) == 1 and cs.index(nx[0]) < cs.index(dr[0]) < cs.index(push[0])     # the coin is drawn inside the iteration (one per position)
            if ok:
                v = push[0][3][1]
                ok = callee_is(v, "Clone::clone") and len(v[3]) == 1
                src = K.strip(v[3][0], calls=()) if ok else None
                ok = ok and src[0] == "field" and K.strip(src[1], calls=()) == item and src[2] in (0, 1)
                term = F.fns[dr[0][4][-2]].blocks[dr[0][4][-1]]["term"]
                ok = ok and any(t.get("s") == "bool" for t in term.get("targs", []))
                if ok:
                    picked[K.truth_of(coin[0][1])] = src[2]
                    seen.add("push")
            good_all = good_all and ok
        ok = good_all and seen == {"done", "push"}
        ctx.check(ok, "R10.5", "UniformXo<Vec>/collect(map(0..len,closure))-under-equal-length", "explicit loop over first.iter().zip(&second), one push per pair", f.at())
        ctx.check(ok and sorted(picked) == [False, True] and sorted(picked.values()) == [0, 1], "R10.5", "UniformXo<Vec>/per-position-coin-picks-same-position-gene", "one outcome of the coin takes the first parent's gene of the pair, the other the second's", f.at(),
                  bad_detail="each iteration must draw one random::<bool>() and push one parent's gene of the pair on true and the other parent's on false; extracted %s" % picked)
    K.either(ctx, vec_indexed, lambda c: K.either(c, vec_zipped, vec_loop))

    def g_for_loop(ctx):
        F = ctx.F
        # ---- UniformXo G -------------------------------------------------------------
        f = ctx.fn(UX + R % "[G; 2]")
        paths = [p for p in ctx.paths(f) if p.end != "unreachable"]
        n_x = 0
        for p in paths:
            g = len_guard(p)
            xs = [c for c in p.calls() if callee_is(c, "Crossover::crossover_gene")]
            dr = [c for c in p.calls() if callee_is(c, "Rng::random")]
            if g == "different":
                ok = is_err_return(p) and not xs and not dr and any(x[0] == "agg" and path_ends(x[2], "DifferentGenomeLength::DifferentGenomeLength") and is_len_of(x[3][0], 0) and is_len_of(x[3][1], 1) for x in subexprs(p.ret))
                ctx.check(ok, "R10.1", "UniformXo<G>/length-mismatch->DifferentGenomeLength(len_a,len_b)", short(p.ret, 5), f.at())
                continue
            if g != "equal":
                ctx.bad("R10.1", "UniformXo<G>/unguarded-path", cond_str(p)[:300], f.at())
                continue
            for c in xs:
                n_x += 1
                idx = c[3][2]
                ok = peel(c[3][0], ()) == G(0) and peel(c[3][1], ()) == G(1) and \
                    match(idx, Field(Call("Iterator::next", Through(Call("IntoIterator::into_iter", Agg("Range::Range", Const(0), lambda e: is_len_of(e, 0))))), 0, "Some"))
                coin = [cc for cc in p.conds if callee_is(cc[0], "Rng::random") and cc[1] != 0]
                ctx.check(ok and len(coin) == 1 and len(dr) == 1 and dr[0][3][0] == RNG, "R10.5", "UniformXo<G>/exchange-gene-at-loop-index-iff-coin", short(c, 4), f.at(),
                          bad_detail="crossover_gene must be applied to (first, second, current loop index) exactly when the per-position coin is true: " + short(c, 6))
            if not xs and dr:
                coin = [cc for cc in p.conds if callee_is(cc[0], "Rng::random") and cc[1] == 0]
                ctx.check(len(coin) == 1 and len(dr) == 1, "R10.5", "UniformXo<G>/no-exchange-when-coin-false", cond_str(p)[:200], f.at())
            if p.end == "return" and not is_err_return(p):
                ctx.check(match(p.ret, Agg("Result::Ok", lambda e: e == G(0))), "R10.4", "UniformXo<G>/child-is-first-parent", short(p.ret), f.at())
                # every position gets its coin: the child is returned only once 0..len has run out, never from inside an iteration
                lp = [cc for cc in p.conds if cc[0][0] == "discr" and callee_is(cc[0][1], "Iterator::next") and
                      match(cc[0][1][3][0], Through(Call("IntoIterator::into_iter", Agg("Range::Range", Const(0), lambda e: is_len_of(e, 0)))))]
                ctx.check(bool(lp) and all(cc[1] == 0 for cc in lp), "R10.5", "UniformXo<G>/position-loop-left-only-when-exhausted", cond_str(p)[-160:], f.at(),
                          bad_detail="the child is returned from inside an iteration of the 0..len loop (positions after it never get their coin): [%s]" % cond_str(p)[-300:])
        ctx.floor("R10.5", n_x, 1, "UniformXo<G> exchange sites")

    def g_try_for_each(ctx):
        """the same clauses for `(0..len).try_for_each(|i| { if coin { first.crossover_gene(&mut second, i)?; } Ok(()) })`"""
        f = ctx.fn(UX + R % "[G; 2]")
        paths = [p for p in ctx.paths(f) if p.end != "unreachable"]
        n_x = 0
        for p in paths:
            g = len_guard(p)
            tfe = [c for c in p.calls() if callee_is(c, "Iterator::try_for_each")]
            if g == "different":
                ok = is_err_return(p) and not tfe and any(x[0] == "agg" and path_ends(x[2], "DifferentGenomeLength::DifferentGenomeLength") and is_len_of(x[3][0], 0) and is_len_of(x[3][1], 1) for x in subexprs(p.ret))
                ctx.check(ok, "R10.1", "UniformXo<G>/length-mismatch->DifferentGenomeLength(len_a,len_b)", short(p.ret, 5), f.at())
                continue
            if g != "equal":
                ctx.bad("R10.1", "UniformXo<G>/unguarded-path", cond_str(p)[:300], f.at())
                continue
            okt = len(tfe) == 1 and match(tfe[0][3][0], Through(Agg("Range::Range", Const(0), lambda e: is_len_of(e, 0)))) and tfe[0][3][1][0] == "agg" and tfe[0][3][1][1] == "closure"
            ctx.check(okt, "R10.5", "UniformXo<G>/one-pass-over-0..len", short(tfe[0], 3) if tfe else "-", f.at())
            if not okt:
                continue
            for q in [q for q in closure_paths(ctx, tfe[0][3][1]) if q.end != "unreachable"]:
                xs = [c for c in q.calls() if callee_is(c, "Crossover::crossover_gene")]
                dr = [c for c in q.calls() if callee_is(c, "Rng::random")]
                for c in xs:
                    n_x += 1
                    ok = peel(c[3][0], ()) == G(0) and peel(c[3][1], ()) == G(1) and peel(c[3][2], ())[:2] == ("cparam", 2)
                    coin = [cc for cc in q.conds if callee_is(cc[0], "Rng::random") and cc[1] != 0]
                    ctx.check(ok and len(coin) == 1 and len(dr) == 1 and rng_passthrough(dr[0][3][0], 3), "R10.5", "UniformXo<G>/exchange-gene-at-loop-index-iff-coin", short(c, 4), f.at(),
                              bad_detail="crossover_gene must be applied to (first, second, current index) exactly when the per-position coin is true: " + short(c, 6))
                if not xs and dr:
                    coin = [cc for cc in q.conds if callee_is(cc[0], "Rng::random") and cc[1] == 0]
                    ctx.check(len(coin) == 1 and len(dr) == 1, "R10.5", "UniformXo<G>/no-exchange-when-coin-false", cond_str(q)[:200], f.at())
            if p.end == "return" and not is_err_return(p):
                ctx.check(match(p.ret, Agg("Result::Ok", lambda e: e == G(0))), "R10.4", "UniformXo<G>/child-is-first-parent", short(p.ret), f.at())
        ctx.floor("R10.5", n_x, 1, "UniformXo<G> exchange sites")
    K.either(ctx, g_for_loop, g_try_for_each)



def check_linear_impls(ctx):
    """size() / gene_mut() of the workspace's linear genomes address the gene vector itself"""
    n = 0
    for f in ctx.trait_impl_fns("ec_linear::genome::Linear::size"):
        n += 1
        ps = return_paths(ctx.paths(f))
        r = ps[0].ret if len(ps) == 1 else ("unknown",)
        ok = callee_is(r, "Vec::len", "[T]::len") and peel(r[3][0], ("Deref::deref",))[0] == "field" and peel(peel(r[3][0], ("Deref::deref",))[1], ()) == ("param", 1) and len(ps[0].calls()) <= 2
        ctx.check(ok, "R10.6", "Linear::size/%s=len-of-gene-vector" % f.id.split(" as ")[0].split("::")[-1].strip("<>"), short(r, 3), f.at())
    for f in ctx.trait_impl_fns("ec_linear::genome::Linear::gene_mut"):
        n += 1
        ps = return_paths(ctx.paths(f))
        r = ps[0].ret if len(ps) == 1 else ("unknown",)
        ok = callee_is(r, "[T]::get_mut") and r[3][1] == ("param", 2)
        if ok:
            b = peel(r[3][0], ("DerefMut::deref_mut", "Deref::deref"))
            ok = b[0] == "field" and peel(b[1], ()) == ("param", 1)
        ctx.check(ok, "R10.6", "Linear::gene_mut/%s=get_mut(index)-on-gene-vector" % f.id.split(" as ")[0].split("::")[-1].strip("<>"), short(r, 3), f.at())
    ctx.floor("R10.6", n, 6, "Linear::size / gene_mut impls")
    # IntoIterator of the workspace genomes hands out the gene vector's own iterator (front to back, every gene once)
    m = 0
    for f in ctx.trait_impl_fns("std::iter::IntoIterator::into_iter"):
        who = f.id.split(" as ")[0].lstrip("<")
        if not any(who.endswith(t) for t in ("genome::bitstring::Bitstring", "genome::vector::Vector<T>", "genome::plushy::Plushy")):
            continue
        m += 1
        ps = return_paths(ctx.paths(f))
        r = ps[0].ret if len(ps) == 1 else ("unknown",)
        ok = callee_is(r, "IntoIterator::into_iter", "[T]::iter", "[T]::iter_mut", "Vec::into_iter") and len(r[3]) == 1 and len(ps[0].calls()) <= 2
        if ok:
            b = peel(r[3][0], ("DerefMut::deref_mut", "Deref::deref"))
            ok = b[0] == "field" and peel(b[1], ()) == ("param", 1)
        ctx.check(ok, "R10.6", "IntoIterator/%s=iterator-of-the-gene-vector" % who.replace("ec_linear::genome::", "").replace("push::genome::", ""), short(r, 3), f.at(),
                  bad_detail="into_iter of a genome must be the gene vector's own iterator (no rev/skip/filter/other adaptor); extracted " + short(r, 6))
    ctx.floor("R10.6", m, 5, "IntoIterator impls of Bitstring / Vector / Plushy")


def check_bitstring_and_audit(ctx):
    F = ctx.F
    check_linear_impls(ctx)
    # ---- Bitstring ---------------------------------------------------------------------
    def gene_rule(ctx, canon):
        f = ctx.fn(BS + "crossover_gene")
        paths = [p for p in (ctx.cpaths(f) if canon else ctx.paths(f)) if p.end != "unreachable"]
        okp = [p for p in paths if not is_err_return(p)]
        erp = [p for p in paths if is_err_return(p)]
        for p in okp:
            gm = [c for c in p.calls() if callee_is(c, "Linear::gene_mut", "[T]::get_mut")]
            sw = [c for c in p.calls() if callee_is(c, "mem::swap")]
            ok = len(gm) == 2 and len(sw) == 1 and gm[0][3][1] == ("param", 3) and gm[1][3][1] == ("param", 3) and \
                {peel(gm[0][3][0], ()), peel(gm[1][3][0], ())} == {("param", 1), ("param", 2)}
            if ok:
                a, b = sw[0][3][0], sw[0][3][1]
                ok = {a, b} == {("field", gm[0], 0, "Some"), ("field", gm[1], 0, "Some")}
            ctx.check(ok, "R10.6", "crossover_gene/swaps-exactly-gene(index)-of-both", ", ".join(short(c, 3) for c in sw), f.at())
        ctx.floor("R10.6", len(okp), 1, "crossover_gene success paths")
        for i, p in enumerate(erp):
            ok = any(x[0] == "agg" and path_ends(x[2], "GeneAccess::GeneAccess") and x[3][0] == ("param", 3) and callee_is(x[3][1], "Linear::size", "Vec::len") for x in subexprs(p.ret)) and \
                not any(callee_is(c, "mem::swap") for c in p.calls())
            ctx.check(ok, "R10.6", "crossover_gene/out-of-range->GeneAccess(index,size)/%d" % i, short(p.ret, 5), f.at())
        ctx.floor("R10.6", len(erp), 1, "crossover_gene error paths")
    from . import ckit as _Kg
    # the same clauses over canonical paths accept `a.gene_mut(i).zip(b.gene_mut(i)).map(|(x, y)| swap(x, y)).ok_or_else(..)`
    _Kg.either(ctx, lambda c: gene_rule(c, False), lambda c: gene_rule(c, True))
    f = ctx.fn(BS + "crossover_gene")

    f = ctx.fn(BS + "crossover_segment")
    # canonical paths: `match (a.get_mut(r), b.get_mut(r))`, `let (Some(..), Some(..)) = .. else`, and
    # `a.get_mut(r).zip(b.get_mut(r)).map(|(l, r)| l.swap_with_slice(r)).ok_or(..)` all read: both Some -> one swap -> Ok, else the error
    paths = [p for p in ctx.cpaths(f) if p.end != "unreachable"]
    okp = [p for p in paths if p.end == "return" and not is_err_return(p)]
    erp = [p for p in paths if is_err_return(p)]
    for p in okp:
        sw = [c for c in p.calls() if callee_is(c, "[T]::swap_with_slice")]
        ok = len(sw) == 1
        if ok:
            def side(e):
                e = peel(e, ())
                if e[0] == "field" and e[3] == "Some":
                    e = peel(e[1], ())
                if callee_is(e, "IndexMut::index_mut", "[T]::get_mut"):
                    base = peel(e[3][0], ("DerefMut::deref_mut", "Deref::deref"))
                    rg = peel(e[3][1], ("Clone::clone",))
                    if base[0] == "field" and base[2] == "bits":
                        return peel(base[1], ()), rg
                return None
            s1, s2 = side(sw[0][3][0]), side(sw[0][3][1])
            ok = s1 is not None and s2 is not None and {s1[0], s2[0]} == {("param", 1), ("param", 2)} and s1[1] == ("param", 3) and s2[1] == ("param", 3)
        ctx.check(ok, "R10.6", "crossover_segment/swaps-exactly-range-of-both", ", ".join(short(c, 4) for c in sw), f.at())
    ctx.floor("R10.6", len(okp), 1, "crossover_segment success paths")
    # ... and that exchange is all that happens to the two gene vectors: no other in-place operation of Vec / [T] on any path
    from .sym import Walker
    for nm, pp in (("crossover_segment", paths), ("crossover_gene", [p for p in ctx.cpaths(ctx.fn(BS + "crossover_gene")) if p.end != "unreachable"])):
        extra = [c for p in pp for c in p.calls() if callee_is(c, *Walker.TAMPER) and not callee_is(c, "[T]::get_mut", "IndexMut::index_mut") and
                 not (nm == "crossover_segment" and callee_is(c, "[T]::swap_with_slice"))]
        ctx.check(not extra, "R10.6", nm + "/nothing-else-changes-the-genes-in-place", "in-place operations on the gene vectors: only the exchange", f.at(),
                  bad_detail="besides the exchange the genes are changed in place by: " + ", ".join(sorted({short(c, 3) for c in extra})))
    for i, p in enumerate(erp):
        ok = any(x[0] == "agg" and path_ends(x[2], "GeneAccessRange::GeneAccessRange") and peel(x[3][0], ("Clone::clone",)) == ("param", 3) and callee_is(x[3][1], "Linear::size", "Vec::len") for x in subexprs(p.ret)) and \
            not any(callee_is(c, "[T]::swap_with_slice") for c in p.calls())
        ctx.check(ok, "R10.6", "crossover_segment/out-of-range->GeneAccessRange(range,size)/%d" % i, short(p.ret, 5), f.at())
    ctx.floor("R10.6", len(erp), 1, "crossover_segment error paths")

    # ---- R10.2 panic audit -----------------------------------------------------------------
    cg = CallGraph(F)
    roots = [fn.id for fn in ctx.trait_impl_fns("ec_core::operator::recombinator::Recombinator::recombine") if fn.crate == "ec_linear"] + \
            [BS + "crossover_gene", BS + "crossover_segment"]
    ctx.floor("R10.2", len(roots), 10, "recombinator roots")
    scope = cg.reach(roots)
    discharge = [
        {"fn": "two_point_xo::TwoPointXo as", "what": "Rng::random_range", "reason": "range 0..=len is never empty", "guard": guard_range_nonempty},
        {"fn": "two_point_xo::TwoPointXo as ec_core::operator::recombinator::Recombinator<[std::vec::Vec<T>; 2]>>::recombine", "what": "IndexMut::index_mut",
         "reason": "first..second with first <= second <= len of equally long vectors", "guard": guard_vec_slices},
        {"fn": "two_point_xo::TwoPointXo as ec_core::operator::recombinator::Recombinator<[std::vec::Vec<T>; 2]>>::recombine", "what": "[T]::swap_with_slice",
         "reason": "both slices are the same range of equally long vectors", "guard": guard_vec_slices},
        {"fn": "uniform_xo::UniformXo as ec_core::operator::recombinator::Recombinator<[std::vec::Vec<T>; 2]>>::recombine::{closure#0}", "what": "Index::index",
         "reason": "pos in 0..len, both vectors have length len", "guard": guard_uniform_index},
        {"fn": "bitstring::Bitstring as ec_linear::recombinator::crossover::Crossover>::crossover_segment", "what": "[T]::swap_with_slice",
         "reason": "both operands are Some(get_mut(range)) of the same range, hence equally long", "guard": guard_segment_swap},
    ]
    audit_panics(ctx, "R10.2", scope, discharge, floor=6)


def guard_range_nonempty(ctx, s):
    fn = ctx.F.fns[s["fn"]]
    for p in ctx.paths(fn):
        for c in p.calls():
            if site_is(c, s):
                d = draw_domain(c)
                if d and d[0] == "incl" and d[1][0] == "const" and d[1][3] == 0:
                    return True, "range " + short(c[3][1], 4)
                if d and d[0] == "excl":
                    # needs a dominating non-emptiness test of the upper bound
                    for cc in p.conds:
                        e = cc[0]
                        if e[0] == "binop" and e[1] in ("Eq", "Ne", "Gt", "Lt") and (e[2] == d[2] or e[3] == d[2]):
                            other = e[3] if e[2] == d[2] else e[2]
                            if other[0] == "const" and other[3] == 0:
                                nonzero = (e[1] == "Ne" and cc[1] != 0) or (e[1] == "Eq" and cc[1] == 0) or (e[1] in ("Gt", "Lt") and cc[1] != 0)
                                if nonzero:
                                    return True, "half-open range guarded by len != 0"
                    return False, "random_range(%s) panics when the genome is empty (range may be empty; no guard)" % short(c[3][1], 4)
                return False, "unrecognised range " + short(c[3][1], 4)
    return False, "site not found on any path"


def guard_vec_slices(ctx, s):
    fn = ctx.F.fns[s["fn"]]
    for p in ctx.paths(fn):
        for c in p.calls():
            if site_is(c, s):
                if len_guard(p) != "equal":
                    return False, "not under the length equality guard"
                ranges = [x for x in subexprs(c) if x[0] == "agg" and path_ends(x[2], "Range::Range") and any(callee_is(z, "Rng::random_range") for z in subexprs(x))]
                if not ranges:
                    return False, "slice range is not first..second of the two draws"
                for r in ranges:
                    od = ordered_draw_range(p, r)
                    if od is None:
                        return False, "cut points not ordered on this path"
                    for y in od:
                        d = draw_domain(y)
                        if not d or not is_len_of(d[2], 0):
                            return False, "cut point not bounded by the genome length"
                return True, "ordered draws bounded by len, equal lengths"
    return False, "site not found"


def guard_uniform_index(ctx, s):
    fn = ctx.F.fns[s["fn"]]
    parent = ctx.F.fns.get(fn.parent)
    if not parent:
        return False, "no parent"
    for p in ctx.paths(parent):
        if p.ret is None:
            continue
        for x in subexprs(p.ret):
            if callee_is(x, "Iterator::map") and x[3][1][0] == "agg" and x[3][1][2] == fn.id:
                src = x[3][0]
                ok = match(src, Agg("Range::Range", Const(0), lambda e: is_len_of(e, 0))) and len_guard(p) == "equal"
                # index operand in the closure is its own parameter
                for q in ctx.paths(fn):
                    for c in q.calls():
                        if site_is(c, s):
                            ok = ok and c[3][1] == ("param", 2)
                return ok, "index = map parameter over 0..len under equal lengths"
    return False, "map over 0..len not found"


def guard_segment_swap(ctx, s):
    fn = ctx.F.fns[s["fn"]]
    root = fn
    while root.is_closure and root.parent in ctx.F.fns:
        root = ctx.F.fns[root.parent]
    at_site = (lambda c: site_is(c, s)) if root is fn else (lambda c: tuple(c[4][-2:]) == (s["fn"], s["block"]))
    for p in (ctx.paths(fn) if root is fn else ctx.cpaths(root)):
        for c in p.calls():
            if at_site(c):
                sides = []
                for a in c[3]:
                    a = peel(a, ())
                    if a[0] == "field" and a[3] == "Some" and callee_is(peel(a[1], ()), "[T]::get_mut"):
                        g = peel(a[1], ())
                        sides.append(peel(g[3][1], ("Clone::clone",)))
                    else:
                        return False, "operand is not the Some payload of get_mut(range): " + short(a, 4)
                return len(sides) == 2 and sides[0] == sides[1], "ranges: " + ", ".join(short(x) for x in sides)
    return False, "site not found"
