"""pushfx (A11): effect extraction and abstract interpretation for Push instructions.

For every `Instruction::perform` body the walker's paths are interpreted over a
tiny abstract domain: per stack type T the *initial* size s0_T and the initial
free room r0_T are kept as integer intervals, together with the net change made
so far.  Every fallible stack primitive forks the abstract run into its success
and failure outcome, adding the corresponding bound; outcomes whose bounds are
empty are infeasible and dropped.  No values are computed - only "how many
operands were read / removed / pushed on which stack before which outcome".

Standing assumption S1: size <= max for every stack at instruction entry (r0 >= 0).
"""
from .pat import callee_is, path_ends
from .sym import short, subexprs
from .common import peel, closure_paths

INF = 10 ** 9

CANON = {
    "i64": "i64", "bool": "bool", "ordered_float::OrderedFloat<f64>": "f64",
    "push::push_vm::program::PushProgram": "exec",
}


def canon(t, binding=None):
    if binding and t in binding:
        t = binding[t]
    return CANON.get(t, t)


class Run:
    __slots__ = ("lo", "hi", "rlo", "rhi", "delta", "fx", "vals", "labels", "mutated", "flushed", "opaque", "notes")

    def __init__(self):
        self.lo = {}
        self.hi = {}
        self.rlo = {}
        self.rhi = {}
        self.delta = {}
        self.fx = []        # ordered effects: ('read',T,k) ('pop',T,k) ('push',T,1) ('pushmany',T) ('flush',T) ('out',)
        self.vals = {}      # expr -> abstract value
        self.labels = []    # data-dependent conditions taken (e.g. top(bool)=true)
        self.mutated = False
        self.flushed = set()
        self.opaque = []
        self.notes = []

    def copy(self):
        r = Run()
        r.lo = dict(self.lo); r.hi = dict(self.hi); r.rlo = dict(self.rlo); r.rhi = dict(self.rhi)
        r.delta = dict(self.delta); r.fx = list(self.fx); r.vals = dict(self.vals); r.labels = list(self.labels)
        r.mutated = self.mutated; r.flushed = set(self.flushed); r.opaque = list(self.opaque); r.notes = list(self.notes)
        return r

    # bounds ------------------------------------------------------------
    def need_size(self, T, k):
        """current size >= k   (s0 + delta >= k)"""
        if T in self.flushed:
            return k <= 0
        d = self.delta.get(T, 0)
        self.lo[T] = max(self.lo.get(T, 0), k - d)
        return self.feasible()

    def need_size_lt(self, T, k):
        if T in self.flushed:
            return k > 0
        d = self.delta.get(T, 0)
        self.hi[T] = min(self.hi.get(T, INF), k - d - 1)
        return self.feasible()

    def need_room(self, T, k=1):
        """current free room >= k  (r0 - delta >= k)"""
        if T in self.flushed:
            self.notes.append("room after flush depends on max: treated as unknown")
            return True
        d = self.delta.get(T, 0)
        self.rlo[T] = max(self.rlo.get(T, 0), k + d)
        return self.feasible()

    def need_no_room(self, T):
        if T in self.flushed:
            return True
        d = self.delta.get(T, 0)
        self.rhi[T] = min(self.rhi.get(T, INF), d)
        return self.feasible()

    def feasible(self):
        for T in set(self.lo) | set(self.hi):
            if max(self.lo.get(T, 0), 0) > self.hi.get(T, INF):
                return False
        for T in set(self.rlo) | set(self.rhi):
            if max(self.rlo.get(T, 0), 0) > self.rhi.get(T, INF):
                return False
        return True

    def admits(self, sizes, rooms):
        for T in set(self.lo) | set(self.hi):
            s = sizes.get(T)
            if s is None:
                continue
            if s < self.lo.get(T, 0) or s > self.hi.get(T, INF):
                return False
        for T in set(self.rlo) | set(self.rhi):
            r = rooms.get(T)
            if r is None:
                continue
            if r < self.rlo.get(T, 0) or r > self.rhi.get(T, INF):
                return False
        return True

    def pop(self, T, k):
        self.fx.append(("pop", T, k))
        self.delta[T] = self.delta.get(T, 0) - k
        if k:
            self.mutated = True

    def push(self, T, k=1):
        self.fx.append(("push", T, k))
        self.delta[T] = self.delta.get(T, 0) + k
        self.mutated = True


class Outcome:
    """one feasible abstract run of an instruction, finished"""
    __slots__ = ("kind", "severity", "cause", "run", "path_end")

    def __init__(self, kind, severity, cause, run, path_end="return"):
        self.kind = kind            # 'ok' | 'err' | 'panic' | 'unknown'
        self.severity = severity    # 'recoverable' | 'fatal' | None
        self.cause = cause          # 'underflow' | 'overflow' | 'arith' | 'other' | None
        self.run = run
        self.path_end = path_end

    def effects(self):
        """net (pops, pushes, reads) per stack, output writes"""
        d = {}
        out = 0
        for e in self.run.fx:
            if e[0] == "out":
                out += 1
                continue
            if e[0] in ("input", "delegate"):
                continue
            T = e[1]
            x = d.setdefault(T, {"pops": 0, "pushes": 0, "reads": 0, "flush": False, "many": False})
            if e[0] == "pop":
                x["pops"] += e[2]
            elif e[0] == "push":
                x["pushes"] += e[2]
            elif e[0] == "read":
                x["reads"] = max(x["reads"], e[2])
            elif e[0] == "flush":
                x["flush"] = True
            elif e[0] == "pushmany":
                x["many"] = True
        return d, out

    def describe(self):
        d, out = self.effects()
        parts = []
        for T in sorted(d):
            x = d[T]
            s = "%s:" % T
            if x["reads"]:
                s += " read%d" % x["reads"]
            if x["pops"]:
                s += " pop%d" % x["pops"]
            if x["pushes"]:
                s += " push%d" % x["pushes"]
            if x["flush"]:
                s += " flush"
            if x["many"]:
                s += " push-many"
            parts.append(s)
        if out:
            parts.append("out x%d" % out)
        k = self.kind if self.kind != "err" else "%s(%s)" % (self.severity, self.cause)
        b = []
        r = self.run
        for T in sorted(set(r.lo) | set(r.hi)):
            lo, hi = max(r.lo.get(T, 0), 0), r.hi.get(T, INF)
            b.append("%s size %s" % (T, (">=%d" % lo) if hi == INF else ("=%d" % lo if lo == hi else "%d..%d" % (lo, hi))))
        for T in sorted(set(r.rlo) | set(r.rhi)):
            lo, hi = max(r.rlo.get(T, 0), 0), r.rhi.get(T, INF)
            b.append("%s room %s" % (T, (">=%d" % lo) if hi == INF else ("=%d" % lo if lo == hi else "%d..%d" % (lo, hi))))
        return "%s [%s] when {%s}%s" % (k, "; ".join(parts) or "no effect", ", ".join(b), (" " + "&".join(r.labels)) if r.labels else "")


# ---------------------------------------------------------------------------

class Fx:
    def __init__(self, ctx):
        self.ctx = ctx
        self.F = ctx.F
        self._sum = {}
        self.unclassified = []      # (fn, call) pairs the interpreter has no summary for
        self.error_sites = []       # (fn id, call, carries-own-state?, detail) for Error::fatal / Error::recoverable
        self._impl_index = None

    # -- type arguments --------------------------------------------------
    def term(self, c):
        fn = self.F.fns.get(c[4][-2])
        if fn is None:
            return {}
        return fn.blocks[c[4][-1]]["term"]

    def targ(self, c, i, binding):
        t = self.term(c).get("targs") or []
        if i < len(t):
            return canon(t[i].get("s"), binding)
        return "?"

    # -- summaries ----------------------------------------------------------
    def summary(self, fid, binding=None, depth=0, state_param=("param", 2)):
        """list of Outcome for a perform impl (generic stack names substituted by `binding`)"""
        key = (fid, tuple(sorted((binding or {}).items())), state_param)
        if key in self._sum:
            return self._sum[key]
        fn = self.F.fns.get(fid)
        outs = []
        if fn is None:
            self._sum[key] = None
            return None
        self.ctx.fns_analysed.add(fid)
        self._sum[key] = []     # recursion guard
        for p in self.ctx.paths(fn):
            if p.end == "unreachable":
                continue
            outs.extend(self.interpret_path(fn, p, binding or {}, depth, state_param=state_param))
        outs = self.fold_loops(outs)
        self._sum[key] = outs
        return outs

    def fold_loops(self, outs):
        """`while stack.pop().is_ok() {}`: the body pops one element and loops, the exit requires an empty
        stack and changes nothing  ==>  one outcome: Ok, the stack is flushed.  Any other loop shape stays
        a 'loop' outcome (reported as unclassified by the rules)."""
        loops = [o for o in outs if o.kind == "loop"]
        if not loops:
            return outs
        rest = [o for o in outs if o.kind != "loop"]
        if len(loops) == 1 and len(rest) == 1 and rest[0].kind == "ok":
            lf = [e for e in loops[0].run.fx]
            if len(lf) == 1 and lf[0][0] == "pop" and lf[0][2] == 1 and not rest[0].run.fx:
                T = lf[0][1]
                er = rest[0].run
                if er.hi.get(T, INF) == 0 and not [x for x in (set(er.lo) | set(er.hi) | set(er.rlo) | set(er.rhi)) if x != T]:
                    r = Run()
                    r.fx.append(("flush", T))
                    r.mutated = True
                    r.flushed.add(T)
                    return [Outcome("ok", None, None, r)]
        return outs

    def interpret_path(self, fn, p, binding, depth, init=None, state_param=("param", 2)):
        runs = [init.copy() if init else Run()]
        conds = {}
        for c in p.conds:
            k = c[0]
            if k[0] == "discr":
                k = ("discr", peel(k[1], ()))
            conds.setdefault(k, []).append(c[1])
        for ev in p.events:
            if ev[0] == "call":
                nxt = []
                for r in runs:
                    for r2 in self.eval_call(fn, r, ev[1], conds, binding, depth, state_param):
                        if self.consistent(r2, ev[1], conds, binding):
                            nxt.append(r2)
                runs = nxt
            elif ev[0] == "write":
                # writes through the state (none expected in instruction bodies)
                for r in runs:
                    r.opaque.append("write " + short(ev[1], 3))
            if not runs:
                return []
        outs = []
        for r in runs:
            self.add_labels(r, p, binding)
            if p.end == "diverge":
                outs.append(Outcome("panic", None, None, r, "diverge"))
                continue
            if p.end.startswith("loop:"):
                outs.append(Outcome("loop", None, None, r, p.end))
                continue
            v = self.value_of(r, p.ret, binding)
            if v and v[0] == "ires":
                if v[1] == "ok":
                    outs.append(Outcome("ok", None, None, r))
                elif v[1] == "err":
                    outs.append(Outcome("err", v[2], v[3], r))
                else:
                    outs.append(Outcome(v[1], None, None, r))
            else:
                outs.append(Outcome("unknown", None, None, r))
                r.notes.append("return value not classified: " + short(p.ret, 4))
        return outs

    def consistent(self, run, c, conds, binding):
        """does the abstract value just computed for call c agree with the branch the path took on it?"""
        v = run.vals.get(c)
        if not v or v[0] not in ("res", "ires") or v[1] not in ("ok", "err"):
            return True
        keys = [("discr", c)]
        for k in conds:
            if k[0] == "discr" and callee_is(k[1], "Try::branch") and peel(k[1][3][0], ()) == c:
                keys.append(k)
        want = 0 if v[1] == "ok" else 1
        for k in keys:
            for val in conds.get(k, []):
                if isinstance(val, tuple):
                    if want in val[1]:
                        return False
                elif val != want:
                    return False
        # which StackError variant an Err carries (top*/pop*/discard -> Underflow, push* -> Overflow)
        if v[0] == "res" and v[1] == "err" and len(v) > 2 and v[2] in ("underflow", "overflow"):
            idx = 0 if v[2] == "underflow" else 1
            for k, vals in conds.items():
                if k[0] == "discr" and k[1][0] == "field" and k[1][3] == "Err" and peel(k[1][1], ()) == c:
                    for val in vals:
                        if isinstance(val, tuple):
                            if idx in val[1]:
                                return False
                        elif val != idx:
                            return False
        return True

    def add_labels(self, run, p, binding):
        for c in p.conds:
            e = peel(c[0], ())
            if e[0] == "field" and e[3] == "Ok" and e[2] == 0:
                src = peel(e[1], ())
                v = run.vals.get(src)
                if v and v[0] == "res" and v[1] == "ok" and src[0] == "call" and callee_is(src, "Stack::top"):
                    sv = run.vals.get(peel(src[3][0], ()))
                    if sv and sv[0] == "stack" and sv[1] == "bool":
                        truth = c[1] != 0 if not isinstance(c[1], tuple) else (0 in c[1][1])
                        lab = "top(bool)=%s" % ("true" if truth else "false")
                        if lab not in run.labels:
                            run.labels.append(lab)

    # -- abstract values -----------------------------------------------------
    def value_of(self, run, e, binding):
        if e is None:
            return None
        if e in run.vals:
            return run.vals[e]
        t = e[0]
        if t in ("ref", "deref"):
            return self.value_of(run, e[1], binding)
        if t == "agg" and e[1] == "adt":
            if path_ends(e[2], "Result::Ok"):
                inner = self.value_of(run, e[3][0], binding) if e[3] else None
                if inner and inner[0] == "state":
                    return ("ires", "ok")
                return ("res", "ok")
            if path_ends(e[2], "Result::Err"):
                inner = self.value_of(run, e[3][0], binding) if e[3] else None
                if inner and inner[0] == "error":
                    return ("ires", "err", inner[1], inner[2])
                return ("res", "err", self.cause_of(run, e[3][0], binding) if e[3] else "other")
            if path_ends(e[2], "StackError::Overflow"):
                return ("cause", "overflow")
            if path_ends(e[2], "StackError::Underflow"):
                return ("cause", "underflow")
            if path_ends(e[2], "IntInstructionError::Overflow"):
                return ("cause", "arith")
        if t == "param":
            if self.is_state_ty(e):
                return ("state",)
        if t == "field":
            base = self.value_of(run, e[1], binding)
            if base and base[0] in ("res",) and e[3] == "Err" and len(base) > 2:
                return ("cause", base[2])
            if base and base[0] == "res" and e[3] == "Ok":
                return ("payload", e[1])
            if base and base[0] == "ires" and e[3] in ("Ok", "Continue"):
                return ("state",)
            if base and base[0] == "ires" and e[3] in ("Err", "Break"):
                return ("error", base[2], base[3])
            if base and base[0] == "res" and e[3] == "Continue":
                return ("payload", e[1])
            if base and base[0] == "res" and e[3] == "Break" and len(base) > 2:
                return ("reserr", base[2])
        return None

    def is_state_ty(self, e):
        return e == self._state_param

    def cause_of(self, run, e, binding):
        v = self.value_of(run, e, binding)
        if v and v[0] == "cause":
            return v[1]
        if v and v[0] == "reserr":
            return v[1]
        for x in subexprs(e):
            if x[0] == "agg" and x[1] == "adt":
                if path_ends(x[2], "StackError::Overflow"):
                    return "overflow"
                if path_ends(x[2], "StackError::Underflow"):
                    return "underflow"
                if path_ends(x[2], "IntInstructionError::Overflow"):
                    return "arith"
            vv = run.vals.get(x)
            if vv and vv[0] == "res" and vv[1] == "err":
                return vv[2]
            if vv and vv[0] == "cause":
                return vv[1]
        return "other"

    _state_param = ("param", 2)

    # -- the primitive table ----------------------------------------------------
    def eval_call(self, fn, run, c, conds, binding, depth, state_param):
        """returns the list of successor runs after evaluating call c"""
        self._state_param = state_param
        path = c[1] or ""
        args = c[3]
        val = lambda e: self.value_of(run, e, binding)

        def want(expr_variants):
            """branch values demanded by the path for this call's result: set of 'ok'/'err' or None"""
            out = None
            for k, vs in conds.items():
                if k[0] == "discr" and (k[1] == c or (callee_is(k[1], "Try::branch") and k[1][3][0] == c)):
                    for v in vs:
                        s = {"ok"} if v == 0 else {"err"} if v == 1 else ({"ok", "err"} - ({"ok"} if (isinstance(v, tuple) and 0 in v[1]) else set()) - ({"err"} if (isinstance(v, tuple) and 1 in v[1]) else set()))
                        out = s if out is None else (out & s)
            return out

        def fork_result(ok_fn, err_fn, kind="res"):
            """ok_fn/err_fn mutate a copy of the run and return False when infeasible"""
            w = want(None)
            res = []
            if w is None or "ok" in w:
                r1 = run.copy()
                if ok_fn(r1):
                    res.append(r1)
            if w is None or "err" in w:
                r2 = run.copy()
                if err_fn(r2):
                    res.append(r2)
            return res

        def set_(r, v):
            r.vals[c] = v
            return True

        # ---- accessors ---------------------------------------------------
        if callee_is(c, "HasStack::stack", "HasStack::stack_mut"):
            run.vals[c] = ("stack", self.targ(c, 1, binding))
            return [run]
        if callee_is(c, "HasStdout::stdout"):
            run.vals[c] = ("stdout",)
            return [run]
        sv = val(args[0]) if args else None
        if path.startswith("push::push_vm::stack::Stack::<T>::") and sv and sv[0] == "stack":
            T = sv[1]
            name = path.rsplit("::", 1)[-1]
            if name in ("top", "top2", "top3"):
                k = {"top": 1, "top2": 2, "top3": 3}[name]
                return fork_result(lambda r: r.need_size(T, k) and (r.fx.append(("read", T, k)) or True) and set_(r, ("res", "ok")),
                                   lambda r: r.need_size_lt(T, k) and set_(r, ("res", "err", "underflow")))
            if name in ("pop", "pop2", "pop3"):
                k = {"pop": 1, "pop2": 2, "pop3": 3}[name]
                return fork_result(lambda r: r.need_size(T, k) and (r.pop(T, k) or True) and set_(r, ("res", "ok")),
                                   lambda r: r.need_size_lt(T, k) and set_(r, ("res", "err", "underflow")))
            if name == "discard":
                n = args[1][3] if args[1][0] == "const" and isinstance(args[1][3], int) else None
                if n is None:
                    run.opaque.append("discard with non-constant count")
                    return [run]
                return fork_result(lambda r: r.need_size(T, n) and (r.pop(T, n) or True) and set_(r, ("res", "ok")),
                                   lambda r: r.need_size_lt(T, n) and set_(r, ("res", "err", "underflow")))
            if name == "push":
                return fork_result(lambda r: r.need_room(T) and (r.push(T) or True) and set_(r, ("res", "ok")),
                                   lambda r: r.need_no_room(T) and set_(r, ("res", "err", "overflow")))
            if name == "push_many":
                def okm(r):
                    r.fx.append(("pushmany", T)); r.mutated = True
                    return set_(r, ("res", "ok"))
                return fork_result(okm, lambda r: set_(r, ("res", "err", "overflow")))
            if name == "is_full":
                out = []
                vs = conds.get(c)
                for truth in (True, False):
                    if vs is not None and not all((v != 0) == truth for v in vs):
                        continue
                    r = run.copy()
                    ok = r.need_no_room(T) if truth else r.need_room(T)
                    if ok:
                        r.vals[c] = ("bool",)
                        out.append(r)
                return out
            if name == "is_empty":
                out = []
                vs = conds.get(c)
                for truth in (True, False):
                    if vs is not None and not all((v != 0) == truth for v in vs):
                        continue
                    r = run.copy()
                    ok = r.need_size_lt(T, 1) if truth else r.need_size(T, 1)
                    if ok:
                        r.vals[c] = ("bool",)
                        out.append(r)
                return out if vs is not None else [run]
            if name in ("size", "max_stack_size"):
                run.vals[c] = ("int",)
                return [run]
            run.opaque.append("stack method " + name)
            return [run]
        # ---- Result / Option plumbing ------------------------------------------
        if callee_is(c, "Result::map_err", "Result::map", "Result::cloned", "Result::copied", "Result::as_ref", "Result::as_mut", "Result::inspect", "Result::inspect_err",
                     "Result::ok", "MapInstructionError::map_err_into"):
            v = val(args[0])
            if v:
                run.vals[c] = v
            return [run]
        if callee_is(c, "Try::branch"):
            v = val(args[0])
            if v:
                run.vals[c] = v
            return [run]
        if callee_is(c, "FromResidual::from_residual"):
            v = val(args[0])
            if v and v[0] == "error":
                run.vals[c] = ("ires", "err", v[1], v[2])
            elif v and v[0] == "reserr":
                run.vals[c] = ("res", "err", v[1])
            return [run]
        if callee_is(c, "Result::or"):
            a, b = val(args[0]), val(args[1])
            if a and a[0] == "res" and a[1] == "ok":
                run.vals[c] = a
            elif b:
                run.vals[c] = b
            return [run]
        if callee_is(c, "Result::and_then"):
            v = val(args[0])
            if v and v[0] == "res" and v[1] == "err":
                run.vals[c] = v
                return [run]
            clo = args[1]
            outs = []
            cps = closure_paths(self.ctx, clo) if clo[0] == "agg" and clo[1] == "closure" else None
            if not cps:
                run.opaque.append("and_then with a non-closure")
                return [run]
            kinds = set()
            for q in cps:
                if q.end != "return":
                    continue
                for x in subexprs(q.ret):
                    if callee_is(x, "Option::ok_or", "Option::ok_or_else"):
                        kinds.add("ok")
                        kinds.add("err:" + self.cause_of(run, x[3][1], binding))
                if not any(callee_is(x, "Option::ok_or", "Option::ok_or_else") for x in subexprs(q.ret)):
                    if q.ret[0] == "agg" and path_ends(q.ret[2], "Result::Ok"):
                        kinds.add("ok")
                    elif q.ret[0] == "agg" and path_ends(q.ret[2], "Result::Err"):
                        kinds.add("err:" + self.cause_of(run, q.ret, binding))
                    else:
                        kinds.add("ok"); kinds.add("err:other")
            w = want(None)
            for k in sorted(kinds):
                if k == "ok" and (w is None or "ok" in w):
                    r = run.copy(); r.vals[c] = ("res", "ok"); outs.append(r)
                elif k.startswith("err:") and (w is None or "err" in w):
                    r = run.copy(); r.vals[c] = ("res", "err", k[4:]); outs.append(r)
            return outs
        if callee_is(c, "Option::ok_or", "Option::ok_or_else"):
            cause = self.cause_of(run, args[1], binding)
            return fork_result(lambda r: set_(r, ("res", "ok")), lambda r: set_(r, ("res", "err", cause)))
        if callee_is(c, "Result::is_ok", "Result::is_err"):
            v = val(args[0])
            if v and v[0] == "res":
                truth = (v[1] == "ok") == callee_is(c, "Result::is_ok")
                vs = conds.get(c)
                if vs is not None and not all((x != 0) == truth for x in vs):
                    return []
            return [run]
        # ---- state-level primitives ----------------------------------------------
        if callee_is(c, "Error::fatal", "Error::recoverable"):
            sev = "fatal" if callee_is(c, "Error::fatal") else "recoverable"
            st = val(args[0])
            self.error_sites.append((fn.id, c, bool(st and st[0] == "state"), short(args[0], 4)))
            if not (st and st[0] == "state"):
                run.opaque.append("%s built with a state that is not the instruction's own: %s" % (sev, short(args[0], 4)))
            run.vals[c] = ("error", sev, self.cause_of(run, args[1], binding))
            return [run]
        if callee_is(c, "PushOnto::push_onto", "PushOnto::replace_on"):
            T = self.targ(c, 1, binding)
            v = val(args[0])
            rep = callee_is(c, "PushOnto::replace_on")
            n = None
            if rep:
                n = args[1][3] if args[1][0] == "const" and isinstance(args[1][3], int) else None
                if n is None:
                    run.opaque.append("replace_on with non-constant count")
                    return [run]
            outs = []
            if not v or v[0] != "res":
                run.opaque.append("push_onto on an unclassified value " + short(args[0], 3))
                return [run]
            if v[1] == "err":
                run.vals[c] = ("ires", "err", "recoverable", v[2])
                return [run]
            w = want(None)
            if rep:
                # discard n (fatal underflow) then push (fatal overflow)
                r0 = run.copy()
                if r0.need_size_lt(T, n) and (w is None or "err" in w):
                    r0.vals[c] = ("ires", "err", "fatal", "underflow"); outs.append(r0)
                r1 = run.copy()
                if r1.need_size(T, n):
                    r1.pop(T, n)
                    r2 = r1.copy()
                    if r2.need_room(T) and (w is None or "ok" in w):
                        r2.push(T); r2.vals[c] = ("ires", "ok"); outs.append(r2)
                    r3 = r1.copy()
                    if r3.need_no_room(T) and (w is None or "err" in w):
                        r3.vals[c] = ("ires", "err", "fatal", "overflow"); outs.append(r3)
                return outs
            r2 = run.copy()
            if r2.need_room(T) and (w is None or "ok" in w):
                r2.push(T); r2.vals[c] = ("ires", "ok"); outs.append(r2)
            r3 = run.copy()
            if r3.need_no_room(T) and (w is None or "err" in w):
                r3.vals[c] = ("ires", "err", "fatal", "overflow"); outs.append(r3)
            return outs
        if callee_is(c, "StackDiscard::with_stack_discard", "StackPush::with_stack_push"):
            T = self.targ(c, 3, binding)
            v = val(args[0])
            if not v or v[0] != "ires":
                run.opaque.append("with_stack_* on an unclassified value " + short(args[0], 3))
                return [run]
            if v[1] == "err":
                run.vals[c] = v
                return [run]
            w = want(None)
            outs = []
            if callee_is(c, "StackDiscard::with_stack_discard"):
                n = args[1][3] if args[1][0] == "const" and isinstance(args[1][3], int) else None
                if n is None:
                    run.opaque.append("with_stack_discard with non-constant count")
                    return [run]
                r1 = run.copy()
                if r1.need_size(T, n) and (w is None or "ok" in w):
                    r1.pop(T, n); r1.vals[c] = ("ires", "ok"); outs.append(r1)
                r2 = run.copy()
                if r2.need_size_lt(T, n) and (w is None or "err" in w):
                    r2.vals[c] = ("ires", "err", "fatal", "underflow"); outs.append(r2)
            else:
                r1 = run.copy()
                if r1.need_room(T) and (w is None or "ok" in w):
                    r1.push(T); r1.vals[c] = ("ires", "ok"); outs.append(r1)
                r2 = run.copy()
                if r2.need_no_room(T) and (w is None or "err" in w):
                    r2.vals[c] = ("ires", "err", "fatal", "overflow"); outs.append(r2)
            return outs
        if callee_is(c, "HasStack::with_push", "HasStack::with_replace", "HasStack::not_full"):
            T = self.targ(c, 1, binding)
            st = val(args[0])
            if not (st and st[0] == "state"):
                run.opaque.append("state primitive on something that is not the state: " + short(args[0], 3))
            w = want(None)
            outs = []
            if callee_is(c, "HasStack::not_full"):
                r1 = run.copy()
                if r1.need_room(T) and (w is None or "ok" in w):
                    r1.vals[c] = ("ires", "ok"); outs.append(r1)
                r2 = run.copy()
                if r2.need_no_room(T) and (w is None or "err" in w):
                    r2.vals[c] = ("ires", "err", "fatal", "overflow"); outs.append(r2)
                return outs
            if callee_is(c, "HasStack::with_push"):
                r1 = run.copy()
                if r1.need_room(T) and (w is None or "ok" in w):
                    r1.push(T); r1.vals[c] = ("ires", "ok"); outs.append(r1)
                r2 = run.copy()
                if r2.need_no_room(T) and (w is None or "err" in w):
                    r2.vals[c] = ("ires", "err", "fatal", "overflow"); outs.append(r2)
                return outs
            n = args[1][3] if args[1][0] == "const" and isinstance(args[1][3], int) else None
            if n is None:
                run.opaque.append("with_replace with non-constant count")
                return [run]
            r0 = run.copy()
            if r0.need_size_lt(T, n) and (w is None or "err" in w):
                r0.vals[c] = ("ires", "err", "fatal", "underflow"); outs.append(r0)
            r1 = run.copy()
            if r1.need_size(T, n):
                r1.pop(T, n)
                r2 = r1.copy()
                if r2.need_room(T) and (w is None or "ok" in w):
                    r2.push(T); r2.vals[c] = ("ires", "ok"); outs.append(r2)
                r3 = r1.copy()
                if r3.need_no_room(T) and (w is None or "err" in w):
                    r3.vals[c] = ("ires", "err", "fatal", "overflow"); outs.append(r3)
            return outs
        if callee_is(c, "Write::write_fmt"):
            sv0 = val(args[0])
            run.fx.append(("out",))
            run.mutated = True
            run.vals[c] = ("io",)
            return [run]
        if callee_is(c, "Instruction::perform", "State::perform"):
            return self.inline_perform(fn, run, c, binding, depth)
        if callee_is(c, "PushState::with_input"):
            run.vals[c] = ("ires", "input")
            run.fx.append(("input",))
            return [run]
        # ---- workspace helper taking the state by value (e.g. FloatInstruction::binary_predicate) ----
        if path in self.F.fns and path.startswith("push::") and not self.F.fns[path].trait_item:
            pos = [i for i, a in enumerate(args) if (val(a) or ("",))[0] == "state"]
            if len(pos) == 1 and depth <= 6:
                sub = self.summary(path, binding, depth + 1, state_param=("param", pos[0] + 1))
                self._state_param = state_param
                if sub is not None:
                    return self.compose(run, c, sub)
        # ---- calls that cannot touch the state ---------------------------------------------
        touches = any(self._mentions_state(a, run, binding) for a in args)
        if touches and not callee_is(c, "Clone::clone", "Deref::deref", "fmt::Arguments::new", "Argument::new_display", "Argument::new_debug", "Result::unwrap", "Option::unwrap",
                                       "Iterator::cloned", "Option::cloned", "Option::copied", "TryInto::try_into", "Result::unwrap_or", "[T]::iter", "Iterator::next", "IntoIterator::into_iter"):
            self.unclassified.append((fn.id, c))
            run.opaque.append("unclassified call on the state: " + short(c, 3))
        return [run]

    def _mentions_state(self, e, run, binding):
        for x in subexprs(e):
            if x == self._state_param:
                return True
            v = run.vals.get(x)
            if v and v[0] in ("stack", "state", "stdout"):
                return True
        return False

    # -- delegation to another instruction ----------------------------------------------------
    def inline_perform(self, fn, run, c, binding, depth):
        term = self.term(c)
        res = (term.get("res") or {}).get("def")
        targs = term.get("targs") or []
        if depth > 6:
            run.opaque.append("delegation too deep")
            return [run]
        callee = None
        if res and res in self.F.fns:
            callee = res
        nb = {}
        if callee is None:
            # resolve through the receiver type: find the impl of Instruction for the ADT
            st = targs[0] if targs else None
            while st and st.get("k") in ("ref", "refmut"):
                st = st.get("of")
            if st and st.get("k") == "adt":
                for f in self.F.trait_method_impls("push::instruction::Instruction::perform"):
                    im = self.F.impl_of_fn(f)
                    if im and im["self"].get("path") == st["path"]:
                        callee = f.id
        if callee is None:
            run.vals[c] = ("ires", "opaque")
            run.fx.append(("delegate", short(c, 2)))
            run.notes.append("delegation to a user-supplied instruction: " + short(c, 2))
            return [run]
        # generic binding: impl self type args vs call-site self type args
        cf = self.F.fns[callee]
        im = self.F.impl_of_fn(cf)
        st = targs[0] if targs else None
        while st and st.get("k") in ("ref", "refmut"):
            st = st.get("of")
        if im and st and st.get("k") == "adt":
            for pa, ca in zip(im["self"].get("args") or [], st.get("args") or []):
                if pa.get("k") == "param":
                    nb[pa["name"]] = canon(ca.get("s"), binding)
        sub = self.summary(callee, nb, depth + 1)
        self._state_param = ("param", 2)
        if sub is None:
            run.opaque.append("no body for " + callee)
            return [run]
        return self.compose(run, c, sub)

    def compose(self, run, c, sub):
        outs = []
        for o in sub:
            r = run.copy()
            ok = True
            sr = o.run
            # compose bounds: callee's initial size = caller's current size
            for T in set(sr.lo) | set(sr.hi):
                if T in sr.lo:
                    ok = ok and r.need_size(T, sr.lo[T])
                if T in sr.hi and sr.hi[T] < INF:
                    ok = ok and r.need_size_lt(T, sr.hi[T] + 1)
            for T in set(sr.rlo) | set(sr.rhi):
                if T in sr.rlo and sr.rlo[T] > 0:
                    ok = ok and r.need_room(T, sr.rlo[T])
                if T in sr.rhi and sr.rhi[T] < INF:
                    d = r.delta.get(T, 0)
                    r.rhi[T] = min(r.rhi.get(T, INF), sr.rhi[T] + d)
                    ok = ok and r.feasible()
            if not ok:
                continue
            for e in sr.fx:
                if e[0] == "pop":
                    r.pop(e[1], e[2])
                elif e[0] == "push":
                    r.push(e[1], e[2])
                else:
                    r.fx.append(e)
                    if e[0] in ("out", "flush", "pushmany"):
                        r.mutated = True
                    if e[0] == "flush":
                        r.flushed.add(e[1])
            r.labels.extend(sr.labels)
            r.opaque.extend(sr.opaque)
            r.notes.extend(sr.notes)
            if o.kind == "ok":
                r.vals[c] = ("ires", "ok")
            elif o.kind == "err":
                r.vals[c] = ("ires", "err", o.severity, o.cause)
            elif o.kind == "panic":
                r.vals[c] = ("ires", "panic")
            else:
                r.vals[c] = ("ires", o.kind)
            outs.append(r)
        return outs
