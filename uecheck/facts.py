"""Fact loader: the type-checked program of the unhindered-ec workspace as
emitted by the uecfacts driver (MIR at opt-level 0, impl headers, ADTs).

Everything here is a plain data view over JSON; analyses live in cfg.py /
sym.py; rules in rules_*.py.
"""
import json
import os
import re

CRATES = ("ec_core", "ec_linear", "push")
_CRATE_RX = re.compile(r"(?<![A-Za-z0-9_])crate::")


class FactsError(Exception):
    pass


INLINE_MAX_PATHS = 12
INLINE_MAX_DEPTH = 3
INLINE_MAX_DEPTH_ALL = 9      # summary mode: expand small helpers down to what cannot be inlined, whatever the nesting


class Fn:
    __slots__ = ("j", "id", "kind", "crate", "blocks", "locals", "argc", "parent",
                 "root", "trait_item", "assoc_name", "span", "sig", "pub", "debug",
                 "captures", "_succ", "_pred", "preds", "parent_kind", "takes_self")

    def __init__(self, j, crate):
        self.j = j
        self.id = j["id"]
        self.kind = j["kind"]
        self.crate = crate
        self.blocks = j["blocks"]
        self.locals = j["locals"]
        self.argc = j["argc"]
        self.parent = j.get("parent")
        self.parent_kind = j.get("parent_kind")
        self.root = j.get("root")
        self.trait_item = j.get("trait_item")
        self.assoc_name = j.get("assoc_name")
        self.span = j["span"]
        self.sig = j.get("sig")
        self.pub = j.get("pub")
        self.debug = j.get("debug", [])
        self.captures = j.get("captures", [])
        self.preds = j.get("preds", [])
        self.takes_self = j.get("takes_self")
        self._succ = None
        self._pred = None

    @property
    def is_closure(self):
        return self.kind == "Closure"

    def at(self):
        return self.span["at"]

    def local_ty(self, l):
        return self.locals[l]["ty"]

    def local_name(self, l):
        for d in self.debug:
            p = d["place"]
            if p["l"] == l and not p["p"]:
                return d["name"]
        return None

    # --- CFG (normal edges only: unwind/cleanup edges are ignored) ---
    def succ(self, b):
        if self._succ is None:
            self._build_cfg()
        return self._succ[b]

    def pred(self, b):
        if self._pred is None:
            self._build_cfg()
        return self._pred[b]

    def _build_cfg(self):
        n = len(self.blocks)
        succ = [[] for _ in range(n)]
        pred = [[] for _ in range(n)]
        for i, b in enumerate(self.blocks):
            for t in term_targets(b["term"]):
                if t not in succ[i]:
                    succ[i].append(t)
                    pred[t].append(i)
        self._succ = succ
        self._pred = pred

    def calls(self):
        """Yield (block_index, term) for every Call terminator in non-cleanup blocks."""
        for i, b in enumerate(self.blocks):
            if b.get("cleanup"):
                continue
            t = b["term"]
            if t["k"] == "call":
                yield i, t


def term_targets(t):
    k = t["k"]
    if k == "goto":
        return [t["target"]]
    if k == "switch":
        out = []
        for _, tgt in t["arms"]:
            out.append(tgt)
        out.append(t["otherwise"])
        return out
    if k in ("drop", "assert"):
        return [t["target"]]
    if k == "call":
        return [t["target"]] if t["target"] is not None else []
    return []


class Facts:
    def __init__(self, facts_dir, nonce=None, reference=True):
        self.dir = facts_dir
        self.reference_report = {"available": False}
        self.crates = {}
        self.fns = {}
        self.adts = {}
        self.impls = []
        self.traits = {}
        self.statics = []
        self.unsafe = []
        self.opts = {}
        self._inline_cache = {}
        kp = os.path.join(os.path.dirname(os.path.abspath(__file__)), "known_fns.json")
        try:
            with open(kp) as f:
                self.known_fn_ids = set(json.load(f))
        except OSError:
            self.known_fn_ids = None
        for c in CRATES:
            p = os.path.join(facts_dir, c + ".json")
            if not os.path.exists(p):
                raise FactsError("fact file missing: " + p)
            with open(p) as f:
                txt = f.read()
            txt = _CRATE_RX.sub(c + "::", txt)
            j = json.loads(txt)
            if nonce is not None and j.get("nonce") != nonce:
                raise FactsError("stale fact file (nonce mismatch): " + p)
            self.crates[c] = j
            self.opts[c] = j.get("opts", {})
            for fj in j["fns"]:
                fn = Fn(fj, c)
                self.fns[fn.id] = fn
            for a in j["adts"]:
                a["crate"] = c
                self.adts[a["path"]] = a
            for im in j["impls"]:
                im["crate"] = c
                self.impls.append(im)
            for t in j["traits"]:
                t["crate"] = c
                self.traits[t["path"]] = t
            for s in j["statics"]:
                s["crate"] = c
                self.statics.append(s)
            for u in j["unsafe"]:
                u["crate"] = c
                self.unsafe.append(u)
        # optional extra crates (harness)
        for fn_ in os.listdir(facts_dir):
            if fn_.endswith(".json") and fn_[:-5] not in CRATES:
                with open(os.path.join(facts_dir, fn_)) as f:
                    try:
                        txt = f.read()
                        txt = _CRATE_RX.sub(fn_[:-5] + "::", txt)
                        j = json.loads(txt)
                    except Exception:
                        continue
                if "fns" not in j:
                    continue
                c = j["crate"]
                if nonce is not None and j.get("nonce") != nonce:
                    continue
                self.crates[c] = j
                for fj in j["fns"]:
                    fn = Fn(fj, c)
                    self.fns[fn.id] = fn
                for a in j["adts"]:
                    a["crate"] = c
                    self.adts[a["path"]] = a
                for im in j["impls"]:
                    im["crate"] = c
                    self.impls.append(im)
        self._children = None
        self._impl_by_id = {im["id"]: im for im in self.impls}
        if reference and os.environ.get("UEC_NO_REFERENCE") != "1":
            from . import canonsum
            canonsum.apply_reference(self)

    # ------------------------------------------------------------------
    def fn(self, fid):
        f = self.fns.get(fid)
        if f is None:
            raise KeyError(fid)
        return f

    def is_new_fn(self, fid):
        """a workspace function that did not exist when the rules were written (uecheck/known_fns.json): the rules
        cannot name it, so the path walker sees through calls to it instead (helper extraction is not a violation,
        and a defect moved into a fresh helper is still judged by the caller's rule)"""
        if self.known_fn_ids is None:
            return False
        fn = self.fns.get(fid)
        return fn is not None and not fn.is_closure and fid not in self.known_fn_ids

    def inline_paths(self, fid, depth, canon=False, inline_all=False):
        """walker paths of a new, loop-free, small function that writes through none of its parameters; else None"""
        if depth >= (INLINE_MAX_DEPTH_ALL if inline_all else INLINE_MAX_DEPTH):
            return None
        key = (fid, canon, inline_all)
        if key in self._inline_cache:
            return self._inline_cache[key]
        self._inline_cache[key] = None         # recursion guard
        from . import sym
        fn = self.fns[fid]
        try:
            w = sym.Walker(fn, self, depth=depth + 1, canon=canon)
            w.inline_all = inline_all
            ps = w.run()
        except sym.PathLimit:
            return None
        ok = 0 < len(ps) <= INLINE_MAX_PATHS and all(p.end in ("return", "diverge", "unreachable") for p in ps)
        if ok:
            # a helper that assigns through a `&mut` parameter (a private setter) is seen through like any other: its write
            # events are re-rooted at the caller's argument.  A write into a by-value parameter (a local copy) is not.
            for p in ps:
                for e in p.events:
                    if e[0] == "setdiscr":
                        ok = False
                    if e[0] == "write":
                        root = e[1]
                        through_ref = False
                        while isinstance(root, tuple) and root[0] in ("field", "deref", "index", "ref"):
                            through_ref = through_ref or root[0] == "deref"
                            root = root[1]
                        lty = fn.locals[root[1]]["ty"].get("s", "") if (isinstance(root, tuple) and root[0] == "param" and isinstance(root[1], int) and root[1] < len(fn.locals)) else ""
                        if not (through_ref and lty.startswith("&mut")):
                            ok = False
        res = ps if ok else None
        self._inline_cache[key] = res
        return res

    def find_fns(self, pattern):
        rx = re.compile(pattern)
        return [f for f in self.fns.values() if rx.search(f.id)]

    def closures_of(self, fid):
        """Direct and nested closures of a function (its 'family' minus itself)."""
        if self._children is None:
            ch = {}
            for f in self.fns.values():
                if f.is_closure and f.parent:
                    ch.setdefault(f.parent, []).append(f.id)
            self._children = ch
        out = []
        stack = [fid]
        while stack:
            x = stack.pop()
            for c in sorted(self._children.get(x, [])):
                out.append(c)
                stack.append(c)
        return out

    def family(self, fid):
        return [fid] + self.closures_of(fid)

    def impl_of_fn(self, fn):
        if fn.parent_kind and fn.parent_kind.startswith("Impl"):
            return self._impl_by_id.get(fn.parent)
        return None

    def impls_of_trait(self, trait_path):
        return [im for im in self.impls if im.get("trait") == trait_path]

    def trait_method_impls(self, trait_item_path):
        """All workspace fns implementing the given trait item (by def path)."""
        return [f for f in self.fns.values() if f.trait_item == trait_item_path]


# ---------------------------------------------------------------------------
# pretty printer (for humans: diagnostics, replay files, development)

def fmt_place(p):
    s = "_%d" % p["l"]
    for e in p["p"]:
        if e == "deref":
            s = "(*%s)" % s
        elif isinstance(e, dict):
            if "f" in e:
                nm = e.get("name")
                s = "%s.%s" % (s, nm if nm is not None else e["f"])
            elif "dc" in e:
                s = "(%s as %s)" % (s, e.get("name"))
            elif "idx" in e:
                s = "%s[_%d]" % (s, e["idx"])
            elif "cidx" in e:
                s = "%s[%s%d]" % (s, "-" if e["from_end"] else "", e["cidx"])
            elif "sub" in e:
                s = "%s[%d..%s%d]" % (s, e["sub"], "-" if e["from_end"] else "", e["to"])
        else:
            s = "%s.<%s>" % (s, e)
    return s


def fmt_op(o):
    k = o["k"]
    if k in ("copy", "move"):
        return ("" if k == "copy" else "move ") + fmt_place(o["place"])
    if k == "const":
        if "fn" in o:
            return "fn " + o["full"]
        return o["s"]
    return "?"


def fmt_rv(rv):
    k = rv["k"]
    if k == "use":
        return fmt_op(rv["a"])
    if k == "ref":
        return ("&mut " if rv["mut"] else "&") + fmt_place(rv["place"])
    if k == "binop":
        return "%s(%s, %s)" % (rv["op"], fmt_op(rv["a"]), fmt_op(rv["b"]))
    if k == "unop":
        return "%s(%s)" % (rv["op"], fmt_op(rv["a"]))
    if k == "cast":
        return "%s as %s [%s]" % (fmt_op(rv["a"]), rv["ty"]["s"], rv["kind"])
    if k == "discr":
        return "discriminant(%s)" % fmt_place(rv["place"])
    if k == "agg":
        nm = rv.get("agg")
        if nm == "adt":
            nm = rv["adt"] + "::" + rv["variant"]
        elif nm == "closure":
            nm = "closure " + rv["closure"]
        return "%s{%s}" % (nm, ", ".join(fmt_op(x) for x in rv["ops"]))
    if k == "copy_for_deref":
        return "deref_copy " + fmt_place(rv["place"])
    if k == "rawptr":
        return "&raw " + fmt_place(rv["place"])
    if k == "repeat":
        return "[%s; %s]" % (fmt_op(rv["a"]), rv["n"])
    return rv.get("s", k)


def fmt_fn(fn):
    out = ["fn %s  [%s]  %s" % (fn.id, fn.kind, fn.at())]
    for i, l in enumerate(fn.locals):
        nm = fn.local_name(i)
        out.append("    let _%d: %s%s" % (i, l["ty"]["s"], ("  // " + nm) if nm else ""))
    for bi, b in enumerate(fn.blocks):
        out.append("  bb%d%s:" % (bi, " (cleanup)" if b.get("cleanup") else ""))
        for st in b["stmts"]:
            if st["k"] == "assign":
                out.append("    %s = %s" % (fmt_place(st["lhs"]), fmt_rv(st["rv"])))
            elif st["k"] == "setdiscr":
                out.append("    discriminant(%s) = %d" % (fmt_place(st["lhs"]), st["vidx"]))
            else:
                out.append("    " + st.get("s", st["k"]))
        t = b["term"]
        k = t["k"]
        if k == "call":
            fnname = t.get("full") or ("<indirect %s>" % t.get("fnty"))
            res = t.get("res")
            out.append("    %s = %s(%s) -> %s   %s%s" % (
                fmt_place(t["dest"]), fnname, ", ".join(fmt_op(a) for a in t["args"]),
                ("bb%d" % t["target"]) if t["target"] is not None else "!",
                t["span"]["at"].split("/")[-1],
                ("  => " + res["def"]) if res else ""))
        elif k == "switch":
            out.append("    switch %s [%s, otherwise: bb%d]" % (
                fmt_op(t["discr"]), ", ".join("%d: bb%d" % (v, tg) for v, tg in t["arms"]), t["otherwise"]))
        elif k == "goto":
            out.append("    goto bb%d" % t["target"])
        elif k == "drop":
            out.append("    drop(%s) -> bb%d" % (fmt_place(t["place"]), t["target"]))
        elif k == "assert":
            out.append("    assert(%s == %s, %s) -> bb%d" % (fmt_op(t["cond"]), t["expected"], t["msg"], t["target"]))
        else:
            out.append("    " + k)
    return "\n".join(out)
