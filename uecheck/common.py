"""Helpers shared by rule modules."""
from .pat import ANY, Bind, Call, Field, Param, Through, match, find, callee_is, path_ends
from .sym import subexprs, short, strip_refs, last_seg
from .graph import CallGraph, panic_sites, fn_uses

CONV = ("Into::into", "From::from")


def TryOk(p=ANY):
    """payload of `expr?` on the success edge - or of the equivalent `match expr { Ok(v) => v, .. }` / `Some(v)`"""
    from .pat import Or
    return Or(Field(Call("Try::branch", p, nargs=1), 0, "Continue"), Field(p, 0, "Ok"), Field(p, 0, "Some"))


def TryErr(p=ANY):
    from .pat import Or
    return Or(Field(Call("Try::branch", p, nargs=1), 0, "Break"), Field(p, 0, "Err"))


def propagates_error_of(ret, x):
    """ret returns the error of Result-valued expression x: `x?`'s residual, or Err(.. x's Err payload ..)"""
    if callee_is(ret, "FromResidual::from_residual"):
        return match(ret[3][0], TryErr(lambda e: e == x))
    if ret[0] == "agg" and path_ends(ret[2], "Result::Err"):
        return any(y == ("field", x, 0, "Err") for y in subexprs(ret))
    return False


def is_err_return(p):
    r = p.ret
    if r is None:
        return False
    if r[0] == "agg" and path_ends(r[2], "Result::Err"):
        return True
    if callee_is(r, "FromResidual::from_residual"):
        return True
    return False


def is_ok_literal(p):
    r = p.ret
    return r is not None and r[0] == "agg" and path_ends(r[2], "Result::Ok")


def return_paths(paths):
    return [p for p in paths if p.end == "return"]


def ctor_names(e):
    """ADT constructors (aggregates and tuple-variant fn items) occurring in e"""
    out = set()
    for x in subexprs(e):
        if x[0] == "agg" and x[1] == "adt":
            out.add(x[2])
        elif x[0] == "fnitem":
            out.add(x[1])
    return out


def peel(e, calls=(), casts=True):
    """Skip refs/derefs/(casts) and listed value-preserving calls (first argument)."""
    while True:
        if e[0] in ("ref", "deref"):
            e = e[1]
        elif casts and e[0] == "cast":
            e = e[2]
        elif e[0] == "call" and e[3] and any(path_ends(e[1], n) for n in calls):
            e = e[3][0]
        else:
            return e


def self_field(e, name, self_param=1, through=CONV + ("Deref::deref", "Clone::clone", "NonZero::get")):
    e = peel(e, through)
    return e[0] == "field" and e[2] == name and peel(e[1], through) == ("param", self_param)


def mentions(e, target):
    for x in subexprs(e):
        if x == target:
            return True
    return False


def cond_str(p):
    return "; ".join("%s == %s" % (short(c[0], 6), c[1]) for c in p.conds)


def call_order_ok(p, first, second):
    """both call expressions occur on path p and `first` is evaluated before `second`"""
    cs = p.calls()
    try:
        return cs.index(first) < cs.index(second)
    except ValueError:
        return False


def lift_new_fn_sites(ctx, sites, scope, depth=0):
    """A may-panic site inside a function the rule base does not know (a freshly extracted helper) is judged where the
    helper is called: one virtual site per call of the helper from a known function in scope (fn/block = the caller's
    call site; the guards then look at the caller's paths, which see through the helper).  A helper nobody in scope
    calls keeps its own sites (reported as unlisted)."""
    F = ctx.F
    from .graph import fn_uses
    out = []
    callers = None
    for s in sites:
        g = F.fns.get(s["fn"])
        root = g
        while root is not None and root.is_closure and root.parent in F.fns:
            root = F.fns[root.parent]
        if g is None or root is None or not F.is_new_fn(root.id) or g is not root or depth > 2:
            out.append(s)
            continue
        if callers is None:
            callers = {}
            for fid in sorted(scope):
                fn = F.fns.get(fid)
                if fn is None:
                    continue
                for kind, path, full, rdef, rlocal, bi, span, t in fn_uses(fn):
                    for tgt in (rdef, path):
                        if tgt and F.is_new_fn(tgt):
                            callers.setdefault(tgt, []).append((fid, bi, kind))
                            break
        cs = [c for c in callers.get(g.id, []) if c[0] != g.id]
        if not cs or any(k != "call" for _, _, k in cs):
            out.append(s)
            continue
        lifted = []
        for fid, bi, _ in cs:
            v = dict(s)
            v["fn"], v["block"], v["via"] = fid, bi, s.get("via", []) + [g.id]
            v.setdefault("orig", (g.id, s["block"]))
            v["key"] = "%s#%s:%s#%d(in %s, called at bb%d)" % (fid, s["kind"], s["what"], s["ordinal"], g.id.split("::")[-1], bi)
            lifted.append(v)
        out.extend(lift_new_fn_sites(ctx, lifted, scope, depth + 1))
    return out


def site_is(c, s):
    """is the call expression c (from a walker path of s["fn"]) the call of may-panic site s?"""
    if c[4][:2] != (s["fn"], s["block"]):
        return False
    if "orig" in s:
        return tuple(c[4][-2:]) == tuple(s["orig"])
    return len(c[4]) == 2


def audit_panics(ctx, rule, scope, discharge, floor=None):
    """A8: every may-panic site in `scope` must match one discharge entry whose guard verifies.
    discharge: list of dicts {fn: substring of fn id, what: callee/assert kind (optional),
    reason: str, guard: callable(ctx, site)->(ok, detail) or None}"""
    sites = lift_new_fn_sites(ctx, panic_sites(ctx.F, scope), scope)
    used = [0] * len(discharge)
    for s in sites:
        hit = None
        for i, d in enumerate(discharge):
            if d["fn"] in s["fn"] and (d.get("what") is None or d["what"] == s["what"]) and \
                    (d.get("exact") is None or s["fn"] == d["exact"]):
                hit = i
                break
        key = "panic-site/" + s["key"]
        if hit is None:
            ctx.bad(rule, key, "unlisted may-panic site: %s %s in %s (no discharge entry: a new panic path in the property's scope)" % (
                s["kind"], s["what"], s["fn"]), s["at"])
            continue
        used[hit] += 1
        d = discharge[hit]
        g = d.get("guard")
        if g is None:
            ctx.ok(rule, key, "discharged: " + d["reason"], s["at"])
        else:
            ok, detail = g(ctx, s)
            ctx.check(ok, rule, key, "discharged: %s [%s]" % (d["reason"], detail), s["at"],
                      bad_detail="discharge guard no longer verifies for %s %s in %s: %s (%s)" % (
                          s["kind"], s["what"], s["fn"], d["reason"], detail))
    ctx.extra.setdefault("panic_sites_in_scope", {})[rule] = len(sites)
    ctx.extra.setdefault("panic_scope_functions", {})[rule] = len(scope)
    if floor is not None:
        # arithmetic-overflow asserts exist only with overflow checks on (dev profile): not counted for the positive control
        stable = [s for s in sites if not (s["kind"] == "assert" and s["what"].startswith("Overflow:") and s["what"] not in ("Overflow:Rem", "Overflow:Div"))]
        ctx.floor(rule, len(stable), floor, "may-panic sites in scope, profile-independent ones (positive control)")
    return sites


def ty_mentions(tyj, names):
    """does a structural type JSON mention an ADT whose path ends with one of names?"""
    if not isinstance(tyj, dict):
        return False
    if tyj.get("k") == "adt" and any(path_ends(tyj["path"], n) for n in names):
        return True
    for a in tyj.get("args", []) or []:
        if ty_mentions(a, names):
            return True
    if "of" in tyj and ty_mentions(tyj["of"], names):
        return True
    s = tyj.get("s", "")
    if "k" not in tyj:
        return any(n in s for n in names)
    return False


SELF_THROUGH = ("Deref::deref", "DerefMut::deref_mut", "AsRef::as_ref", "Borrow::borrow")


def derives_from_self(e, self_param=1, field=None):
    """e is the receiver parameter seen through refs/derefs/Deref::deref (and optionally one named field)"""
    e = peel_box(e)
    if field is not None:
        if e[0] != "field" or e[2] != field:
            return False
        e = peel_box(e[1])
    return e == ("param", self_param)


def peel_box(e):
    """refs, derefs, Deref::deref and the built-in Box deref (`*(b.0.pointer as *const T)`)"""
    while True:
        e2 = peel(e, SELF_THROUGH, casts=False)
        if e2[0] == "cast" and e2[3].startswith("*const") and e2[2][0] == "field" and e2[2][2] == "pointer":
            x = e2[2][1]
            # Box<T>(Unique<T>{pointer: NonNull<T>{pointer}}, A): strip the Box's own `.0` only
            if x[0] == "field" and x[2] == "pointer" and x[3] is None:
                x = x[1]
            if x[0] == "field" and x[2] == 0 and x[3] is None:
                x = x[1]
            e2 = x
        if e2[0] == "cast" and isinstance(e2[3], str) and e2[3].lstrip("(").startswith(("&dyn ", "&mut dyn ", "&'_ dyn ", "&'_ mut dyn ")):
            e2 = e2[2]          # unsizing / auto-trait-dropping coercion of a reference to a trait object: the same object
        if e2 is e:
            return e
        e = e2


def rng_passthrough(e, rng_param):
    """the function's own rng parameter, possibly reborrowed / unsized to &mut dyn RngCore"""
    x = e
    for _ in range(8):
        if x == ("param", rng_param):
            return True
        if x[0] == "cast" and "Unsize" in x[1]:
            x = x[2]
        elif x[0] in ("ref", "deref"):
            x = x[1]
        else:
            return False
    return False


def check_forwarder(ctx, rule, key, fn, callee, arg_checks, wrappers=("Result::map_err",), allowed_extra=SELF_THROUGH):
    """A6: every non-diverging path of fn returns `callee(args...)` (optionally through the listed
    wrappers applied to the result), the args satisfy arg_checks (list of predicates over
    expressions), the callee is called exactly once and nothing else is called except
    allowed_extra.  Returns the matched call expression (or None)."""
    paths = [p for p in ctx.paths(fn) if p.end != "unreachable"]
    if not paths:
        ctx.bad(rule, key, "no paths", fn.at())
        return None
    found = None
    for p in paths:
        if p.end != "return":
            ctx.bad(rule, key, "path ends in %s (expected a plain forwarder)" % p.end, fn.at())
            return None
        r = p.ret
        wr = []
        while r[0] == "call" and any(path_ends(r[1], w) for w in wrappers) and r[3]:
            wr.append(r)
            r = r[3][0]
        names = (callee,) if isinstance(callee, str) else tuple(callee)
        if not (r[0] == "call" and any(path_ends(r[1], n) for n in names)):
            ctx.bad(rule, key, "returns %s, expected a call to %s" % (short(p.ret, 6), "/".join(names)), fn.at())
            return None
        calls = p.calls()
        target_calls = [c for c in calls if any(path_ends(c[1], n) for n in names)]
        if len(target_calls) != 1:
            ctx.bad(rule, key, "%s is called %d times on one path (expected once)" % ("/".join(names), len(target_calls)), fn.at())
            return None
        others = [c for c in calls if c is not r and c not in wr and not any(path_ends(c[1], n) for n in allowed_extra)]
        if others:
            ctx.bad(rule, key, "extra calls besides the forwarded one: " + ", ".join(short(c, 3) for c in others), fn.at())
            return None
        if len(r[3]) != len(arg_checks):
            ctx.bad(rule, key, "forwarded call has %d args, expected %d" % (len(r[3]), len(arg_checks)), fn.at())
            return None
        for i, (a, chk) in enumerate(zip(r[3], arg_checks)):
            if not chk(a):
                ctx.bad(rule, key, "argument %d of the forwarded call is %s" % (i, short(a, 6)), fn.at())
                return None
        found = (r, wr)
    ctx.ok(rule, key, "forwards: " + short(paths[0].ret, 8), fn.at())
    return found


def closure_paths(ctx, clo, canon=False):
    """Paths of a closure body with its captured variables replaced by the expressions the
    parent put into the closure aggregate.  `clo` = ('agg','closure',id,ops).  The closure's own
    parameters are renamed to ('cparam', i), i >= 2 (param 1 is the environment), so that they
    cannot be confused with the parent's parameters occurring in the substituted captures."""
    from .sym import subst_params, Path
    fn = ctx.F.fns.get(clo[2])
    if fn is None:
        return None
    ctx.fns_analysed.add(fn.id)
    mapping = {}
    for i, cap in enumerate(fn.captures):
        if i < len(clo[3]):
            mapping[("upvar", cap["var"], i)] = clo[3][i]
    for i in range(1, fn.argc + 1):
        mapping[("param", i)] = ("cparam", i, fn.id)
    out = []
    for p in (ctx.cpaths(fn) if canon else ctx.paths(fn)):
        memo = {}
        ev = []
        for e in p.events:
            if e[0] == "call":
                ev.append(("call", subst_params(e[1], mapping, memo)))
            elif e[0] == "cond":
                ev.append(("cond", subst_params(e[1], mapping, memo), e[2]))
            else:
                ev.append(e)
        from .sym import expand_deferred
        # a captured function value that the closure calls (`|x| f(x)` with f a closure or function item of the caller)
        out.extend(expand_deferred(Path([(subst_params(c[0], mapping, memo), c[1], c[2]) for c in p.conds], ev,
                                        subst_params(p.ret, mapping, memo) if p.ret is not None else None, p.end, p.blocks), ctx.F, canon))
    return out


def is_conversion_fn(ctx, e):
    """the function value is Into::into / From::from, or a closure whose body just converts its argument"""
    if e[0] == "fnitem":
        return path_ends(e[1], "Into::into") or path_ends(e[1], "From::from")
    if e[0] == "agg" and e[1] == "closure":
        cps = closure_paths(ctx, e)
        if not cps:
            return False
        rets = [p for p in cps if p.end != "unreachable"]
        if len(rets) != 1 or rets[0].end != "return":
            return False
        r = rets[0].ret
        return callee_is(r, "Into::into", "From::from") and len(r[3]) == 1 and r[3][0][:2] == ("cparam", 2) and len(rets[0].calls()) == 1
    return False


def check_population_size(ctx, rule):
    """the blanket Population impl reports the collection's own length"""
    f = ctx.fn("<T as ec_core::population::Population>::size")
    ps = return_paths(ctx.paths(f))
    ok = len(ps) == 1 and match(ps[0].ret, Call("ExactSizeIterator::len", Through(Call("IntoIterator::into_iter", Param(1), nargs=1)), nargs=1)) and len(ps[0].calls()) == 2 and \
        not [e for e in ps[0].events if e[0] == "assert"]
    ctx.check(ok, rule, "Population::size=into_iter().len()", short(ps[0].ret, 4) if ps else "-", f.at(),
              bad_detail="Population::size must be the exact length of the collection ((&self).into_iter().len()); extracted " + "; ".join(short(p.ret, 6) for p in ps))


def shadowing_audit(ctx, rule, trait_prefixes, label="inherent-method-shadows-trait-method"):
    """Method-call syntax prefers an inherent method to a trait method of the same name: adding `impl X { fn m(&self) }`
    silently re-routes every `x.m()` that used to reach `<X as T>::m` - in code whose text has not changed.  For every
    workspace type X that implements a trait T under one of `trait_prefixes` (hand-written, derived or provided method
    alike), an inherent method of X named like a method of T must be the same computation as the trait method it hides
    (equal canonical summary); anything else is reported.  Returns the number of (type, trait) pairs looked at."""
    F = ctx.F
    names = {}
    looked = 0
    for im in F.impls:
        tr = im.get("trait")
        if not tr or not any(tr.startswith(px) for px in trait_prefixes):
            continue
        sp = im["self"].get("path")
        if not sp or sp not in F.adts:
            continue
        looked += 1
        own = {it["name"]: (it.get("path") or it.get("id")) for it in im["items"] if it.get("kind") == "AssocFn"}
        t = F.traits.get(tr)
        allm = dict.fromkeys([it["name"] for it in t["items"] if it["kind"] == "AssocFn"], None) if t else {}
        if t:
            for it in t["items"]:
                if it["kind"] == "AssocFn":
                    allm[it["name"]] = it.get("path")          # the provided body, if the impl does not override it
        allm.update(own)
        for n, target in allm.items():
            names.setdefault(sp, {}).setdefault(n, (tr, target))
    hits = 0
    for im in F.impls:
        if im.get("trait"):
            continue
        sp = im["self"].get("path")
        for it in im["items"]:
            if it.get("kind") != "AssocFn" or it["name"] not in names.get(sp, {}):
                continue
            tr, target = names[sp][it["name"]]
            g = F.fns.get(it.get("path") or it.get("id") or "")
            h = F.fns.get(target or "")
            same = False
            if g is not None and h is not None:
                try:
                    from .canonsum import Summariser
                    S = Summariser(F)
                    a, b = S.of(g), S.of(h)
                    same = a == b and isinstance(a[1], frozenset)
                except Exception:
                    same = False
            hits += 1
            ctx.check(same, rule, "%s/%s::%s" % (label, sp.rsplit("::", 1)[-1], it["name"]), "equal to <%s as %s>::%s" % (sp.rsplit("::", 1)[-1], tr.rsplit("::", 1)[-1], it["name"]),
                      g.at() if g is not None else None,
                      bad_detail="inherent method %s::%s hides the method of the same name of %s, which this type implements: every `x.%s()` in unchanged code now calls it, and it is not the same computation" % (
                          sp, it["name"], tr, it["name"]))
    ctx.ok(rule, label + "/inventory", "%d trait impls of workspace types looked at, %d inherent method(s) of the same name as a trait method" % (looked, hits), nontrivial=False)
    return looked


def override_audit(ctx, rule, trait_paths, label="override-of-provided-method"):
    """A provided (default) method of a workspace trait is what every rule about that method has analysed; an impl that
    overrides it for one type replaces it there without touching the analysed body.  Every such override must be the same
    computation as the provided body (equal canonical summary).  Returns the number of provided methods covered."""
    F = ctx.F
    n = 0
    for tp in trait_paths:
        t = F.traits.get(tp)
        if t is None:
            ctx.bad(rule, label + "/trait-missing/" + tp, "trait not found in the facts: " + tp)
            continue
        provided = {it["name"]: it.get("path") for it in t["items"] if it["kind"] == "AssocFn" and it.get("has_default")}
        n += len(provided)
        for im in F.impls:
            if im.get("trait") != tp:
                continue
            for it in im["items"]:
                if it.get("kind") != "AssocFn" or it["name"] not in provided:
                    continue
                g = F.fns.get(it.get("path") or it.get("id") or "")
                h = F.fns.get(provided[it["name"]] or "")
                same = False
                if g is not None and h is not None:
                    try:
                        from .canonsum import Summariser
                        S = Summariser(F)
                        a, b = S.of(g), S.of(h)
                        same = a == b and isinstance(a[1], frozenset)
                    except Exception:
                        same = False
                ctx.check(same, rule, "%s/%s::%s-for-%s" % (label, tp.rsplit("::", 1)[-1], it["name"], (im["self"].get("s") or "?")[:60].replace(" ", "")),
                          "equal to the provided body", g.at() if g is not None else im["span"]["at"],
                          bad_detail="%s overrides the provided method %s::%s, and not with the same computation: callers of that method on this type no longer run the body the rules analysed" % (
                              im["self"].get("s"), tp, it["name"]))
    ctx.ok(rule, label + "/inventory", "%d provided method(s) of %s: no impl replaces one with a different computation" % (n, ", ".join(x.rsplit("::", 1)[-1] for x in trait_paths)), nontrivial=False)
    return n
