"""Oracle tables for the Push instruction set (written from the property statements and the
repository's documentation, NOT generated from the code under test).

Effect rows: stack -> (pops, pushes[, reads]) on success; 'out' = number of output writes;
'arith' = the instruction has a data-dependent arithmetic fault that must skip it (recoverable);
'flush' = removes every element of that stack.
Stacks: i64, bool, f64 (OrderedFloat<f64>), exec (PushProgram).
"""

def common(T):
    return {
        "Pop": {T: (1, 0)},
        "Push": {T: (0, 1)},
        "Dup": {T: (0, 1, 1)},
        "Swap": {T: (2, 2)},
        "IsEmpty": {"bool": (0, 1)},
        "StackDepth": {"i64": (0, 1)},
        "Flush": {T: "flush"},
    }


def printing(T):
    return {"Print": {T: (1, 0), "out": 1}, "PrintLn": {T: (1, 0), "out": 1}, "Println": {T: (1, 0), "out": 1}}


INT = dict(common("i64"))
INT.update(printing("i64"))
INT.update({
    "Negate": {"i64": (1, 1)}, "Abs": {"i64": (1, 1)},
    "Inc": {"i64": (1, 1), "arith": True}, "Dec": {"i64": (1, 1), "arith": True}, "Square": {"i64": (1, 1), "arith": True},
    "Min": {"i64": (2, 1)}, "Max": {"i64": (2, 1)},
    "Add": {"i64": (2, 1), "arith": True}, "Subtract": {"i64": (2, 1), "arith": True}, "Multiply": {"i64": (2, 1), "arith": True},
    "ProtectedDivide": {"i64": (2, 1), "arith": True}, "Mod": {"i64": (2, 1), "arith": True}, "Power": {"i64": (2, 1), "arith": True},
    "Clamp": {"i64": (3, 1)},
    "IsZero": {"i64": (1, 0), "bool": (0, 1)}, "IsPositive": {"i64": (1, 0), "bool": (0, 1)}, "IsNegative": {"i64": (1, 0), "bool": (0, 1)},
    "IsEven": {"i64": (1, 0), "bool": (0, 1)}, "IsOdd": {"i64": (1, 0), "bool": (0, 1)},
    "Equal": {"i64": (2, 0), "bool": (0, 1)}, "NotEqual": {"i64": (2, 0), "bool": (0, 1)},
    "LessThan": {"i64": (2, 0), "bool": (0, 1)}, "LessThanEqual": {"i64": (2, 0), "bool": (0, 1)},
    "GreaterThan": {"i64": (2, 0), "bool": (0, 1)}, "GreaterThanEqual": {"i64": (2, 0), "bool": (0, 1)},
    "FromBoolean": {"bool": (1, 0), "i64": (0, 1)}, "FromFloatApprox": {"f64": (1, 0), "i64": (0, 1)},
})

FLOAT = dict(common("f64"))
FLOAT.update(printing("f64"))
FLOAT.update({
    "Add": {"f64": (2, 1)}, "Subtract": {"f64": (2, 1)}, "Multiply": {"f64": (2, 1)}, "ProtectedDivide": {"f64": (2, 1)},
    "Equal": {"f64": (2, 0), "bool": (0, 1)}, "NotEqual": {"f64": (2, 0), "bool": (0, 1)},
    "GreaterThan": {"f64": (2, 0), "bool": (0, 1)}, "LessThan": {"f64": (2, 0), "bool": (0, 1)},
    "GreaterThanOrEqual": {"f64": (2, 0), "bool": (0, 1)}, "LessThanOrEqual": {"f64": (2, 0), "bool": (0, 1)},
    "FromIntApprox": {"i64": (1, 0), "f64": (0, 1)},
})

BOOL = dict(common("bool"))
BOOL.update(printing("bool"))
BOOL["IsEmpty"] = {"bool": (0, 1)}
BOOL.update({
    "Not": {"bool": (1, 1)}, "And": {"bool": (2, 1)}, "Or": {"bool": (2, 1)}, "Xor": {"bool": (2, 1)}, "Implies": {"bool": (2, 1)},
    "FromInt": {"i64": (1, 0), "bool": (0, 1)},
})

EXEC = dict(common("exec"))
EXEC.update({
    "Noop": {},
    "DupBlock": {"exec": (0, 1, 1)},
    "When": "conditional", "Unless": "conditional", "IfElse": "conditional",
})

TOP = {
    "PrintSpace": {"out": 1}, "PrintNewline": {"out": 1}, "PrintPeriod": {"out": 1}, "PrintString": {"out": 1},
    "InputVar": "input",
}

ENUMS = {
    "push::instruction::int::IntInstruction": ("Int", INT),
    "push::instruction::float::FloatInstruction": ("Float", FLOAT),
    "push::instruction::bool::BoolInstruction": ("Bool", BOOL),
    "push::instruction::exec::ExecInstruction": ("Exec", EXEC),
    "push::instruction::PushInstruction": ("", TOP),
}

# Conditional action tables (documentation of When / Unless / IfElse).
# key: (bool availability: 'true' | 'false' | 'none', number of exec blocks available: 0, 1, 2)
# value: 'skip' (recoverable underflow, nothing changes) or {stack: (pops, pushes)}
NOTHING = {}
WHEN = {
    ("true", 1): {"bool": (1, 0)}, ("true", 2): {"bool": (1, 0)},
    ("false", 1): {"bool": (1, 0), "exec": (1, 0)}, ("false", 2): {"bool": (1, 0), "exec": (1, 0)},
    ("none", 1): {"exec": (1, 0)}, ("none", 2): {"exec": (1, 0)},
    ("true", 0): NOTHING, ("false", 0): NOTHING,
    ("none", 0): "skip",
}
UNLESS = {
    ("false", 1): {"bool": (1, 0)}, ("false", 2): {"bool": (1, 0)},
    ("true", 1): {"bool": (1, 0), "exec": (1, 0)}, ("true", 2): {"bool": (1, 0), "exec": (1, 0)},
    ("none", 1): NOTHING, ("none", 2): NOTHING,
    ("true", 0): NOTHING, ("false", 0): NOTHING,
    ("none", 0): "skip",
}
IFELSE = {
    # two blocks: then = top, else = second
    ("false", 2): {"bool": (1, 0), "exec": (1, 0)},            # drop `then`, keep `else`
    ("true", 2): {"bool": (1, 0), "exec": (2, 1)},             # keep `then`, drop `else`
    # one block: behaves like When
    ("true", 1): {"bool": (1, 0)},
    ("false", 1): {"bool": (1, 0), "exec": (1, 0)},
    # no boolean: drop the `then` block
    ("none", 1): {"exec": (1, 0)}, ("none", 2): {"exec": (1, 0)},
    # no blocks
    ("true", 0): "skip", ("false", 0): "skip", ("none", 0): "skip",
}
CONDITIONAL = {"When": WHEN, "Unless": UNLESS, "IfElse": IFELSE}

# Value semantics (R01.3): instruction -> description of the value pushed, over operands
# a = top, b = second, c = third of the operand stack.
VALUES = {
    "Int::Inc": ("checked", "i64::checked_add", ["a", 1]),
    "Int::Dec": ("checked", "i64::checked_sub", ["a", 1]),
    "Int::Square": ("checked", "i64::checked_mul", ["a", "a"]),
    "Int::Add": ("checked", "i64::checked_add", ["a", "b"], "commutative"),
    "Int::Subtract": ("checked", "i64::checked_sub", ["a", "b"]),
    "Int::Multiply": ("checked", "i64::checked_mul", ["a", "b"], "commutative"),
    "Int::ProtectedDivide": ("guarded", "i64::checked_div", ["a", "b"], 1),
    "Int::Mod": ("guarded", "i64::checked_rem", ["a", "b"], 0),
    "Int::Power": ("power", "i64::checked_pow", ["a", "b"]),
    "Int::Min": ("call", "Ord::min", ["a", "b"], "commutative"),
    "Int::Max": ("call", "Ord::max", ["a", "b"], "commutative"),
    "Int::Negate": ("call", "i64::saturating_neg", ["a"]),
    "Int::Abs": ("call", "i64::saturating_abs", ["a"]),
    "Int::IsZero": ("cmp", "Eq", ["a", 0]),
    "Int::IsPositive": ("cmp", "Gt", ["a", 0]),
    "Int::IsNegative": ("cmp", "Lt", ["a", 0]),
    "Int::IsEven": ("parity", 0),
    "Int::IsOdd": ("parity", 1),
    "Int::Equal": ("cmp", "Eq", ["a", "b"]),
    "Int::NotEqual": ("cmp", "Ne", ["a", "b"]),
    "Int::LessThan": ("cmp", "Lt", ["a", "b"]),
    "Int::LessThanEqual": ("cmp", "Le", ["a", "b"]),
    "Int::GreaterThan": ("cmp", "Gt", ["a", "b"]),
    "Int::GreaterThanEqual": ("cmp", "Ge", ["a", "b"]),
    "Int::FromBoolean": ("call", "From::from", ["a"]),
    "Int::FromFloatApprox": ("cast", "FloatToInt", ["a"]),
    "Int::Clamp": ("clamp",),
    "Float::Add": ("fnitem", "Add::add"), "Float::Subtract": ("fnitem", "Sub::sub"), "Float::Multiply": ("fnitem", "Mul::mul"),
    "Float::ProtectedDivide": ("fdiv",),
    "Float::Equal": ("fnitem", "PartialEq::eq"), "Float::NotEqual": ("fnitem", "PartialEq::ne"),
    "Float::GreaterThan": ("fnitem", "PartialOrd::gt"), "Float::LessThan": ("fnitem", "PartialOrd::lt"),
    "Float::GreaterThanOrEqual": ("fnitem", "PartialOrd::ge"), "Float::LessThanOrEqual": ("fnitem", "PartialOrd::le"),
    "Float::FromIntApprox": ("cast", "IntToFloat", ["a"]),
    "Bool::Not": ("fnitem1", "Not::not"),
    "Bool::And": ("bool2", "and"), "Bool::Or": ("bool2", "or"), "Bool::Xor": ("bool2", "xor"), "Bool::Implies": ("bool2", "implies"),
    "Bool::FromInt": ("cmp", "Ne", ["a", 0]),
}
