"""C15 - Scores, errors and individuals are ordered and aggregated consistently."""
from .pat import ANY, Bind, Call, Param, Field, Through, Agg, match, find, callee_is, path_ends
from .sym import short, subexprs
from .common import (TryOk, is_err_return, return_paths, peel, mentions, derives_from_self, rng_passthrough)

META = {
    "level": "other",
    "explanation": (
        "Static rule conformance on impl headers and MIR. Decided: (R15.1) Score<T>'s PartialEq/Eq/PartialOrd/Ord are all compiler-derived on a "
        "single-field tuple struct and no hand-written impl of any of them exists, so the four agree and are lawful whenever T's are; (R15.2) Error<T>::cmp "
        "is reverse(self.0.cmp(&other.0)) and partial_cmp is self.0.partial_cmp(&other.0).map(reverse): exactly one reversal each, operands in (self, other) order, "
        "PartialEq/Eq derived; (R15.3) TestResult::partial_cmp compares like variants' payloads in (self, other) order and returns None on every mixed pair; "
        "(R15.4) TestResults orders by total_result of both sides; From builds results = collect(into_iter(values).map(Into::into)) and total_result = sum over "
        "iter() of that same vector; FromIterator forwards; the six Sum impls add payloads without constants or skips; (R15.5) EcIndividual orders by test_results; "
        "(R15.6) IndividualGenerator::sample and GenomeScorer::apply score the very genome they emit and pair it with that call's result. NOT decided: lawfulness of user-supplied T."),
    "rules": {
        "R15.1": "Score<T>: PartialEq, Eq, PartialOrd, Ord all #[automatically_derived], single field, no manual impl",
        "R15.2": "Error<T>: cmp = Ordering::reverse(Ord::cmp(&self.0,&other.0)); partial_cmp = Option::map(PartialOrd::partial_cmp(&self.0,&other.0), Ordering::reverse); PartialEq/Eq derived",
        "R15.3": "TestResult::partial_cmp: like variants delegate to payloads (self, other); mixed -> None",
        "R15.4": "TestResults: cmp/partial_cmp project total_result; From: results in order, total = sum(results.iter()); FromIterator forwards; Sum impls",
        "R15.5": "EcIndividual: cmp/partial_cmp project test_results of (self, other)",
        "R15.6": "scored individuals carry the scored genome and that score",
    },
    "trusted_base": ["rustc derive(PartialEq, Eq, PartialOrd, Ord) expansions", "std Ordering::reverse, Iterator::sum/map/collect", "uecfacts driver + uecheck rule engine"],
    "assumptions": ["T: Ord / PartialOrd / Sum supplied by the user are lawful"],
    "not_decided": ["lawfulness of user-supplied payload types"],
}

TR = "ec_core::test_results::"


def derived_impls(F, adt_path):
    out = {}
    for im in F.impls:
        if im.get("trait") and im["self"].get("path") == adt_path:
            out.setdefault(im["trait"], []).append(im)
    return out


def check_order_impls(ctx, rule, adt_path, label, field, reversed_, keys=None):
    """The hand-written Ord / PartialOrd impls of `adt_path` compute exactly the order of the projected payload
    (`field` of self vs `field` of other), reversed when `reversed_`: every method of the impls - required ones and
    any overridden comparison operator - is evaluated under the four possible payload relations (ordalg) and its
    result table compared with the expected one.  Spelling is free; comparing anything but the payloads is not."""
    from . import ordalg
    keys = keys or {}
    is_a = lambda e: match(e, Through(Field(Through(Param(1)), field)))
    is_b = lambda e: match(e, Through(Field(Through(Param(2)), field)))
    di = derived_impls(ctx.F, adt_path)
    n = 0
    for tr, required in (("std::cmp::Ord", "cmp"), ("std::cmp::PartialOrd", "partial_cmp")):
        ims = di.get(tr, [])
        if len(ims) != 1:
            ctx.bad(rule, "%s/%s-single-impl" % (label, tr.split("::")[-1]), "%d impls of %s for %s" % (len(ims), tr, adt_path))
            continue
        if ims[0]["derived"]:
            ctx.bad(rule, "%s/%s-hand-written" % (label, tr.split("::")[-1]), "%s for %s is derived: a derive orders by ALL fields in declaration order, not by `%s`%s" % (
                tr, adt_path, field, " reversed" if reversed_ else ""), ims[0]["span"]["at"])
            continue
        names = [it["name"] for it in ims[0]["items"] if it["kind"] == "AssocFn"]
        ctx.check(required in names, rule, "%s/%s-defined" % (label, required), "methods defined: %s" % names, ims[0]["span"]["at"])
        for it in ims[0]["items"]:
            if it["kind"] != "AssocFn":
                continue
            m = it["name"]
            key = keys.get(m) or "%s::%s-agrees-with-payload-order" % (label, m)
            f = ctx.F.fns.get(it["path"])
            if f is None:
                ctx.bad(rule, key, "no MIR for %s" % it["path"])
                continue
            exp = ordalg.expected(m, reversed_)
            if not exp:
                ctx.bad(rule, key, "%s overrides %s::%s, which this rule cannot evaluate (only cmp, partial_cmp, lt, le, gt, ge are modelled)" % (adt_path, tr, m), f.at())
                continue
            ps = [p for p in ctx.paths(f)]
            got = ordalg.table(ps, is_a, is_b, rels=tuple(exp))
            wrong = ["payloads %s: returns %s, must return %s" % ({"lt": "self < other", "eq": "self == other", "gt": "self > other", "none": "incomparable"}[r],
                                                                   ordalg.show(got[r]), ordalg.show(exp[r])) for r in exp if got[r] != exp[r]]
            n += 1
            ctx.check(not wrong, rule, key, "; ".join("%s=>%s" % (r, ordalg.show(got[r])) for r in exp), f.at(),
                      bad_detail="%s::%s does not order by `%s`%s: %s" % (label, m, field, " (reversed)" if reversed_ else "", "; ".join(wrong)))
    return n


def check_error_ord(ctx, rule):
    check_order_impls(ctx, rule, TR + "Error", "Error", 0, True,
                      keys={"cmp": "Error::cmp=reverse(self.0.cmp(other.0))", "partial_cmp": "Error::partial_cmp=partial_cmp.map(reverse)"})


def check(ctx):
    from .common import shadowing_audit
    ctx.floor('R15.1', shadowing_audit(ctx, 'R15.1', ('std::cmp::', 'std::iter::Sum')), 20, 'comparison / Sum impls of workspace types (shadowing audit)')
    from .ctors import check_table
    check_table(ctx, "C15", "R15.6")
    F = ctx.F
    # ---- R15.1 Score ----------------------------------------------------
    adt = F.adts.get(TR + "Score")
    if not adt:
        ctx.bad("R15.1", "anchor-missing/Score", "ADT Score not found")
    else:
        v = adt["variants"]
        ctx.check(len(v) == 1 and len(v[0]["fields"]) == 1, "R15.1", "Score/single-field", "fields: %s" % [f["name"] for f in v[0]["fields"]], adt["span"]["at"])
        di = derived_impls(F, TR + "Score")
        for tr in ("std::cmp::PartialEq", "std::cmp::Eq", "std::cmp::PartialOrd", "std::cmp::Ord"):
            ims = di.get(tr, [])
            ok = len(ims) == 1 and ims[0]["derived"]
            ctx.check(ok, "R15.1", "Score/%s-derived" % tr.split("::")[-1], "%d impl(s), derived=%s" % (len(ims), [i["derived"] for i in ims]),
                      ims[0]["span"]["at"] if ims else None,
                      bad_detail="%s for Score<T> must be exactly one compiler-derived impl; found %d (derived flags %s)" % (tr, len(ims), [i["derived"] for i in ims]))
    # ---- R15.2 Error ------------------------------------------------------
    check_error_ord(ctx, "R15.2")
    di = derived_impls(F, TR + "Error")
    for tr in ("std::cmp::PartialEq", "std::cmp::Eq"):
        ims = di.get(tr, [])
        ctx.check(len(ims) == 1 and ims[0]["derived"], "R15.2", "Error/%s-derived" % tr.split("::")[-1], "%d impl(s)" % len(ims))

    # ---- R15.3 TestResult ---------------------------------------------------
    f = ctx.fn("<ec_core::test_results::TestResult<S, E> as std::cmp::PartialOrd>::partial_cmp")
    ps = return_paths(ctx.paths(f))
    like = 0
    for p in ps:
        d1 = [c for c in p.conds if c[0] == ("discr", ("deref", ("param", 1)))]
        d2 = [c for c in p.conds if c[0] == ("discr", ("deref", ("param", 2)))]
        v1 = d1[0][1] if d1 else None
        v2 = d2[0][1] if d2 else None
        same = (v1 is not None and v1 == v2 and not isinstance(v1, tuple))
        if same:
            like += 1
            vname = {0: "Score", 1: "Error"}.get(v1, str(v1))
            pat = Call("PartialOrd::partial_cmp", Through(Field(Through(Param(1)), 0, vname)), Through(Field(Through(Param(2)), 0, vname)), nargs=2)
            ctx.check(match(p.ret, pat), "R15.3", "TestResult/%s-vs-%s" % (vname, vname), short(p.ret), f.at(),
                      bad_detail="like variants must delegate to the payloads in (self, other) order; extracted " + short(p.ret, 8))
        else:
            ctx.check(match(p.ret, Agg("Option::None")), "R15.3", "TestResult/mixed(%s,%s)->None" % (v1, v2), short(p.ret), f.at(),
                      bad_detail="a score/error pair must be incomparable (None); extracted " + short(p.ret, 8))
    ctx.floor("R15.3", like, 2, "like-variant arms")
    ctx.floor("R15.3", len(ps) - like, 2, "mixed-variant arms")

    # ---- R15.4 TestResults -----------------------------------------------------
    check_order_impls(ctx, "R15.4", TR + "TestResults", "TestResults", "total_result", False,
                      keys={"cmp": "TestResults/cmp-by-total", "partial_cmp": "TestResults/partial_cmp-by-total"})
    f = ctx.fn("<ec_core::test_results::TestResults<R> as std::convert::From<I>>::from")
    f_iter = ctx.fn("<ec_core::test_results::TestResults<R> as std::iter::FromIterator<V>>::from_iter")
    FWD = ("Into::into", "From::from", "FromIterator::from_iter", "Iterator::collect")

    def forwards(fn):
        """the conversion hands its argument, untouched, to its sibling (`values.into()` / `Self::from(values)` / `Self::from_iter(values)`)"""
        qs = return_paths(ctx.paths(fn))
        return len(qs) == 1 and len([p for p in ctx.paths(fn) if p.end != "unreachable"]) == 1 and match(qs[0].ret, Call(FWD, Param(1), nargs=1)) and len(qs[0].calls()) == 1
    if forwards(f) and not forwards(f_iter):
        f, f_iter = f_iter, f           # the two conversions may delegate either way round: one builds, the other forwards
    ps = return_paths(ctx.paths(f))
    into = lambda e: e[0] == "fnitem" and path_ends(e[1], "Into::into") or (e[0] == "fnitem" and path_ends(e[1], "From::from"))
    res_pat = Bind("results", Call("Iterator::collect", Call("Iterator::map", Call("IntoIterator::into_iter", Param(1), nargs=1), into, nargs=2), nargs=1))
    # `iter.sum::<R>()` is by definition `<R as Sum<_>>::sum(iter)` (core::iter::Iterator::sum), so the qualified spelling is the same total
    SUMS = ("Iterator::sum", "Sum::sum")
    tot_pat = Call(SUMS, Call("[T]::iter", Through(Bind("results"), calls=("Deref::deref",)), nargs=1), nargs=1)
    ok = len(ps) == 1 and match(ps[0].ret, Agg("TestResults::TestResults", res_pat, tot_pat))
    if ok:
        # field order of the aggregate: results, total_result
        adt = F.adts.get(TR + "TestResults")
        names = [x["name"] for x in adt["variants"][0]["fields"]] if adt else []
        ok = names == ["results", "total_result"]
    loop_form = False
    if not ok:
        # the same as an explicit loop: for v in values { results.push(R::from(v)) }; TestResults { results, total_result: results.iter().sum() }
        from . import ckit as K
        acc = K.accumulation(ctx, f, lambda e: match(e, Through(Call("IntoIterator::into_iter", Param(1), nargs=1))))
        if acc is not None and len(acc["bodies"]) == 1 and len(acc["done"]) == 1:
            q, conds, v = acc["bodies"][0]
            d = acc["done"][0]
            conv = v is not None and callee_is(v, "Into::into", "From::from") and len(v[3]) == 1 and K.strip(v[3][0], calls=()) == acc["item"]
            is_res = lambda e: K.strip(e, calls=("Deref::deref",)) == acc["out"]
            loop_form = not conds and conv and d.end == "return" and match(d.ret, Agg("TestResults::TestResults", is_res, Call(SUMS, Call("[T]::iter", is_res, nargs=1), nargs=1)))
            adt = F.adts.get(TR + "TestResults")
            loop_form = loop_form and [x["name"] for x in adt["variants"][0]["fields"]] == ["results", "total_result"]
            ok = loop_form
    ctx.check(ok, "R15.4", "TestResults/from=collect+sum-of-same-vector", short(ps[0].ret, 7) if ps else "-", f.at(),
              bad_detail="expected TestResults{results: collect(map(into_iter(values), Into::into)), total_result: sum(results.iter())}; extracted " +
              "; ".join(short(p.ret, 10) for p in ps))
    allowed = ("IntoIterator::into_iter", "Iterator::map", "Iterator::collect", "Deref::deref", "[T]::iter") + SUMS
    if loop_form:
        allowed = allowed + ("Vec::new", "Vec::with_capacity", "Iterator::next", "Vec::push", "Into::into", "From::from", "Vec::len", "ExactSizeIterator::len", "Iterator::size_hint")
    extra = [c for p in (ctx.paths(f) if loop_form else ps) for c in p.calls() if not callee_is(c, *allowed)]
    ctx.check(not extra, "R15.4", "TestResults/from-no-reordering-adaptor", "only into_iter/map/collect/iter/sum are called", f.at(),
              bad_detail="unexpected calls: " + ", ".join(short(c, 3) for c in extra))
    ps = return_paths(ctx.paths(f_iter))
    ctx.check(forwards(f_iter), "R15.4", "TestResults/from_iter-forwards", short(ps[0].ret) if ps else "-", f_iter.at(),
              bad_detail="one of From::from / FromIterator::from_iter must build the value and the other hand its argument on unchanged; extracted " + "; ".join(short(p.ret, 6) for p in ps))
    # Sum impls
    sums = [fn for fn in ctx.trait_impl_fns("std::iter::Sum::sum") if fn.id.startswith("<ec_core::test_results::")]
    ctx.floor("R15.4", len(sums), 6, "Sum impls for Score/Error")
    for fn in sums:
        ps = return_paths(ctx.paths(fn))
        r = ps[0].ret if len(ps) == 1 else None
        good = False
        desc = short(r, 6) if r else "-"
        if r is not None:
            if match(r, Agg(ANY, Call(SUMS, Param(1), nargs=1))) and r[1] == "adt" and len(r[3]) == 1:
                good = True       # Self(iter.sum())
            elif match(r, Call(SUMS, Call("Iterator::map", Param(1), ANY, nargs=2), nargs=1)):
                clo = r[3][0][3][1]
                good = clo[0] == "agg" and clo[1] == "closure" and check_payload_closure(ctx, clo[2])
            elif r[0] == "agg" and r[1] == "adt" and len(r[3]) == 1 and match(r[3][0], Call(SUMS, Call("Iterator::map", Param(1), ANY, nargs=2), nargs=1)):
                # Self(iter.map(|Self(x)| x).sum()): the payloads are summed and wrapped again
                clo = r[3][0][3][0][3][1]
                good = clo[0] == "agg" and clo[1] == "closure" and check_payload_closure(ctx, clo[2])
            extra = [c for c in ps[0].calls() if not callee_is(c, "Iterator::sum", "Sum::sum", "Iterator::map")]
            good = good and not extra
        ctx.check(good, "R15.4", "Sum/" + fn.id.split(" as ")[0].lstrip("<").replace("ec_core::test_results::", "") + "/" + fn.id.split("Sum<")[-1].split(">>")[0][:40],
                  desc, fn.at(), bad_detail="Sum impl is not Self(iter.sum()) / iter.map(|s| payload).sum(): " + desc)

    for ty in ("Score", "Error"):
        g = ctx.trait_fn("std::convert::From::from", "ec_core::test_results::%s<T>" % ty)
        ps = return_paths(ctx.paths(g))
        ctx.check(len(ps) == 1 and match(ps[0].ret, Agg("%s::%s" % (ty, ty), Param(1))) and not ps[0].calls(), "R15.4", "%s::from-wraps-the-value" % ty, short(ps[0].ret) if ps else "-", g.at())
    # ---- R15.5 EcIndividual -------------------------------------------------------
    check_order_impls(ctx, "R15.5", "ec_core::individual::ec::EcIndividual", "EcIndividual", "test_results", False,
                      keys={"cmp": "EcIndividual/cmp-by-test_results", "partial_cmp": "EcIndividual/partial_cmp-by-test_results"})
    f = ctx.fn("ec_core::individual::ec::EcIndividual::<G, R>::new")
    ps = return_paths(ctx.paths(f))
    ctx.check(len(ps) == 1 and match(ps[0].ret, Agg("EcIndividual::EcIndividual", Param(1), Param(2))) and field_names(F, "ec_core::individual::ec::EcIndividual") == ["genome", "test_results"],
              "R15.5", "EcIndividual::new-stores-(genome,test_results)", short(ps[0].ret), f.at())
    for acc, fld in (("genome", "genome"), ("test_results", "test_results")):
        f = ctx.fn("<ec_core::individual::ec::EcIndividual<G, R> as ec_core::individual::Individual>::%s" % acc)
        ps = return_paths(ctx.paths(f))
        ctx.check(len(ps) == 1 and match(ps[0].ret, Through(Field(Through(Param(1)), fld))) and not ps[0].calls(), "R15.5", "EcIndividual::%s-accessor" % acc, short(ps[0].ret), f.at())

    # ---- R15.6 pairing ---------------------------------------------------------------
    f = ctx.fn("<ec_core::individual::ec::IndividualGenerator<D, S> as rand::distr::Distribution<ec_core::individual::ec::EcIndividual<G, <S as ec_core::individual::scorer::Scorer<G>>::Score>>>::sample")
    ps = return_paths(ctx.paths(f))
    gen = Bind("g", Call("Distribution::sample", lambda a: derives_from_self(a, field="genome_generator"), lambda a: rng_passthrough(a, 2), nargs=2))
    pat = Call("EcIndividual::new", gen, Call("Scorer::score", lambda a: derives_from_self(a, field="scorer"), Through(Bind("g")), nargs=2), nargs=2)
    ok = len(ps) == 1 and match(ps[0].ret, pat) and sum(1 for c in ps[0].calls() if callee_is(c, "Distribution::sample")) == 1 \
        and sum(1 for c in ps[0].calls() if callee_is(c, "Scorer::score")) == 1
    ctx.check(ok, "R15.6", "IndividualGenerator::sample/scores-emitted-genome", short(ps[0].ret, 6) if ps else "-", f.at(),
              bad_detail="expected EcIndividual::new(g, scorer.score(&g)) with g = genome_generator.sample(rng) sampled once; extracted " + "; ".join(short(p.ret, 8) for p in ps))
    f = ctx.fn("<ec_core::operator::genome_scorer::GenomeScorer<GM, S> as ec_core::operator::Operator<&'pop P>>::apply")
    ps = return_paths(ctx.paths(f))
    okp = [p for p in ps if not is_err_return(p)]
    gen = Bind("g", TryOk(Call("Operator::apply", lambda a: derives_from_self(a, field="genome_maker"), Param(2), lambda a: rng_passthrough(a, 3), nargs=3)))
    pat = Agg("Result::Ok", Call("EcIndividual::new", gen, Call("Scorer::score", lambda a: derives_from_self(a, field="scorer"), Through(Bind("g")), nargs=2), nargs=2))
    ok = len(okp) == 1 and match(okp[0].ret, pat) and sum(1 for c in okp[0].calls() if callee_is(c, "Operator::apply")) == 1 \
        and sum(1 for c in okp[0].calls() if callee_is(c, "Scorer::score")) == 1
    ctx.check(ok, "R15.6", "GenomeScorer::apply/scores-emitted-genome", short(okp[0].ret, 6) if okp else "-", f.at(),
              bad_detail="expected Ok(EcIndividual::new(g, scorer.score(&g))) with g = genome_maker.apply(population, rng)?; extracted " + "; ".join(short(p.ret, 8) for p in ps))
    errp = [p for p in ps if is_err_return(p)]
    ctx.check(len(errp) == 1 and not any(callee_is(c, "Scorer::score") for c in errp[0].calls()), "R15.6", "GenomeScorer::apply/error-propagated-unscored",
              "%d error path(s)" % len(errp), f.at())
    for fid, key in (("<ec_core::individual::scorer::FnScorer<T> as ec_core::individual::scorer::Scorer<G>>::score", "FnScorer"),
                     ("<&T as ec_core::individual::scorer::Scorer<G>>::score", "ref-T")):
        f = ctx.fn(fid)
        ps = return_paths(ctx.paths(f))
        r = ps[0].ret if len(ps) == 1 else None
        good = r is not None and r[0] == "call" and len(ps[0].calls()) == 1 and mentions(r, ("param", 2)) and mentions(r, ("param", 1))
        ctx.check(good, "R15.6", "Scorer/%s-forwards-genome" % key, short(r, 5) if r else "-", f.at())


def field_names(F, path):
    adt = F.adts.get(path)
    return [x["name"] for x in adt["variants"][0]["fields"]] if adt else []


def check_payload_closure(ctx, cid):
    """closure |s| s.0  or |s| s.0.to_owned(): returns (a clone of) field 0 of its argument"""
    fn = ctx.F.fns.get(cid)
    if not fn:
        return False
    ctx.fns_analysed.add(cid)
    ps = return_paths(ctx.paths(fn))
    if len(ps) != 1:
        return False
    r = peel(ps[0].ret, ("ToOwned::to_owned", "Clone::clone"), casts=False)
    return r[0] == "field" and r[2] == 0 and peel(r[1], ()) == ("param", 2)
