"""C07 - Best, worst and tournament selection apply the intended pressure."""
from .pat import ANY, Bind, Call, Param, Field, Through, BinOp, match, find, callee_is
from .sym import short, calls_in, subexprs

META = {
    "level": "other",
    "explanation": (
        "Static rule conformance on the MIR of Best/Worst/Tournament::select: decides that the returned "
        "reference is Iterator::max (Best, Tournament) / Iterator::min (Worst) taken directly over the population "
        "iterator resp. over one IndexedRandom::choose_multiple(rng, self.size) sample of the population slice, that "
        "the tournament size guard is the strict population.size() < size, and that no reversing/keyed adaptor "
        "(rev, max_by, min_by, Reverse, map) sits between the population and the reduction. It does NOT decide the "
        "k-subset sampling law itself: that is rand's choose_multiple contract (trusted). (R07.5) the configured size is the size used: Tournament::new stores its argument, of_size::<N>() stores NonZeroUsize::new(N)'s payload (the inline constant's MIR is analysed), binary() is of_size::<2>()."),
    "rules": {
        "R07.1": "Best::select returns ok_or(Iterator::max(IntoIterator::into_iter(population))); Worst likewise with Iterator::min; on every path",
        "R07.2": "Tournament::select's success path returns Iterator::max over exactly one choose_multiple(population.as_ref(), rng, self.size) call",
        "R07.4": "the ordering Best/Worst/Tournament maximise is lawful: EcIndividual orders by test_results, TestResults by total_result, Error by the reversed payload order, every comparison method evaluated under all payload relations (C15's R15.2/R15.4/R15.5 order rules, re-evaluated)",
        "R07.5": "the configured tournament size is the size used: Tournament::new stores its argument, of_size::<N>() stores NonZeroUsize::new(N)'s payload, binary() is of_size::<2>()",
        "R07.3": "the only error return of Tournament::select is guarded by Lt(population.size(), self.size) (strict), and sampling happens only on its false edge",
    },
    "trusted_base": ["rustc type checker / MIR construction (nightly 1.97)", "std Iterator::max/min", "rand 0.9 IndexedRandom::choose_multiple (uniform k-subset without replacement)", "uecfacts driver + uecheck rule engine"],
    "assumptions": ["Ord on the individual type is a lawful total order (C15 checks the workspace's own impls)"],
    "not_decided": ["the probability law P(rank r wins) - rand's sampling contract"],
}

SEL = "<ec_core::operator::selector::%s as ec_core::operator::selector::Selector<P>>::select"
POP = ("param", 2)
RNG = ("param", 3)

INTO = ("Into::into", "From::from")


def strip_conv(e):
    """peel Into::into / From::from / refs"""
    while True:
        if e[0] in ("ref", "deref"):
            e = e[1]
        elif callee_is(e, *INTO) and len(e[3]) == 1:
            e = e[3][0]
        else:
            return e


def is_self_size(e):
    e = strip_conv(e)
    return e[0] == "field" and e[2] == "size" and strip_conv(e[1]) == ("param", 1)


def is_pop_size(e):
    e = strip_conv(e)
    return callee_is(e, "Population::size") and strip_conv(e[3][0]) == POP


def check_extreme_legacy(ctx, name, reducer, other):
    fn = ctx.fn(SEL % name)
    paths = ctx.paths(fn)
    rets = [p for p in paths if p.end == "return"]
    good = bool(rets)
    for p in rets:
        pat = Call("Option::ok_or", Call(reducer, Call("IntoIterator::into_iter", Param(2), nargs=1), nargs=1))
        if not match(p.ret, pat):
            good = False
        # no other call may occur on the path
        allowed = ("IntoIterator::into_iter", reducer, "Option::ok_or")
        extra = [c for c in p.calls() if not callee_is(c, *allowed)]
        if extra:
            good = False
    ctx.check(good and len(rets) == len([p for p in paths if p.end != "unreachable"]), "R07.1",
              "%s/%s" % (name.split("::")[-1], reducer),
              "; ".join(short(p.ret) for p in rets), fn.at(),
              bad_detail="expected ok_or(%s(into_iter(population))) on every path, extracted: %s" % (
                  reducer, "; ".join(short(p.ret) if p.ret else p.end for p in paths)))



def check_tournament_legacy(ctx, only_rule):
    """only_rule: when called from C06, every obligation is filed under that rule id"""
    if only_rule:
        real = ctx
        class _Proxy:
            def __getattr__(self, n):
                return getattr(real, n)
            def ok(self, rule, *a, **k):
                return real.ok(only_rule, *a, **k)
            def bad(self, rule, *a, **k):
                return real.bad(only_rule, *a, **k)
            def check(self, cond, rule, *a, **k):
                return real.check(cond, only_rule, *a, **k)
            def floor(self, rule, *a, **k):
                return real.floor(only_rule, *a, **k)
        ctx = _Proxy()
    fn = ctx.fn(SEL % "tournament::Tournament")
    paths = [p for p in ctx.paths(fn) if p.end == "return"]
    ok_paths = []
    err_paths = []
    for p in paths:
        r = p.ret
        if r[0] == "agg" and r[2].endswith("Result::Err"):
            err_paths.append(p)
        else:
            ok_paths.append(p)
    # R07.2 success path shape
    ctx.check(len(ok_paths) == 1, "R07.2", "Tournament/one-success-path",
              "%d non-error return paths" % len(ok_paths), fn.at())
    for p in ok_paths:
        cm = [c for c in p.calls() if callee_is(c, "IndexedRandom::choose_multiple")]
        mx = [c for c in p.calls() if callee_is(c, "Iterator::max", "Iterator::min", "Iterator::max_by", "Iterator::min_by",
                                                "Iterator::max_by_key", "Iterator::min_by_key", "Iterator::rev", "Iterator::map",
                                                "Iterator::next", "Iterator::last", "Iterator::nth", "Iterator::fold", "Iterator::reduce")]
        good = len(cm) == 1
        detail = short(p.ret)
        if good:
            c = cm[0]
            src, rng, amount = c[3][0], c[3][1], c[3][2]
            src_ok = match(src, Through(Call("AsRef::as_ref", Through(Param(2)), nargs=1)))
            ctx.check(src_ok, "R07.2", "Tournament/sample-source", "choose_multiple source = " + short(src), fn.at())
            ctx.check(rng == RNG, "R07.2", "Tournament/sample-rng", "rng argument = " + short(rng), fn.at())
            ctx.check(is_self_size(amount), "R07.2", "Tournament/sample-amount", "amount = " + short(amount), fn.at())
            red_ok = len(mx) == 1 and callee_is(mx[0], "Iterator::max") and mx[0][3][0] == c
            ctx.check(red_ok, "R07.2", "Tournament/reduce-max",
                      "reducers on path: " + ", ".join(short(m, 3) for m in mx), fn.at())
            ret_ok = match(p.ret, Call(("Option::ok_or_else", "Option::ok_or"), Bind("m", Call("Iterator::max")))) and mx and p.ret[3][0] == mx[0]
            ctx.check(ret_ok, "R07.2", "Tournament/return", detail, fn.at())
        else:
            ctx.bad("R07.2", "Tournament/sample-once", "expected exactly one choose_multiple call on the success path, found %d; return = %s" % (len(cm), detail), fn.at())
        # guard on this path: Lt(size(pop), self.size) == false
        g = [c for c in p.conds if match(c[0], BinOp("Lt", is_pop_size, is_self_size)) and c[1] == 0]
        ctx.check(len(g) == 1 and p.conds.index(g[0]) == 0 or (len(g) == 1), "R07.3", "Tournament/guard-strict-on-success",
                  "; ".join("%s == %s" % (short(c[0]), c[1]) for c in p.conds), fn.at(),
                  bad_detail="success path is not guarded by !(population.size() < self.size): conds = " +
                  "; ".join("%s == %s" % (short(c[0]), c[1]) for c in p.conds))
        # sampling must come after the guard decision: the guard's block precedes the sampling block
        if g and cm:
            gb = g[0][2]
            sb = cm[0][4][1]
            ctx.check(p.blocks.index(gb) < p.blocks.index(sb), "R07.3", "Tournament/guard-before-sample",
                      "guard bb%d precedes sample bb%d" % (gb, sb), fn.at())
    ctx.check(len(err_paths) >= 1, "R07.3", "Tournament/error-path-exists", "%d error paths" % len(err_paths), fn.at())
    for p in err_paths:
        g = [c for c in p.conds if match(c[0], BinOp("Lt", is_pop_size, is_self_size)) and c[1] != 0]
        ctx.check(len(g) == 1 and len(p.conds) == 1, "R07.3", "Tournament/error-iff-too-small",
                  "; ".join("%s == %s" % (short(c[0]), c[1]) for c in p.conds), fn.at())
        drew = [c for c in p.calls() if callee_is(c, "IndexedRandom::choose_multiple", "IndexedRandom::choose")]
        ctx.check(not drew, "R07.3", "Tournament/no-draw-on-error", "no sampling on the error path", fn.at())
    ctx.floor("R07", len(paths), 2, "Tournament::select return paths")


# ---- the same clauses over canonical outcomes (canon.py) ------------------------------------------------------------
from . import ckit as K


def _size_val(e):
    e = K.strip(e)
    return e[0] == "field" and e[2] == "size" and K.strip(e[1]) == ("param", 1)


def _pop_size(e):
    e = K.strip(e)
    return (callee_is(e, "Population::size") and K.strip(e[3][0]) == POP) or \
        (callee_is(e, "[T]::len", "Vec::len") and K.strip(e[3][0]) == POP)


def check_extreme_canon(ctx, name, reducer, other):
    """Best/Worst: Ok(x) iff the reducer over population.into_iter() is Some(x), Err(EmptyPopulation) iff it is None;
    nothing else is called"""
    fn = ctx.fn(SEL % name)
    paths = K.live(ctx.cpaths(fn))
    label = "%s/%s" % (name.split("::")[-1], reducer)
    good = bool(paths) and all(p.end == "return" for p in paths)
    kinds = set()
    detail = []
    for p in paths:
        red = K.calls_of(p, reducer)
        extra = [c for c in p.calls() if not callee_is(c, "IntoIterator::into_iter", reducer)]
        ok1 = len(red) == 1 and not extra and match(red[0], Call(reducer, Call("IntoIterator::into_iter", Param(2), nargs=1), nargs=1))
        kind, pay = K.outcome(p)
        detail.append("%s %s" % (kind, short(pay, 4) if pay is not None else ""))
        if not ok1:
            good = False
            continue
        m = red[0]
        if kind == "ok":
            good = good and pay == ("field", m, 0, "Some") and K.discr_is(p, lambda o: o == m, 1)
        elif kind == "err":
            e = K.conv_free(pay)
            good = good and e[0] == "agg" and e[2].endswith("EmptyPopulation::EmptyPopulation") and K.discr_is(p, lambda o: o == m, 0)
        else:
            good = False
        kinds.add(kind)
    ctx.check(good and kinds == {"ok", "err"}, "R07.1", label, "; ".join(detail), fn.at(),
              bad_detail="expected Ok(x) iff %s(into_iter(population)) is Some(x) and Err(EmptyPopulation) iff it is None, nothing else called; canonical outcomes: %s" % (reducer, "; ".join(detail)))


def check_tournament_canon(ctx, only_rule):
    R2, R3 = (only_rule, only_rule) if only_rule else ("R07.2", "R07.3")
    fn = ctx.fn(SEL % "tournament::Tournament")
    paths = K.live(ctx.cpaths(fn))
    oks = [p for p in paths if K.outcome(p)[0] == "ok"]
    errs = [p for p in paths if K.outcome(p)[0] == "err"]
    other = [p for p in paths if K.outcome(p)[0] not in ("ok", "err")]
    ctx.check(len(oks) == 1, R2, "Tournament/one-success-path", "%d non-error return paths" % len(oks), fn.at())
    REDUCERS = ("Iterator::max", "Iterator::min", "Iterator::max_by", "Iterator::min_by", "Iterator::max_by_key", "Iterator::min_by_key", "Iterator::rev", "Iterator::map",
                "Iterator::next", "Iterator::last", "Iterator::nth", "Iterator::fold", "Iterator::reduce", "Iterator::filter", "Iterator::take", "Iterator::skip")
    the_max = None
    for p in oks:
        cm = K.calls_of(p, "IndexedRandom::choose_multiple", "IndexedRandom::choose", "IteratorRandom::choose_multiple", "Rng::random_range")
        good = len(cm) == 1 and callee_is(cm[0], "IndexedRandom::choose_multiple")
        if not good:
            ctx.bad(R2, "Tournament/sample-once", "expected exactly one choose_multiple call on the success path, found %d" % len(cm), fn.at())
            continue
        c = cm[0]
        src, rng, amount = c[3][0], c[3][1], c[3][2]
        ctx.check(callee_is(K.strip(src, calls=()), "AsRef::as_ref") and K.strip(src) == POP, R2, "Tournament/sample-source", "choose_multiple source = " + short(src), fn.at())
        ctx.check(rng == RNG, R2, "Tournament/sample-rng", "rng argument = " + short(rng), fn.at())
        ctx.check(_size_val(amount), R2, "Tournament/sample-amount", "amount = " + short(amount), fn.at())
        mx = K.calls_of(p, *REDUCERS)
        red_ok = len(mx) == 1 and callee_is(mx[0], "Iterator::max") and mx[0][3][0] == c
        folded = None
        if not red_ok and len(mx) == 2 and callee_is(mx[0], "Iterator::next") and callee_is(mx[1], "Iterator::fold") and len(mx[1][3]) == 3:
            # `max()` spelled out the way core defines it: take the first entrant, then fold the rest keeping the running best
            # only when it compares Greater than the challenger (ties go to the later one, exactly Iterator::max's rule)
            nx, fo = mx
            clo = fo[3][2]
            okf = K.strip(nx[3][0], calls=()) == c and K.strip(fo[3][0], calls=()) == c and K.strip(fo[3][1], calls=()) == ("field", nx, 0, "Some") and \
                clo[0] == "agg" and clo[1] == "closure"
            if okf:
                from .common import closure_paths
                qs = [q for q in (closure_paths(ctx, clo, canon=True) or []) if q.end != "unreachable"]
                keeps = {}
                okf = bool(qs)
                for q in qs:
                    cm_ = [x for x in q.conds if x[0][0] == "discr" and callee_is(x[0][1], "Ord::cmp")]
                    okf = okf and q.end == "return" and len(cm_) == 1 and len(q.calls()) == 1 and \
                        [K.strip(a, calls=())[:2] for a in cm_[0][0][1][3]] == [("cparam", 2), ("cparam", 3)] and K.strip(q.ret, calls=())[:2] in (("cparam", 2), ("cparam", 3))
                    if okf:
                        keeps[{255: -1, -1: -1, 0: 0, 1: 1}.get(cm_[0][1], cm_[0][1])] = K.strip(q.ret, calls=())[1]
                okf = okf and keeps == {-1: 3, 0: 3, 1: 2}
            red_ok = okf
            if okf:
                folded = (nx, fo)
        ctx.check(red_ok, R2, "Tournament/reduce-max", "reducers on path: " + ", ".join(short(m, 3) for m in mx), fn.at())
        if red_ok and folded is None:
            the_max = mx[0]
            pay = K.outcome(p)[1]
            ctx.check(pay == ("field", the_max, 0, "Some") and K.discr_is(p, lambda o: o == the_max, 1), R2, "Tournament/return", short(p.ret, 5), fn.at())
        elif red_ok:
            the_max = folded[0]            # the (dead) empty arm is next() == None on the non-empty sample
            pay = K.outcome(p)[1]
            ctx.check(pay is not None and K.strip(pay, calls=()) == folded[1] and K.discr_is(p, lambda o: K.strip(o, calls=()) == folded[0], 1), R2, "Tournament/return", short(p.ret, 5), fn.at())
        rl = K.rels(p)
        ctx.check(K.holds(rl, _pop_size, "Ge", _size_val) and not K.holds(rl, _pop_size, "Gt", _size_val), R3, "Tournament/guard-strict-on-success",
                  "; ".join("%s %s %s" % (short(a, 3), K.SYM[o], short(b, 3)) for a, o, b in rl), fn.at(),
                  bad_detail="the success path must be taken exactly when population.size() >= self.size (a tournament over the whole population is legal); relations on the path: " +
                  "; ".join("%s %s %s" % (short(a, 3), K.SYM[o], short(b, 3)) for a, o, b in rl))
        g = [x for x in p.conds if (K.rel_of(x) or (None,) * 3)[1] in ("Ge", "Le", "Lt", "Gt") and (_pop_size(K.rel_of(x)[0]) or _pop_size(K.rel_of(x)[2]))]
        if g:
            ctx.check(p.blocks.index(g[0][2]) < p.blocks.index(c[4][1]) if (g[0][2] in p.blocks and c[4][1] in p.blocks) else True, R3, "Tournament/guard-before-sample", "guard precedes sampling", fn.at())
    ctx.check(len(errs) >= 1, R3, "Tournament/error-path-exists", "%d error paths" % len(errs), fn.at())
    for p in errs:
        rl = K.rels(p)
        ctx.check(K.holds(rl, _pop_size, "Lt", _size_val) and len(rl) == 1, R3, "Tournament/error-iff-too-small",
                  "; ".join("%s %s %s" % (short(a, 3), K.SYM[o], short(b, 3)) for a, o, b in rl), fn.at())
        drew = K.calls_of(p, "IndexedRandom::choose_multiple", "IndexedRandom::choose", "Rng::random_range")
        ctx.check(not drew, R3, "Tournament/no-draw-on-error", "no sampling on the error path", fn.at())
    for p in other:
        # the only other way out: the (dead) None arm of max() over a non-empty sample
        dead = p.end == "diverge" and the_max is not None and K.discr_is(p, lambda o: o == the_max, 0)
        ctx.check(dead, R2, "Tournament/no-other-exit", "%s with [%s]" % (p.end, "; ".join(short(c[0], 3) for c in p.conds)), fn.at())
    ctx.floor(only_rule or "R07", len(oks) + len(errs), 2, "Tournament::select return paths")


def check_extreme(ctx, name, reducer, other):
    K.either(ctx, lambda c: check_extreme_legacy(c, name, reducer, other), lambda c: check_extreme_canon(c, name, reducer, other))


def check_tournament(ctx, only_rule):
    K.either(ctx, lambda c: check_tournament_legacy(c, only_rule), lambda c: check_tournament_canon(c, only_rule))
    check_order_and_constructors(ctx, only_rule)


def check_order_and_constructors(ctx, only_rule):
    """R07.4 (the order being maximised) and R07.5 (configured size = size used): not alternatives of anything,
    always evaluated"""
    if only_rule:
        real = ctx
        class _Proxy:
            def __getattr__(self, n):
                return getattr(real, n)
            def ok(self, rule, *a, **k):
                return real.ok(only_rule, *a, **k)
            def bad(self, rule, *a, **k):
                return real.bad(only_rule, *a, **k)
            def check(self, cond, rule, *a, **k):
                return real.check(cond, only_rule, *a, **k)
            def floor(self, rule, *a, **k):
                return real.floor(only_rule, *a, **k)
        ctx = _Proxy()
    # R07.4: the order being maximised
    from . import rules_c15
    rules_c15.check_order_impls(ctx, "R07.4", "ec_core::individual::ec::EcIndividual", "EcIndividual", "test_results", False)
    rules_c15.check_order_impls(ctx, "R07.4", rules_c15.TR + "TestResults", "TestResults", "total_result", False)
    rules_c15.check_order_impls(ctx, "R07.4", rules_c15.TR + "Error", "Error", 0, True)

    # R07.5: constructors
    from .ctors import check_table, value_of
    from .common import return_paths
    check_table(ctx, "C07", "R07.5")
    T = "ec_core::operator::selector::tournament::Tournament::"
    f = ctx.fn(T + "of_size")
    v = value_of(ctx, f)
    okv = v is not None and v[0] == "agg" and v[2].endswith("Tournament::Tournament") and len(v[3]) == 1 and v[3][0][0] == "const" and "of_size" in str(v[3][0][2]) and "constant" in str(v[3][0][2])
    ic = [g for g in ctx.F.fns.values() if g.kind == "InlineConst" and g.root == T + "of_size"]
    okc = len(ic) == 1
    if okc:
        ctx.fns_analysed.add(ic[0].id)
        rps = return_paths(ctx.paths(ic[0]))
        okc = len(rps) == 1 and match(rps[0].ret, Field(Call("NonZero::new", lambda e: e[0] == "const" and str(e[2]).strip() == "N", nargs=1), 0, "Some"))
    ctx.check(okv and okc, "R07.5", "Tournament::of_size::<N>-stores-NonZero::new(N)", short(v, 5) if v is not None else "-", f.at(),
              bad_detail="of_size::<N>() must be Tournament::new(NonZeroUsize::new(N) payload); extracted %s with inline constant %s" % (
                  short(v, 6) if v is not None else "-", "; ".join(short(p.ret, 6) for g in ic for p in return_paths(ctx.paths(g)))))
    f = ctx.fn(T + "binary")
    ps = return_paths(ctx.paths(f))
    ctx.check(len(ps) == 1 and len(ctx.paths(f)) == 1 and ps[0].ret[0] == "call" and str(ps[0].ret[2]).endswith("Tournament::of_size::<2>") and len(ps[0].calls()) == 1, "R07.5",
              "Tournament::binary=of_size::<2>", str(ps[0].ret[2]) if ps and ps[0].ret[0] == "call" else (short(ps[0].ret, 5) if ps else "-"), f.at(),
              bad_detail="binary() must be of_size::<2>(); extracted " + (str(ps[0].ret[2]) if ps and ps[0].ret[0] == "call" else (short(ps[0].ret, 6) if ps else "-")))


def check(ctx):
    check_extreme(ctx, "best::Best", "Iterator::max", "Iterator::min")
    check_extreme(ctx, "worst::Worst", "Iterator::min", "Iterator::max")
    check_tournament(ctx, None)
    from .common import check_population_size
    check_population_size(ctx, "R07.3")


