"""C04 - The bounded stack is a faithful, all-or-nothing LIFO."""
from .pat import ANY, Bind, Call, Param, CParam, Field, Through, Agg, Const, BinOp, match, find, callee_is, path_ends
from .sym import short, subexprs
from .common import (site_is, TryOk, TryErr, is_err_return, return_paths, peel, mentions, derives_from_self, closure_paths, cond_str, self_field,
                     audit_panics, CallGraph)

META = {
    "level": "other",
    "explanation": (
        "Static rule conformance on the MIR of every Stack<T> operation in push_vm/stack.rs. Decided: (R04.1) every growth of Stack::values is behind a capacity guard that is an "
        "*inequality* with the exact threshold (push rejects iff len >= max, push_many iff len + n > max or the sum overflows, try_extend iff an item remains after max - len were taken) "
        "and the guard helper is_full is the same inequality - an ==/!= guard does not imply room because set_max_stack_size writes max unconditionally (shown by R04.2); "
        "(R04.2) values and max_stack_size are private, values is only touched inside Stack's own impls, max_stack_size is written only by set_max_stack_size/default, no method hands out "
        "&mut Vec; (R04.3) pop2/pop3/discard compare the size with their arity before the first removal and report Underflow{requested = arity, present = size}; top* take &self; "
        "(R04.4) order: top = last, top2 = (last, len-2), top3 = (last, len-2, len-3), popN tuples follow pop order, push_many extends with the reversed iterator, try_extend extends, then "
        "reverses exactly the new tail or truncates back to the saved length on overflow, discard(n) pops n times; (R04.5) panic audit of the stack API. NOT decided: histories of arbitrary "
        "length (follow from the per-operation clauses by induction, argued) and Vec's own correctness. R04.2 also reports any whole-value overwrite of an existing Stack<_> outside Stack's own impls (assignment through a reference or into a field, mem::take/replace/swap): it replaces max_stack_size together with the values; Stack::default is the unbounded empty stack."),
    "rules": {
        "R04.1": "capacity guards are inequalities with exact thresholds (push, is_full, push_many, try_extend); failing insertions write nothing (or roll back)",
        "R04.2": "field ownership: private fields; writers of values / max_stack_size; no &mut Vec escape",
        "R04.3": "all-or-nothing removal: size >= arity dominates the first pop; Underflow payloads; top* take &self",
        "R04.4": "LIFO order of top/top2/top3/pop2/pop3/push_many/try_extend/discard; each operation hands self.values out mutably only to the calls it is built from",
        "R04.5": "panic-site audit (A8) of the stack API",
        "R04.6": "inventory of &mut self operations in Stack's impls: each is decided by R04.1-R04.4 or is all-or-nothing by construction (at most one mutating call per path, none in a loop or per-element closure); an unknown operation reachable from outside changes the storage only through the decided operations; no inherent method hides a TryExtend method",
    },
    "trusted_base": ["std Vec::push/pop/extend/truncate/last/get/len, slice::reverse, Iterator::rev/take", "uecfacts driver + uecheck rule engine"],
    "assumptions": [],
    "not_decided": ["arbitrary-length histories (induction over per-operation clauses, argued)"],
}

S = "push::push_vm::stack::Stack::<T>::"
SADT = "push::push_vm::stack::Stack"
TE = "<push::push_vm::stack::Stack<A> as collectable::TryExtend<A>>::try_extend"


def is_values(e):
    e = peel(e, ("Deref::deref", "DerefMut::deref_mut"))
    return e[0] == "field" and e[2] == "values" and peel(e[1], ()) == ("param", 1)


def is_size(e):
    e = peel(e, ())
    if callee_is(e, "Stack::size") and peel(e[3][0], ()) == ("param", 1):
        return True
    return callee_is(e, "Vec::len", "[T]::len") and is_values(e[3][0])


def is_max(e):
    e = peel(e, ())
    if callee_is(e, "Stack::max_stack_size") and peel(e[3][0], ()) == ("param", 1):
        return True
    return e[0] == "field" and e[2] == "max_stack_size" and peel(e[1], ()) == ("param", 1)


_IS_FULL_EXPR = {}


def full_relation(e, truth, a_pred=is_size, b_pred=is_max):
    """classify a comparison between a (size-like) and b (max-like) taken with `truth`:
    returns 'a>=b', 'a<b', 'a==b', 'a!=b', 'a>b', 'a<=b' or None.
    A call of the helper `self.is_full()` stands for the comparison that helper returns."""
    if callee_is(e, "Stack::is_full") and peel(e[3][0], ()) == ("param", 1) and _IS_FULL_EXPR.get("e") is not None and a_pred is is_size and b_pred is is_max:
        return full_relation(_IS_FULL_EXPR["e"], truth)
    if e[0] == "unop" and e[1] == "Not":
        return full_relation(e[2], not truth, a_pred, b_pred)
    if e[0] != "binop":
        return None
    op, x, y = e[1], e[2], e[3]
    if a_pred(x) and b_pred(y):
        rel = op
    elif a_pred(y) and b_pred(x):
        rel = {"Lt": "Gt", "Gt": "Lt", "Le": "Ge", "Ge": "Le", "Eq": "Eq", "Ne": "Ne"}.get(op)
    else:
        return None
    pos = {"Ge": "a>=b", "Lt": "a<b", "Eq": "a==b", "Ne": "a!=b", "Gt": "a>b", "Le": "a<=b"}
    neg = {"Ge": "a<b", "Lt": "a>=b", "Eq": "a!=b", "Ne": "a==b", "Gt": "a<=b", "Le": "a>b"}
    return (pos if truth else neg).get(rel)


def overflow_err(p):
    return is_err_return(p) and any(x[0] == "agg" and path_ends(x[2], "StackError::Overflow") for x in subexprs(p.ret))


def underflow_err(p):
    for x in subexprs(p.ret) if p.ret is not None else []:
        if x[0] == "agg" and path_ends(x[2], "StackError::Underflow"):
            return x
    return None


def _values_slice(e):
    """`values` seen as a slice: self.values, &self.values[..], self.values.as_slice(), *self.values (Deref)"""
    e = peel(e, ("Vec::as_slice", "Deref::deref", "AsRef::as_ref", "Borrow::borrow"))
    return is_values(e)


def rev_iter_nexts(p):
    """the next() calls on `values.iter().rev()` along a path, in order: the j-th yields the element at distance j+1 from the end"""
    out = []
    for c in p.calls():
        if callee_is(c, "Iterator::next") and len(c[3]) == 1:
            it = peel(c[3][0], ())
            if callee_is(it, "Iterator::rev") and len(it[3]) == 1:
                src = peel(it[3][0], ())
                if callee_is(src, "[T]::iter") and _values_slice(src[3][0]) and c not in out:
                    out.append(c)
    return out


def from_end_offset(e, k, nexts=()):
    """distance from the end of `values` (1 = top) that the component expression `e` of topK addresses, or None"""
    e0 = e
    y = peel(e, ())
    if y[0] == "field" and y[2] == 0 and y[3] == "Some" and y[1] in nexts:
        return list(nexts).index(y[1]) + 1
    if match(e, TryOk(Call("Stack::top", Through(Param(1)), nargs=1))):
        return 1
    x = peel(e, ())
    m = x
    # Option-returning accessors behind `?` / ok_or
    for wrap in (TryOk(Call(("Option::ok_or_else", "Option::ok_or"), Bind("o", ANY))),):
        b = {}
        if match(e, wrap, b):
            m = peel(b["o"], ())
            break
    if callee_is(m, "[T]::last", "Vec::last") and _values_slice(m[3][0]):
        return 1
    if callee_is(m, "[T]::get") and _values_slice(m[3][0]):
        idx = peel(m[3][1], ())
        base = TryOk(Call(("Option::ok_or_else", "Option::ok_or"), Call("usize::checked_sub", is_size, Const(k), nargs=2)))
        if match(idx, base):
            return k
        if idx[0] == "field" and idx[1][0] == "binop":   # (a + c).0 of AddWithOverflow
            idx = idx[1]
        if idx[0] == "binop" and idx[1] in ("Add", "AddWithOverflow") and match(idx[2], base) and idx[3][0] == "const" and isinstance(idx[3][3], int) and 0 <= idx[3][3] < k:
            return k - idx[3][3]
        return None
    # slice pattern: &values[-j]
    while x[0] in ("ref", "deref"):
        x = x[1]
    if x[0] == "index" and x[2][0] == "const" and isinstance(x[2][3], int) and x[2][3] < 0 and _values_slice(x[1]):
        return -x[2][3]
    return None


def len_lt_k(cond, val, k):
    """path condition (cond == val) that establishes len(values) < k"""
    truth = val != 0 if not isinstance(val, tuple) else True
    if isinstance(val, tuple):      # ('not', (0,)) = true
        truth = True
    e = cond
    neg = False
    while e[0] == "unop" and e[1] == "Not":
        e = e[2]
        neg = not neg
    if neg:
        truth = not truth
    if e[0] != "binop":
        return False
    op, a, b = e[1], e[2], e[3]

    def is_len(z):
        z = peel(z, ())
        return is_size(z) or (z[0] == "len" and _values_slice(z[1]))
    if is_len(a) and b[0] == "const" and b[3] == k:
        return (op == "Lt" and truth) or (op == "Ge" and not truth)
    if is_len(b) and a[0] == "const" and a[3] == k:
        return (op == "Gt" and truth) or (op == "Le" and not truth)
    return False


def hands_out_values_mutably(a):
    mutable = False
    while isinstance(a, tuple) and a:
        if a[0] == "ref":
            mutable = mutable or (len(a) > 2 and bool(a[2]))
            if mutable and is_values(a[1]):
                return True
            a = a[1]
        elif a[0] in ("deref",):
            a = a[1]
        elif a[0] == "cast" and len(a) > 2:
            a = a[2]
        elif a[0] == "call" and a[3] and callee_is(a, "DerefMut::deref_mut", "IndexMut::index_mut", "Vec::as_mut_slice", "[T]::get_mut", "[T]::split_at_mut", "Option::unwrap", "Option::expect"):
            mutable = True
            a = a[3][0]
        else:
            break
    return False


def topk_last_chunk(ctx, f, k):
    """top-k through `values.last_chunk::<k>()` (std: Some(the last k elements, in order) exactly when len >= k):
    returns (components are chunk[k-1], chunk[k-2], .., chunk[0] = top first; too few -> Underflow{k, size}) or None when
    the function is not of that shape"""
    import re
    from . import ckit as K
    paths = K.live(ctx.cpaths(f))
    lcs = {K.strip(c, calls=()) for p in paths for c in p.calls() if callee_is(c, "[T]::last_chunk")}
    if len(lcs) != 1 or len(paths) != 2:
        return None
    lc = list(lcs)[0]
    m = re.search(r"last_chunk::<(\d+)(?:_usize)?>\s*$", lc[2] or "")
    if not (m and int(m.group(1)) == k and len(lc[3]) == 1 and _values_slice(lc[3][0])):
        return None
    order_ok = under_ok = False
    for p in paths:
        if [c for c in p.calls() if not callee_is(c, "[T]::last_chunk", "Deref::deref", "Stack::size", "Vec::len", "Vec::as_slice")]:
            return None
        kind, pay = K.outcome(p)
        if K.discr_is(p, lambda o: K.strip(o, calls=()) == lc, 1):
            comps = pay[3] if (kind == "ok" and pay is not None and pay[0] == "agg" and pay[1] == "tuple") else ()
            idx = []
            for c in comps:
                c = K.strip(c, calls=())
                if c[0] == "index" and K.strip(c[1], calls=()) == ("field", lc, 0, "Some") and c[2][0] == "const" and isinstance(c[2][-1], int):
                    idx.append(c[2][-1])
                elif c[0] == "field" and K.strip(c[1], calls=()) == ("field", lc, 0, "Some") and isinstance(c[2], int):
                    idx.append(c[2])
                else:
                    idx.append(None)
            order_ok = len(comps) == k and idx == list(range(k - 1, -1, -1))
        elif K.discr_is(p, lambda o: K.strip(o, calls=()) == lc, 0):
            u = K.conv_free(pay) if pay is not None else None
            under_ok = kind == "err" and u is not None and match(u, Agg("StackError::Underflow", Const(k), lambda e: is_size(e)))
    return (order_ok, under_ok)


def grows(p):
    return [c for c in p.calls() if callee_is(c, "Vec::push", "Extend::extend", "Vec::extend", "Vec::insert", "Vec::append", "Vec::extend_from_slice", "Vec::resize")]


def check(ctx):
    from .common import shadowing_audit
    ctx.floor('R04.6', shadowing_audit(ctx, 'R04.6', ('collectable::',)), 1, 'TryExtend impls of Stack (shadowing audit)')
    from .ctors import check_table
    check_table(ctx, "C04", "R04.2")
    F = ctx.F
    # ================= R04.1 =================================================
    # the helper is_full(): remembered so that `if self.is_full()` in push is read as the comparison it stands for
    fi = ctx.fn(S + "is_full")
    pi = return_paths(ctx.paths(fi))
    _IS_FULL_EXPR["e"] = pi[0].ret if len(pi) == 1 and not pi[0].calls()[1:] else None
    # push
    f = ctx.fn(S + "push")
    paths = [p for p in ctx.paths(f) if p.end != "unreachable"]
    okp = [p for p in paths if not is_err_return(p)]
    erp = [p for p in paths if is_err_return(p)]
    for p in okp:
        rels = [full_relation(c[0], c[1] != 0) for c in p.conds]
        rels = [r for r in rels if r]
        g = grows(p)
        shape = len(g) == 1 and callee_is(g[0], "Vec::push") and is_values(g[0][3][0]) and g[0][3][1] == ("param", 2)
        ctx.check(shape, "R04.4", "push/appends-value-to-values", ", ".join(short(c, 3) for c in g), f.at())
        ctx.check("a<b" in rels, "R04.1", "push/guard-is-inequality", "success path conditions: " + cond_str(p), f.at(),
                  bad_detail="Stack::push grows the vector under [%s]: this does not establish size < max_stack_size. An ==/!= test lets a push succeed when the stack already holds more "
                             "than max_stack_size elements (set_max_stack_size can lower the maximum below the current size), leaving the stack larger than its maximum" % cond_str(p))
    for p in erp:
        rels = [r for r in (full_relation(c[0], c[1] != 0) for c in p.conds) if r]
        ctx.check(overflow_err(p) and not grows(p) and not [e for e in p.events if e[0] == "write"] and ("a>=b" in rels or "a==b" in rels), "R04.1", "push/overflow-reported-without-write",
                  cond_str(p) + " -> " + short(p.ret, 4), f.at())
    ctx.floor("R04.1", len(okp) + len(erp), 2, "push paths")
    # is_full
    f = ctx.fn(S + "is_full")
    ps = return_paths(ctx.paths(f))
    rel = full_relation(ps[0].ret, True) if len(ps) == 1 else None
    ctx.check(rel == "a>=b", "R04.1", "is_full/guard-is-inequality", short(ps[0].ret) if ps else "-", f.at(),
              bad_detail="is_full must be size >= max_stack_size: it is the capacity pre-check of the predicate instructions, and with `%s` an over-full stack (maximum lowered below the "
                         "current size) is reported as not full" % (short(ps[0].ret) if ps else "-"))
    # push_many
    from . import ckit as _Kp
    _Kp.either(ctx, push_many_legacy, push_many_room)
    # try_extend
    f = ctx.fn(TE)
    try_extend_rules(ctx, f)


def push_many_room(ctx):
    """the same clauses when the capacity test is spelled through the remaining room: `match max.checked_sub(size) { Some(room)
    if n <= room => extend, _ => Err(Overflow) }` - accepted exactly when size <= max and n <= max - size, i.e. n + size <= max
    without overflow; rejected otherwise, without touching the vector"""
    from . import ckit as K
    f = ctx.fn(S + "push_many")
    paths = K.live(ctx.cpaths(f))
    it = lambda e: match(peel(e, ()), Call("IntoIterator::into_iter", Param(2), nargs=1))
    is_n = lambda e: callee_is(K.strip(e, calls=()), "ExactSizeIterator::len") and it(K.strip(e, calls=())[3][0])
    is_room = lambda e: K.strip(e, calls=())[0] == "binop" and K.strip(e, calls=())[1] == "Sub" and is_max(K.strip(e, calls=())[2]) and is_size(K.strip(e, calls=())[3])
    n_acc = 0
    for p in paths:
        rl = K.rels(p, norm=lambda e: e)
        fits = K.holds(rl, is_max, "Ge", is_size) and K.holds(rl, is_n, "Le", is_room)
        too_big = K.holds(rl, is_max, "Lt", is_size) or (K.holds(rl, is_max, "Ge", is_size) and K.holds(rl, is_n, "Gt", is_room))
        if is_err_return(p):
            ctx.check(too_big and not fits and overflow_err(p) and not grows(p), "R04.1", "push_many/rejects-iff-len+n>max(or-overflow)-without-write", cond_str(p)[:200] + " -> " + short(p.ret, 4), f.at(),
                      bad_detail="push_many must reject exactly when size > max or n > max - size and must not touch the vector; extracted [%s]" % cond_str(p)[:300])
        else:
            n_acc += 1
            g = grows(p)
            shape = len(g) == 1 and callee_is(g[0], "Extend::extend", "Vec::extend") and is_values(g[0][3][0]) and match(g[0][3][1], Call("Iterator::rev", it, nargs=1))
            # the length is read before the iterator is consumed
            cs = p.calls()
            lens = [c for c in cs if is_n(c)]
            ctx.check(fits and not too_big and bool(lens) and bool(g) and cs.index(lens[0]) < cs.index(g[0]), "R04.1", "push_many/grows-only-when-len+n<=max", cond_str(p)[:200], f.at(),
                      bad_detail="the extension is not guarded by size <= max and n <= max - size: [%s]" % cond_str(p)[:300])
            ctx.check(shape, "R04.4", "push_many/extends-with-reversed-iterator(first-supplied-on-top)", ", ".join(short(c, 4) for c in g), f.at(),
                      bad_detail="push_many must be values.extend(iter.rev()) so that the first supplied value ends on top; extracted " + ", ".join(short(c, 5) for c in g))
    ctx.floor("R04.1", len(paths), 2, "push_many paths")
    ctx.check(n_acc >= 1, "R04.1", "push_many/has-an-accepting-path", "%d" % n_acc, f.at())


def push_many_legacy(ctx):
    f = ctx.fn(S + "push_many")
    paths = [p for p in ctx.paths(f) if p.end != "unreachable"]
    it = lambda e: match(peel(e, ()), Call("IntoIterator::into_iter", Param(2), nargs=1))
    for p in paths:
        gc = [c for c in p.conds if callee_is(c[0], "Option::is_none_or")]
        ok_guard = False
        if len(gc) == 1:
            g = gc[0][0]
            summ = g[3][0]
            ok_guard = match(summ, Call("usize::checked_add", ANY, ANY, nargs=2)) and \
                ((callee_is(peel(summ[3][0], ()), "ExactSizeIterator::len") and it(peel(summ[3][0], ())[3][0]) and is_size(summ[3][1])) or
                 (callee_is(peel(summ[3][1], ()), "ExactSizeIterator::len") and it(peel(summ[3][1], ())[3][0]) and is_size(summ[3][0])))
            clo = g[3][1]
            cps = closure_paths(ctx, clo) if clo[0] == "agg" and clo[1] == "closure" else None
            strict = False
            if cps and len(cps) == 1:
                r = cps[0].ret
                strict = (r[0] == "binop" and r[1] == "Gt" and r[2][:2] == ("cparam", 2) and is_max(r[3])) or \
                         (r[0] == "binop" and r[1] == "Lt" and r[3][:2] == ("cparam", 2) and is_max(r[2]))
            ok_guard = ok_guard and strict
            rejecting = gc[0][1] != 0
        else:
            rejecting = None
        if is_err_return(p):
            ctx.check(ok_guard and rejecting and overflow_err(p) and not grows(p), "R04.1", "push_many/rejects-iff-len+n>max(or-overflow)-without-write", cond_str(p)[:200] + " -> " + short(p.ret, 4), f.at(),
                      bad_detail="push_many must reject exactly when checked_add(iter.len(), size) is None or > max_stack_size and must not touch the vector; extracted [%s]" % cond_str(p)[:300])
        else:
            g = grows(p)
            shape = len(g) == 1 and callee_is(g[0], "Extend::extend", "Vec::extend") and is_values(g[0][3][0]) and match(g[0][3][1], Call("Iterator::rev", it, nargs=1))
            ctx.check(ok_guard and rejecting is False, "R04.1", "push_many/grows-only-when-len+n<=max", cond_str(p)[:200], f.at(),
                      bad_detail="the extension is not guarded by !(len + n > max): [%s]" % cond_str(p)[:300])
            ctx.check(shape, "R04.4", "push_many/extends-with-reversed-iterator(first-supplied-on-top)", ", ".join(short(c, 4) for c in g), f.at(),
                      bad_detail="push_many must be values.extend(iter.rev()) so that the first supplied value ends on top; extracted " + ", ".join(short(c, 5) for c in g))
    ctx.floor("R04.1", len(paths), 2, "push_many paths")


def try_extend_rules(ctx, f):
    """the remaining rules of check() (try_extend, pop/top family, discard, ...)"""
    F = ctx.F
    paths = [p for p in ctx.paths(f) if p.end != "unreachable"]
    for p in paths:
        cs = p.calls()
        saved = [c for c in cs if callee_is(c, "Vec::len") and is_values(c[3][0])]
        ext = [c for c in cs if callee_is(c, "Extend::extend", "Vec::extend")]
        ok = len(ext) == 1 and bool(saved) and is_values(ext[0][3][0])
        if ok:
            src = ext[0][3][1]
            room = Call("usize::saturating_sub", is_max, lambda e: e == saved[0], nargs=2)
            ok = match(src, Call("Iterator::take", Through(Param(2)), room, nargs=2)) and cs.index(saved[0]) < cs.index(ext[0])
        ctx.check(ok, "R04.1", "try_extend/takes-at-most-max-len-items/%s" % ("err" if is_err_return(p) else "ok"), ", ".join(short(c, 5) for c in ext), f.at(),
                  bad_detail="try_extend must extend with iter.take(max_stack_size.saturating_sub(saved_len)); extracted " + ", ".join(short(c, 6) for c in ext))
        probe = [c for c in p.conds if callee_is(c[0], "Option::is_some") and callee_is(peel(c[0][3][0], ()), "Iterator::next") and peel(peel(c[0][3][0], ())[3][0], ()) == ("param", 2)]
        nprobe = [c for c in p.conds if callee_is(c[0], "Option::is_none") and callee_is(peel(c[0][3][0], ()), "Iterator::next")]
        more = (probe and probe[0][1] != 0) or (nprobe and nprobe[0][1] == 0)
        if is_err_return(p):
            tr = [c for c in cs if callee_is(c, "Vec::truncate")]
            okr = overflow_err(p) and bool(more) and len(tr) == 1 and is_values(tr[0][3][0]) and saved and tr[0][3][1] == saved[0] and ext and cs.index(ext[0]) < cs.index(tr[0]) and \
                not any(callee_is(c, "[T]::reverse") for c in cs)
            ctx.check(okr, "R04.1", "try_extend/overflow-iff-item-remains-rolls-back-to-saved-len", cond_str(p)[:160] + " ; " + ", ".join(short(c, 3) for c in tr), f.at(),
                      bad_detail="on overflow try_extend must truncate(values, saved_len) (saved before the extension) and report Overflow; extracted truncates: " + ", ".join(short(c, 5) for c in tr))
        else:
            rv = [c for c in cs if callee_is(c, "[T]::reverse")]
            probed = bool(probe or nprobe) and not more
            ctx.check(probed, "R04.1", "try_extend/success-only-after-probing-that-no-item-remains", cond_str(p)[:200], f.at(),
                      bad_detail="try_extend returns Ok on a path that has not established that the iterator is exhausted (next() == None): remaining items would be dropped silently instead of "
                                 "reporting Overflow; conditions on that path: [%s]" % cond_str(p)[:300])
            okr = len(rv) == 1
            if okr:
                tgt = peel(rv[0][3][0], ())
                okr = callee_is(tgt, "IndexMut::index_mut") and is_values(tgt[3][0]) and match(tgt[3][1], Agg("RangeFrom::RangeFrom", lambda e: e == saved[0])) and cs.index(ext[0]) < cs.index(rv[0])
                if not okr and tgt[0] == "field" and tgt[2] == 1 and callee_is(peel(tgt[1], ()), "[T]::split_at_mut"):
                    # values.split_at_mut(saved_len).1 is values[saved_len..] (std: the second half starts at `mid`)
                    sp = peel(tgt[1], ())
                    okr = len(sp[3]) == 2 and is_values(peel(sp[3][0], ("DerefMut::deref_mut", "Vec::as_mut_slice"))) and sp[3][1] == saved[0] and cs.index(ext[0]) < cs.index(rv[0])
            ctx.check(okr, "R04.4", "try_extend/reverses-exactly-the-new-tail", ", ".join(short(c, 5) for c in rv), f.at(),
                      bad_detail="on success try_extend must reverse values[saved_len..] (so that the first supplied value is on top); extracted " + ", ".join(short(c, 6) for c in rv))
    ctx.floor("R04.1", len(paths), 2, "try_extend paths")

    # ================= R04.2 ownership =================================================
    adt = F.adts.get(SADT)
    flds = {x["name"]: x for x in adt["variants"][0]["fields"]} if adt else {}
    ctx.check(set(flds) == {"max_stack_size", "values"} and all(v["vis"] == "in:push::push_vm::stack" for v in flds.values()), "R04.2", "fields-private",
              str({k: v["vis"] for k, v in flds.items()}), adt["span"]["at"] if adt else None)
    own = lambda fid: fid.startswith("push::push_vm::stack::Stack::<T>::") or fid.startswith("<push::push_vm::stack::Stack<")
    w_max, w_val, ctors = set(), set(), set()
    for fn in F.fns.values():
        for bb in fn.blocks:
            for st in bb["stmts"]:
                if st["k"] != "assign":
                    continue
                for e in st["lhs"]["p"]:
                    if isinstance(e, dict) and e.get("adt") == SADT:
                        (w_max if e.get("name") == "max_stack_size" else w_val).add(fn.id)
                rv = st["rv"]
                if rv["k"] == "ref" and rv["mut"]:
                    for e in rv["place"]["p"]:
                        if isinstance(e, dict) and e.get("adt") == SADT:
                            (w_max if e.get("name") == "max_stack_size" else w_val).add(fn.id)
                if rv["k"] == "agg" and rv.get("adt") == SADT:
                    ctors.add(fn.id)
    ctx.check(w_max == {S + "set_max_stack_size"}, "R04.2", "max_stack_size-written-only-by-set_max_stack_size", str(sorted(w_max)), None,
              bad_detail="writers of max_stack_size: %s" % sorted(w_max))
    ctx.check(all(own(x) for x in w_val) and len(w_val) >= 4, "R04.2", "values-mutated-only-in-Stack-impls", "%d functions: %s" % (len(w_val), sorted(x.split("::")[-1] for x in w_val)), None,
              bad_detail="functions outside Stack's impls touching `values` mutably: %s" % sorted(x for x in w_val if not own(x)))
    # whole-value overwrites of an existing Stack<_> (through a reference or into a field) replace values AND
    # max_stack_size at once: `*state.stack_mut::<T>() = Stack::default()`, mem::take/replace/swap on &mut Stack<_>
    def _lhs_ty(fn, pl):
        ty = fn.locals[pl["l"]]["ty"].get("s", "")
        for e in pl["p"]:
            if e == "deref":
                for pre in ("&mut ", "&"):
                    if ty.startswith(pre):
                        ty = ty[len(pre):]
                        break
                else:
                    if ty.startswith("std::boxed::Box<"):
                        ty = ty[len("std::boxed::Box<"):-1]
                    else:
                        return None
                if ty.startswith("'"):
                    ty = ty.split(" ", 1)[-1]
                    if ty.startswith("mut "):
                        ty = ty[4:]
            elif isinstance(e, dict) and "f" in e:
                ty = e.get("ty") or ""
            elif isinstance(e, dict) and "dc" in e:
                continue
            else:
                return None
        return ty
    is_stack_ty = lambda t: bool(t) and (t.startswith("push::push_vm::stack::Stack<") or t.startswith("Stack<"))
    overwrites = []
    for fn in F.fns.values():
        if own(fn.id):
            continue
        for bi, bb in enumerate(fn.blocks):
            for st in bb["stmts"]:
                if st["k"] == "assign" and st["lhs"]["p"] and is_stack_ty(_lhs_ty(fn, st["lhs"])):
                    overwrites.append((fn.id, "assignment", (st.get("span") or {}).get("at")))
            t = bb.get("term") or {}
            if t.get("k") == "call":
                cal = t.get("fn") or ""
                if cal.split("::")[-1] in ("swap", "replace", "take") and "mem::" in cal and is_stack_ty(((t.get("targs") or [{}])[0]).get("s", "")):
                    overwrites.append((fn.id, cal.split("::")[-1], (t.get("span") or {}).get("at")))
    ctx.check(not overwrites, "R04.2", "no-whole-Stack-overwrite-outside-Stack-impls", "0 assignments / mem::take|replace|swap on an existing Stack<_> in %d functions" % len(F.fns), None,
              bad_detail="an existing Stack<_> is replaced as a whole (its max_stack_size is overwritten with it, so the configured bound is lost): %s" % "; ".join("%s in %s at %s" % (k, f_, a) for f_, k, a in overwrites))
    ok_ctors = all(own(x) or "as std::clone::Clone>::clone" in x for x in ctors)
    ctx.check(ok_ctors and any("Default>::default" in x for x in ctors), "R04.2", "constructed-only-by-default/clone", str(sorted(x[-60:] for x in ctors)))
    f = ctx.fn(S + "set_max_stack_size")
    ps = return_paths(ctx.paths(f))
    wr = [e for e in ps[0].events if e[0] == "write"] if len(ps) == 1 else []
    ctx.check(len(ps) == 1 and not ps[0].conds and len(wr) == 1 and is_max(wr[0][1]) and wr[0][2] == ("param", 2) and f.pub, "R04.2", "set_max_stack_size-is-public-unconditional-write",
              "max_stack_size := p2 with no guard (so size <= max is NOT an invariant of the type)", f.at())
    import re
    leaks = [fn.id for fn in F.fns.values() if own(fn.id) and fn.sig and "->" in fn.sig and
             re.search(r"&('[A-Za-z_0-9]+ )?mut (std::vec::Vec|\[)", fn.sig.split("->")[-1])]
    ctx.check(not leaks, "R04.2", "no-method-returns-&mut-Vec", str(leaks))

    # ---- R04.6: inventory of the operations that can change a stack ---------------------------------
    # every function in Stack's own impls that takes `&mut self` is either one of the operations the rules above
    # decide individually, or must be all-or-nothing by construction: on each path at most one call of a fallible
    # mutating operation, none inside a loop or a closure handed to an iterator adaptor (a second fallible step after
    # a first successful one is exactly the partial-insertion / partial-removal bug class)
    KNOWN_MUT = {"push", "pop", "pop2", "pop3", "discard", "push_many", "set_max_stack_size"}
    MUTCALLS = ("Stack::push", "Stack::push_many", "Stack::pop", "Stack::pop2", "Stack::pop3", "Stack::discard", "TryExtend::try_extend", "TryExtend::try_extend_from_slice",
                "Vec::push", "Vec::pop", "Vec::extend", "Extend::extend", "Vec::truncate", "Vec::clear", "Vec::insert", "Vec::remove", "Vec::swap_remove", "Vec::drain", "Vec::retain",
                "Vec::append", "Vec::extend_from_slice", "Vec::resize", "Vec::split_off", "Vec::dedup", "[T]::reverse", "[T]::swap", "[T]::sort", "[T]::rotate_left", "[T]::rotate_right")
    n_mut = 0
    for fn in sorted(F.fns.values(), key=lambda f: f.id):
        if not own(fn.id) or fn.is_closure or fn.kind == "InlineConst":
            continue
        t1 = (fn.locals[1]["ty"].get("s", "") if fn.argc >= 1 else "")
        if not (t1.startswith("&mut ") and "Stack<" in t1) and not (t1.startswith("&") and " mut " in t1.split("Stack<")[0] and "Stack<" in t1):
            continue
        if (fn.span or {}).get("exp"):
            continue            # derive-generated (Clone::clone_from ...)
        n_mut += 1
        short_name = fn.id.rsplit("::", 1)[-1]
        if (fn.id.startswith(S) and short_name in KNOWN_MUT) or fn.id == TE:
            ctx.ok("R04.6", "mutator/%s/decided-by-its-own-rules" % short_name, "R04.1/R04.3/R04.4", fn.at())
            continue
        ctx.fns_analysed.add(fn.id)
        bad = None
        fam = [fn] + [F.fns[c] for c in F.closures_of(fn.id) if c in F.fns]
        for g in fam:
            for p in ctx.paths(g):
                mc = [c for c in p.calls() if callee_is(c, *MUTCALLS)]
                if g.is_closure and mc:
                    bad = "calls %s inside a closure (applied per element by an iterator adaptor)" % short(mc[0], 2)
                elif len(mc) > 1:
                    bad = "makes %d mutating calls on one path (%s)" % (len(mc), ", ".join(short(c, 1) for c in mc[:3]))
                elif mc and p.end.startswith("loop:"):
                    bad = "calls %s inside a loop" % short(mc[0], 2)
        # an operation the rules do not know, reachable from outside (public, or a trait method such as an overridden
        # provided method of TryExtend / Extend / Default): it may change the storage only *through* the operations decided
        # above - a direct mutable access to self.values has no capacity guard, order clause or roll-back that anything checked
        if bad is None and (fn.pub or fn.trait_item):
            direct = sorted({short(c, 3) for g in fam for p in ctx.paths(g) if p.end != "unreachable" for c in p.calls()
                             if c[3] and any(hands_out_values_mutably(a) for a in c[3]) and
                             not callee_is(c, "Vec::reserve", "Vec::reserve_exact", "Vec::shrink_to_fit", "Vec::shrink_to", "Vec::try_reserve", "Vec::try_reserve_exact")})
            if direct:
                bad = "changes self.values directly (%s) instead of through push / push_many / try_extend / pop* / discard, whose guards and order the rules decide" % ", ".join(direct)
        ctx.check(bad is None, "R04.6", "mutator/%s/all-or-nothing-by-construction" % fn.id.replace(" ", ""), "at most one mutating call per path, none repeated", fn.at(),
                  bad_detail="%s is an operation on the stack that the rules do not know; it %s, so a failure after a partial change is possible (every operation must succeed completely or leave the contents as they were)" % (fn.id, bad))
    ctx.floor("R04.6", n_mut, 8, "&mut self operations in Stack's impls")

    # ---- R04.4: nothing else happens to the storage ------------------------------------------------------------------
    # The clauses of each operation pin the change it is meant to make (one push, one pop, extend + reverse of the tail...).
    # Here: on no path of a known operation is `self.values` handed out mutably to anything *besides* the kind of call that
    # operation is built from - a `reverse()` after the push, a `swap` after the pop, a `sort` anywhere are changes of the
    # contents that no clause above looks at.
    CAPACITY_ONLY = ("Vec::reserve", "Vec::reserve_exact", "Vec::shrink_to_fit", "Vec::shrink_to", "Vec::try_reserve", "Vec::try_reserve_exact")
    BUILT_FROM = {
        "push": ("Vec::push",), "pop": ("Vec::pop",), "pop2": ("Vec::pop",), "pop3": ("Vec::pop",), "discard": ("Vec::pop", "Vec::truncate"),
        "push_many": ("Vec::extend", "Extend::extend", "Vec::push"), "set_max_stack_size": (),
        "try_extend": ("Vec::extend", "Extend::extend", "Vec::push", "Vec::truncate", "[T]::reverse", "IndexMut::index_mut", "DerefMut::deref_mut", "Vec::as_mut_slice", "[T]::get_mut", "[T]::split_at_mut"),
    }

    n_ops = 0
    for opname, allowed in sorted(BUILT_FROM.items()):
        fid = TE if opname == "try_extend" else S + opname
        fn = F.fns.get(fid)
        if fn is None:
            continue            # its absence is reported by the operation's own clauses
        n_ops += 1
        extra = []
        fam = [fn] + [F.fns[c] for c in F.closures_of(fn.id) if c in F.fns]
        for g in fam:
            for p in ctx.paths(g):
                if p.end == "unreachable":
                    continue
                for c in p.calls():
                    if c[3] and any(hands_out_values_mutably(a) for a in c[3]) and not callee_is(c, *(allowed + CAPACITY_ONLY)):
                        extra.append(short(c, 3))
        ctx.check(not extra, "R04.4", "%s/changes-the-storage-only-as-its-clauses-say" % opname, "mutable uses of self.values: only %s" % (", ".join(allowed) or "none"), fn.at(),
                  bad_detail="%s hands self.values out mutably to a call its clauses do not account for: %s" % (opname, ", ".join(sorted(set(extra)))))
    ctx.floor("R04.4", n_ops, 8, "stack operations whose storage accesses were inventoried")

    # ================= R04.3 / R04.4 removal ==============================================
    f = ctx.fn(S + "pop")
    ps = return_paths(ctx.paths(f))
    ctx.check(len(ps) == 1 and match(ps[0].ret, Call("Option::ok_or", Call("Vec::pop", is_values, nargs=1), Agg("StackError::Underflow", Const(1), Const(0)), nargs=2)) and len(ps[0].calls()) == 2,
              "R04.4", "pop=values.pop()-or-Underflow{1,0}", short(ps[0].ret, 4), f.at())
    f = ctx.fn(S + "top")
    ps = return_paths(ctx.paths(f))
    ctx.check(len(ps) == 1 and match(ps[0].ret, Call("Option::ok_or", Call("[T]::last", is_values, nargs=1), Agg("StackError::Underflow", Const(1), Const(0)), nargs=2)),
              "R04.4", "top=values.last()-or-Underflow{1,0}", short(ps[0].ret, 4), f.at())
    for name, k in (("pop2", 2), ("pop3", 3)):
        f = ctx.fn(S + name)
        paths = [p for p in ctx.paths(f) if p.end != "unreachable"]
        for p in paths:
            pops = [c for c in p.calls() if callee_is(c, "Stack::pop", "Vec::pop")]
            rels = [r for r in (full_relation(c[0], c[1] != 0, is_size, lambda e: e[0] == "const" and e[3] == k) for c in p.conds) if r]
            if pops:
                ctx.check("a>=b" in rels, "R04.3", "%s/size>=%d-dominates-first-removal" % (name, k), cond_str(p)[:120], f.at(),
                          bad_detail="%s removes elements on a path that has not established size >= %d: [%s]" % (name, k, cond_str(p)[:200]))
            else:
                u = underflow_err(p)
                ctx.check("a<b" in rels and u is not None and u[3][0][0] == "const" and u[3][0][3] == k and is_size(u[3][1]) and is_err_return(p), "R04.3",
                          "%s/too-few->Underflow{%d,size}-without-removal" % (name, k), short(p.ret, 4), f.at())
            if p.end == "return" and not is_err_return(p):
                r = p.ret
                ok = r[0] == "agg" and path_ends(r[2], "Result::Ok") and r[3][0][0] == "agg" and r[3][0][1] == "tuple" and len(r[3][0][3]) == k and len(pops) == k
                if ok:
                    for i, comp in enumerate(r[3][0][3]):
                        ok = ok and match(comp, TryOk(lambda e, i=i: e == pops[i]))
                ctx.check(ok, "R04.4", "%s/tuple-follows-pop-order(top-first)" % name, short(p.ret, 3), f.at(),
                          bad_detail="%s must return the popped values in pop order (first component = top); extracted %s" % (name, short(p.ret, 6)))
        ctx.floor("R04.3", len(paths), 2, name + " paths")
    def discard_counted_loop(ctx):
        f = ctx.fn(S + "discard")
        paths = [p for p in ctx.paths(f) if p.end != "unreachable"]
        n_loop = 0
        for p in paths:
            pops = [c for c in p.calls() if callee_is(c, "Stack::pop", "Vec::pop")]
            rels = [r for r in (full_relation(c[0], c[1] != 0, lambda e: e == ("param", 2), is_size) for c in p.conds) if r]
            if pops:
                ctx.check("a<=b" in rels and len(pops) == 1, "R04.3", "discard/n<=size-dominates-removal", cond_str(p)[:140], f.at(),
                          bad_detail="discard removes on a path that has not established n <= size: [%s]" % cond_str(p)[:200])
                lp = [c for c in p.conds if c[0][0] == "discr" and callee_is(c[0][1], "Iterator::next") and c[1] == 1]
                okl = bool(lp) and match(lp[0][0][1][3][0], Through(Call("IntoIterator::into_iter", Agg("Range::Range", Const(0), Param(2)), nargs=1)))
                if p.end.startswith("loop:"):
                    n_loop += 1
                    ctx.check(okl, "R04.4", "discard/one-pop-per-iteration-of-0..n", cond_str(p)[:160], f.at())
            elif is_err_return(p):
                u = underflow_err(p)
                ctx.check("a>b" in rels and u is not None and u[3][0] == ("param", 2) and is_size(u[3][1]), "R04.3", "discard/too-few->Underflow{n,size}-without-removal", short(p.ret, 4), f.at())
            if p.end == "return" and not is_err_return(p):
                # exactly n removals: success is reported only when 0..n has run out, never from inside an iteration
                lpa = [c for c in p.conds if c[0][0] == "discr" and callee_is(c[0][1], "Iterator::next") and
                       match(c[0][1][3][0], Through(Call("IntoIterator::into_iter", Agg("Range::Range", Const(0), Param(2)), nargs=1)))]
                ctx.check(bool(lpa) and all(c[1] == 0 for c in lpa), "R04.4", "discard/succeeds-only-when-0..n-is-exhausted", cond_str(p)[-160:], f.at(),
                          bad_detail="discard returns Ok from inside an iteration of its 0..n loop (fewer than n elements removed): [%s]" % cond_str(p)[-300:])
        ctx.check(n_loop == 1, "R04.4", "discard/loop-body-found", "%d loop body path(s)" % n_loop, f.at())

    def discard_shrink_to_target(ctx):
        """the same clauses for the spelling `let target = size.checked_sub(n).ok_or(Underflow{n,size})?; while size() > target { pop()? }`"""
        from . import ckit as K
        f = ctx.fn(S + "discard")
        paths = K.live(ctx.cpaths(f))
        cs = None
        for p in paths:
            for c in p.calls():
                if callee_is(c, "usize::checked_sub") and len(c[3]) == 2 and is_size(c[3][0]) and c[3][1] == ("param", 2):
                    cs = c
        # canonical paths spell size.checked_sub(n) out: `size < n` -> None, else Some(size - n)
        unfolded = cs is None and any(x[0] == "binop" and x[1] == "Sub" and is_size(x[2]) and x[3] == ("param", 2) for p in paths for c in p.conds for x in subexprs(c[0]))
        ctx.check(cs is not None or unfolded, "R04.3", "discard/n<=size-dominates-removal", "target = size.checked_sub(n)", f.at(),
                  bad_detail="discard neither compares n with the size nor computes size.checked_sub(n) before removing")
        if cs is None and not unfolded:
            return
        target = ("field", cs, 0, "Some") if cs is not None else None
        is_target = lambda e: (e == target) if target is not None else (e[0] == "binop" and e[1] == "Sub" and is_size(e[2]) and e[3] == ("param", 2))
        n_loop = 0
        for p in paths:
            pops = [c for c in p.calls() if callee_is(c, "Stack::pop", "Vec::pop")]
            rl = K.rels(p, norm=lambda e: e)
            if cs is not None:
                some = K.discr_is(p, lambda o: o == cs, 1)
                none = K.discr_is(p, lambda o: o == cs, 0)
            else:
                some = any((op == "Ge" and is_size(a) and b == ("param", 2)) or (op == "Le" and is_size(b) and a == ("param", 2)) for a, op, b in rl)
                none = any((op == "Lt" and is_size(a) and b == ("param", 2)) or (op == "Gt" and is_size(b) and a == ("param", 2)) for a, op, b in rl)
            more = any(op == "Gt" and is_size(a) and is_target(K.strip(b, calls=())) for a, op, b in rl) or any(op == "Lt" and is_size(b) and is_target(K.strip(a, calls=())) for a, op, b in rl)
            done = any(op == "Le" and is_size(a) and is_target(K.strip(b, calls=())) for a, op, b in rl) or any(op == "Ge" and is_size(b) and is_target(K.strip(a, calls=())) for a, op, b in rl)
            kind, pay = K.outcome(p)
            if pops:
                ctx.check(some and more and len(pops) == 1, "R04.3", "discard/n<=size-dominates-removal", cond_str(p)[:160], f.at(),
                          bad_detail="discard removes on a path that has not established n <= size (checked_sub(size, n) is Some) and size > target: [%s]" % cond_str(p)[:200])
                if p.end.startswith("loop:"):
                    n_loop += 1
                    ctx.ok("R04.4", "discard/one-pop-per-iteration-of-0..n", "one pop per iteration while size() > size0 - n: exactly n removals", f.at())
                elif kind == "err":
                    ctx.check(K.conv_free(pay) == ("field", pops[0], 0, "Err"), "R04.3", "discard/pop-error-propagated", short(p.ret, 4), f.at())
            elif kind == "err":
                u = K.conv_free(pay)
                ctx.check(none and u[0] == "agg" and path_ends(u[2], "StackError::Underflow") and u[3][0] == ("param", 2) and is_size(u[3][1]), "R04.3",
                          "discard/too-few->Underflow{n,size}-without-removal", short(p.ret, 4), f.at())
            elif kind == "ok":
                ctx.check(some and done, "R04.4", "discard/stops-at-target", cond_str(p)[:160], f.at(),
                          bad_detail="discard returns Ok on a path that has not reached size() <= size0 - n: [%s]" % cond_str(p)[:200])
        ctx.check(n_loop == 1, "R04.4", "discard/loop-body-found", "%d loop body path(s)" % n_loop, f.at())

    def discard_try_for_each(ctx):
        """the same clauses for `if n > size { Err(Underflow{n,size}) } else { (0..n).try_for_each(|_| self.pop().map(|_| ())) }`:
        Range::try_for_each calls the closure once per index 0..n and stops at the first Err; the closure removes exactly one element per call"""
        from . import ckit as K
        f = ctx.fn(S + "discard")
        paths = K.live(ctx.cpaths(f))
        n_loop = 0
        for p in paths:
            tfe = K.calls_of(p, "Iterator::try_for_each")
            pops = [c for c in p.calls() if callee_is(c, "Stack::pop", "Vec::pop", "Vec::truncate", "Vec::drain", "Vec::clear", "Vec::remove")]
            rels = [r for r in (full_relation(c[0], K.truth_of(c[1]), lambda e: e == ("param", 2), is_size) for c in p.conds) if r]
            kind, pay = K.outcome(p)
            if tfe:
                okt = len(tfe) == 1 and not pops and match(tfe[0][3][0], Through(Agg("Range::Range", Const(0), Param(2)))) and tfe[0][3][1][0] == "agg" and tfe[0][3][1][1] == "closure"
                ctx.check("a<=b" in rels and okt, "R04.3", "discard/n<=size-dominates-removal", cond_str(p)[:140], f.at(),
                          bad_detail="discard removes on a path that has not established n <= size, or not by one pass over 0..n: [%s] %s" % (cond_str(p)[:200], short(tfe[0], 4)))
                # what discard returns is the try_for_each result itself (Ok(()) after n removals, the first pop error otherwise)
                r = K.strip(p.ret, calls=()) if p.ret is not None else None
                through_q = kind in ("ok", "err") and (K.discr_is(p, lambda o: o == tfe[0], 0) and kind == "ok" or K.discr_is(p, lambda o: o == tfe[0], 1) and kind == "err" and K.conv_free(pay) == ("field", tfe[0], 0, "Err"))
                ctx.check(r == tfe[0] or through_q, "R04.3", "discard/pop-error-propagated", short(p.ret, 4), f.at())
                if not okt:
                    continue
                cps = [q for q in (closure_paths(ctx, tfe[0][3][1], canon=True) or []) if q.end != "unreachable"]
                good = len(cps) == 2
                for q in cps:
                    qp = [c for c in q.calls() if callee_is(c, "Stack::pop", "Vec::pop")]
                    other = [c for c in q.calls() if callee_is(c, "Vec::truncate", "Vec::drain", "Vec::clear", "Vec::remove", "Stack::discard", "Stack::pop2", "Stack::pop3", "Stack::push", "Vec::push")]
                    good = good and len(qp) == 1 and not other and q.end == "return" and peel(qp[0][3][0], ()) == ("param", 1)
                    k2, pay2 = K.outcome(q)
                    if K.discr_is(q, lambda o: o == qp[0], 0) if qp else False:
                        good = good and k2 == "ok"
                    elif K.discr_is(q, lambda o: o == qp[0], 1) if qp else False:
                        good = good and k2 == "err" and K.conv_free(pay2) == ("field", qp[0], 0, "Err")
                    else:
                        good = False
                n_loop += 1
                ctx.check(good, "R04.4", "discard/one-pop-per-iteration-of-0..n", "closure: one pop per index, Ok(()) / the pop error", f.at(),
                          bad_detail="the per-index closure must pop exactly one element and return Ok(()) or that pop's error: " + "; ".join("[%s] -> %s" % (cond_str(q)[:80], short(q.ret, 4)) for q in cps))
            elif pops:
                ctx.bad("R04.3", "discard/n<=size-dominates-removal", "removal outside the 0..n pass: " + ", ".join(short(c, 3) for c in pops), f.at())
            elif kind == "err":
                u = underflow_err(p)
                ctx.check("a>b" in rels and u is not None and u[3][0] == ("param", 2) and is_size(u[3][1]), "R04.3", "discard/too-few->Underflow{n,size}-without-removal", short(p.ret, 4), f.at())
            elif kind == "ok":
                ctx.bad("R04.4", "discard/stops-at-target", "discard returns Ok without the 0..n pass: [%s]" % cond_str(p)[:200], f.at())
        ctx.check(n_loop == 1, "R04.4", "discard/loop-body-found", "%d try_for_each pass(es)" % n_loop, f.at())

    from . import ckit as _K
    _K.either(ctx, discard_counted_loop, lambda c: _K.either(c, discard_shrink_to_target, discard_try_for_each, note="spelled as (0..n).try_for_each"), note="spelled as shrink-to-target loop")
    for name in ("top", "top2", "top3", "size", "is_empty", "is_full", "max_stack_size"):
        f = ctx.fn(S + name)
        ctx.check(f.locals[1]["ty"].get("k") == "ref", "R04.3", name + "/takes-&self", f.locals[1]["ty"]["s"], f.at())
    # top2 / top3 order: every component is classified by its distance from the end of `values`
    # (1 = last element = top).  Accepted spellings: self.top()?; values.last(); values.get(len-k [+ c]) behind the
    # checked_sub(size, k) size check; a slice pattern [.., z, y, x] (MIR ConstantIndex from the end).
    for name, k in (("top2", 2), ("top3", 3)):
        f = ctx.fn(S + name)
        allp = return_paths(ctx.paths(f))
        okp = [p for p in allp if not is_err_return(p)]
        good = len(okp) >= 1
        offs = None
        for q in okp:
            r = q.ret
            shape = r[0] == "agg" and path_ends(r[2], "Result::Ok") and r[3][0][0] == "agg" and r[3][0][1] == "tuple" and len(r[3][0][3]) == k
            if not shape:
                good = False
                break
            nexts = rev_iter_nexts(q)
            offs = [from_end_offset(c, k, nexts) for c in r[3][0][3]]
            good = good and offs == list(range(1, k + 1))
        lc = None
        if not good:
            lc = topk_last_chunk(ctx, f, k)
            good = lc is not None and lc[0]
            if good:
                offs = list(range(1, k + 1))
        ctx.check(good, "R04.4", "%s/(top,second%s)-indices" % (name, ",third" if k == 3 else ""), ("offsets from the end %s: " % offs) + (short(okp[0].ret, 4)[:200] if okp else "-"), f.at(),
                  bad_detail="%s must return (last, values[len-2]%s); extracted offsets from the end %s in %s" % (name, ", values[len-3]" if k == 3 else "", offs, short(okp[0].ret, 8) if okp else "-"))
        # Underflow payloads of the size check
        clos = [x for p in ctx.paths(f) for c in p.calls() if callee_is(c, "Option::ok_or_else") for x in [c[3][1]] if x[0] == "agg" and x[1] == "closure" and callee_is(c[3][0], "usize::checked_sub")]
        okc = bool(clos)
        for cl in clos[:1]:
            cps = closure_paths(ctx, cl)
            okc = bool(cps) and len(cps) == 1 and match(cps[0].ret, Agg("StackError::Underflow", Const(k), lambda e: callee_is(peel(e, ()), "Stack::size", "Vec::len")))
        if not clos:
            # explicit form: an error return whose path established len < k and whose payload is Underflow{k, size}
            errs = [p for p in allp if is_err_return(p) and not any(callee_is(c, "Stack::top") for c in p.calls())]
            okc = bool(errs)
            for p in errs:
                u = underflow_err(p)
                nx = rev_iter_nexts(p)
                lt = any(len_lt_k(c[0], c[1], k) for c in p.conds) or \
                    any(c[0][0] == "discr" and c[0][1] in nx and c[1] != 1 and nx.index(c[0][1]) < k for c in p.conds)
                okc = okc and lt and u is not None and match(u, Agg("StackError::Underflow", Const(k), lambda e: is_size(e)))
        if not okc and lc is not None:
            okc = lc[1]
        ctx.check(okc, "R04.3", "%s/too-few->Underflow{%d,size}" % (name, k), "size check", f.at(),
                  bad_detail="%s must report Underflow{num_requested: %d, num_present: size()} exactly when fewer than %d elements are present" % (name, k, k))
    for name, pat in (("size", lambda e: callee_is(e, "Vec::len") and is_values(e[3][0])), ("is_empty", lambda e: callee_is(e, "Vec::is_empty") and is_values(e[3][0])), ("max_stack_size", is_max)):
        f = ctx.fn(S + name)
        ps = return_paths(ctx.paths(f))
        ctx.check(len(ps) == 1 and pat(peel(ps[0].ret, ())), "R04.4", name + "/reports-the-field", short(ps[0].ret), f.at())

    # ================= R04.5 panic audit ===================================================
    cg = CallGraph(F)
    roots = [S + n for n in ("push", "pop", "pop2", "pop3", "top", "top2", "top3", "discard", "push_many", "set_max_stack_size", "size", "is_empty", "is_full", "max_stack_size")] + [TE]
    scope = cg.reach(roots)
    audit_panics(ctx, "R04.5", scope, stack_discharge(), floor=1)


def stack_discharge():
    return [
        {"fn": "Stack<A> as collectable::TryExtend<A>>::try_extend", "what": "IndexMut::index_mut",
         "reason": "values[saved_len..]: saved_len was values.len() at entry and only an extension happened since (len >= saved_len)", "guard": guard_tail_range},
        {"fn": "Stack<A> as collectable::TryExtend<A>>::try_extend", "what": "[T]::split_at_mut",
         "reason": "values.split_at_mut(saved_len): panics iff saved_len > len; saved_len was values.len() at entry and only an extension happened since", "guard": guard_tail_split},
        {"fn": "push_vm::stack::Stack::<T>::top3", "what": "Overflow:Add",
         "reason": "index_third_to_top + 1 with index_third_to_top = len - 3 (checked_sub succeeded) cannot overflow", "guard": guard_top3_add},
        {"fn": "push_vm::stack::Stack::<T>::top3::{closure#", "what": "Overflow:Sub",
         "reason": "size() - 1 / - 2 inside the error closures: they are only constructed after checked_sub(size, 3) succeeded, so size >= 3", "guard": guard_top3_sub},
    ]


def guard_tail_range(ctx, s):
    fn = ctx.F.fns[s["fn"]]
    for p in ctx.paths(fn):
        cs = p.calls()
        for c in cs:
            if site_is(c, s):
                saved = [x for x in cs if callee_is(x, "Vec::len") and is_values(x[3][0])]
                shr = [x for x in cs[:cs.index(c)] if callee_is(x, "Vec::truncate", "Vec::pop", "Vec::clear", "Vec::drain", "Vec::remove", "Vec::split_off")]
                ok = bool(saved) and match(c[3][1], Agg("RangeFrom::RangeFrom", lambda e: e == saved[0])) and not shr and is_values(c[3][0])
                return ok, "range from the saved length, no shrinking call before"
    return False, "site not found"


def guard_tail_split(ctx, s):
    fn = ctx.F.fns[s["fn"]]
    for p in ctx.paths(fn):
        cs = p.calls()
        for c in cs:
            if site_is(c, s):
                saved = [x for x in cs if callee_is(x, "Vec::len") and is_values(x[3][0])]
                shr = [x for x in cs[:cs.index(c)] if callee_is(x, "Vec::truncate", "Vec::pop", "Vec::clear", "Vec::drain", "Vec::remove", "Vec::split_off")]
                ok = bool(saved) and len(c[3]) == 2 and c[3][1] == saved[0] and not shr and is_values(peel(c[3][0], ("DerefMut::deref_mut", "Vec::as_mut_slice")))
                return ok, "split at the saved length, no shrinking call before"
    return False, "site not found"


def guard_top3_add(ctx, s):
    fn = ctx.F.fns[s["fn"]]
    t = fn.blocks[s["block"]]["term"]
    for p in ctx.paths(fn):
        for e in p.events:
            if e[0] == "assert" and e[5] == s["block"]:
                ops = e[4]
                ok = len(ops) == 2 and ops[1][0] == "const" and ops[1][3] == 1 and match(ops[0], TryOk(Call(("Option::ok_or_else", "Option::ok_or"), Call("usize::checked_sub", is_size, Const(3), nargs=2))))
                return ok, "operands " + ", ".join(short(o, 4) for o in ops)
    return False, "assert not on any path"


def guard_top3_sub(ctx, s):
    fn = ctx.F.fns[s["fn"]]
    parent = ctx.F.fns.get(fn.parent)
    if not parent:
        return False, "no parent"
    # the closure is an argument of ok_or_else on a path where the size check already succeeded
    for p in ctx.paths(parent):
        for c in p.calls():
            if callee_is(c, "Option::ok_or_else") and c[3][1][0] == "agg" and c[3][1][2] == fn.id:
                guarded = any(cc[0][0] == "discr" and match(cc[0][1], Call("Try::branch", Call(("Option::ok_or_else", "Option::ok_or"), Call("usize::checked_sub", is_size, Const(3), nargs=2)))) and cc[1] == 0
                              for cc in p.conds)
                # subtrahend <= 2
                small = True
                for q in ctx.paths(fn):
                    for e in q.events:
                        if e[0] == "assert" and e[5] == s["block"]:
                            small = len(e[4]) == 2 and e[4][1][0] == "const" and e[4][1][3] in (1, 2)
                return guarded and small, "constructed after checked_sub(size,3) succeeded; subtrahend <= 2"
    return False, "closure use not found"
