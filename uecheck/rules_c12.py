"""C12 - Configured probabilities are the probabilities applied."""
from .pat import ANY, Bind, Call, Param, CParam, Field, Through, Agg, Const, BinOp, UnOp, match, find, callee_is, path_ends
from .sym import short, subexprs
from .common import (TryOk, TryErr, is_err_return, return_paths, peel, mentions, derives_from_self, rng_passthrough,
                     check_forwarder, closure_paths, cond_str, self_field)

META = {
    "level": "other",
    "explanation": (
        "Rate *provenance* rules on the MIR (def-use of every random draw): each draw's probability is the configured field, used once, with the right polarity and role. "
        "Decided: WithRate flips iff random::<f32>() < self.mutation_rate (strict, draw on the left or mirrored), one draw per gene; WithOneOverLength passes 1.0 / size-as-f32 "
        "(numerator const 1.0, denominator the unmodified converted size); UMAD: add := random_bool(addition_rate), del := random_bool(deletion_rate), del_new := add && "
        "random_bool(deletion_rate), old kept iff !del, new produced iff add && !del_new, empty branch random_bool(empty_addition_rate), constructors store parameters in "
        "the like-named fields; UniformXo uses random::<bool>() once per position; BoolGenerator samples random_bool(true_probability); Bitstring::random uses StandardUniform "
        "and random_with_probability forwards (probability, num_bits); GeneGenerator: Close iff random::<f32>() < close_probability else the instruction distribution, and the "
        "default close probability is 1.0 / conv(num_choices.get().saturating_add(1)). This check decides the *wiring* only; it does NOT decide empirical frequencies or "
        "independence - those are rand's contracts plus float arithmetic."),
    "rules": {
        "R12.1": "WithRate (both impls): one random::<f32>() per gene; flip iff draw < self.mutation_rate (strict)",
        "R12.2": "WithOneOverLength: rate = 1.0 / to_f32(size)",
        "R12.3": "UMAD draw wiring and constructors",
        "R12.4": "UniformXo: random::<bool>() per position (shared with C10 R10.5)",
        "R12.5": "BoolGenerator / Bitstring::random / random_with_probability",
        "R12.6": "GeneGenerator::sample and with_uniform_close_probability = 1/(n+1)",
    },
    "trusted_base": ["rand 0.9: random::<f32>() uniform in [0,1), random_bool(p) = Bernoulli(p), random::<bool>() fair, StandardUniform for bool fair", "IEEE float division", "uecfacts driver + uecheck rule engine"],
    "assumptions": ["rates lie in [0,1] (random_bool panics otherwise - documented rand proviso)"],
    "not_decided": ["the output distributions themselves (empirical rates, independence, expected size)"],
}

M = "ec_core::operator::mutator::Mutator<%s>>::mutate"
WR = "<ec_linear::mutator::with_rate::WithRate as "
WO = "<ec_linear::mutator::with_one_over_length::WithOneOverLength as "
UM = "<ec_linear::mutator::umad::Umad<GeneGenerator> as "


def targ_is(ctx, call, ty):
    term = ctx.F.fns[call[4][-2]].blocks[call[4][-1]]["term"]
    return any(t.get("s") == ty for t in term.get("targs", []))


def lt_draw_rate(ctx, cond, value, draw_ty, rate_pred):
    """cond/value describe a taken branch; returns (is_flip_branch, draw_call) if the condition is `draw < rate` (or mirrored), else None"""
    e = cond
    if e[0] != "binop":
        return None
    truth = value != 0
    a, b = e[2], e[3]
    if e[1] == "Lt" and callee_is(a, "Rng::random") and rate_pred(b):
        return truth, a
    if e[1] == "Gt" and callee_is(b, "Rng::random") and rate_pred(a):
        return truth, b
    if e[1] == "Ge" and callee_is(a, "Rng::random") and rate_pred(b):
        return (not truth), a
    if e[1] == "Le" and callee_is(b, "Rng::random") and rate_pred(a):
        return (not truth), b
    return None


def with_rate_bodies(ctx, f):
    """the per-gene computation of a WithRate::mutate impl, as (body paths, conditions of each, value of each, is-the-gene test):
    `genome.into_iter().map(|bit| ..).collect()` (the closure's paths) or the explicit loop
    `for bit in genome { out.push(..) } Ok(out)` (one push per element taken from genome.into_iter(), in order); None when neither"""
    from . import ckit as K
    ps = return_paths(ctx.paths(f))
    b = {}
    if len(ps) == 1 and match(ps[0].ret, Agg("Result::Ok", Call(("Iterator::collect", "FromIterator::from_iter"), Call("Iterator::map", Call("IntoIterator::into_iter", Param(2), nargs=1), Bind("clo"), nargs=2), nargs=1)), b) \
            and len(ps[0].calls()) == 3:
        cps = [q for q in closure_paths(ctx, b["clo"]) if q.end != "unreachable"]
        return [(q, list(q.conds), q.ret, (lambda e: e[:2] == ("cparam", 2))) for q in cps]
    paths = K.live(ctx.cpaths(f))
    is_nx = lambda c: callee_is(c, "Iterator::next") and match(c[3][0], Through(Call("IntoIterator::into_iter", Param(2), nargs=1)))
    is_out = lambda e: callee_is(K.strip(e, calls=()), "Vec::with_capacity", "Vec::new")
    bodies, done = [], 0
    for p in paths:
        nx = [c for c in p.calls() if is_nx(c)]
        if len(nx) != 1 or len([c for c in p.calls() if callee_is(c, "Iterator::next")]) != 1:
            return None
        grow = K.calls_of(p, "Vec::push", "Extend::extend", "Vec::insert", "Vec::extend_from_slice", "Vec::append")
        if K.discr_is(p, lambda o: o == nx[0], 0):
            kind, pay = K.outcome(p)
            if not (kind == "ok" and pay is not None and is_out(pay) and not grow):
                return None
            done += 1
            continue
        if not (p.end.startswith("loop:") and len(grow) == 1 and callee_is(grow[0], "Vec::push") and is_out(grow[0][3][0])):
            return None
        gene = ("field", nx[0], 0, "Some")
        bodies.append((p, [c for c in p.conds if not (c[0][0] == "discr" and c[0][1] == nx[0])], grow[0][3][1], (lambda e, gene=gene: K.strip(e, calls=()) == gene)))
    return bodies if done == 1 and bodies else None


def check_with_rate(ctx, rule_shape, rule_rate):
    for ty in ("std::vec::Vec<T>", "T"):
        f = ctx.fn(WR + M % ty)
        ps = return_paths(ctx.paths(f))
        bodies = with_rate_bodies(ctx, f)
        shape = bodies is not None
        if rule_shape:
            ctx.check(shape, rule_shape, "WithRate<%s>/into_iter.map.collect-only" % ty, "per-gene computation over genome.into_iter(), collected in order", f.at(),
                      bad_detail="expected Ok(collect(map(into_iter(genome), closure))) with no length-changing adaptor; extracted " + "; ".join(short(p.ret, 8) for p in ps))
        if not shape:
            if rule_rate:
                ctx.bad(rule_rate, "WithRate<%s>/closure-not-found" % ty, "pipeline shape not recognised", f.at())
            continue
        flip = keep = 0
        good = len(bodies) == 2
        draws = set()
        for q, conds, val, is_gene in bodies:
            r = None
            for c in conds:
                r = lt_draw_rate(ctx, c[0], c[1], "f32", lambda e: self_field(e, "mutation_rate"))
                if r:
                    break
            if not r or len(conds) != 1:
                good = False
                continue
            is_flip, draw = r
            draws.add(draw[4])
            good = good and rng_passthrough(draw[3][0], 3) and targ_is(ctx, draw, "f32") and len([c for c in q.calls() if callee_is(c, "Rng::random", "Rng::random_bool", "Rng::random_range")]) == 1
            if is_flip:
                flip += 1
                good = good and callee_is(val, "Not::not") and len(val[3]) == 1 and is_gene(val[3][0])
            else:
                keep += 1
                good = good and is_gene(val)
        good = good and flip == 1 and keep == 1 and len(draws) == 1
        if rule_rate:
            ctx.check(good, rule_rate, "WithRate<%s>/flip-iff-draw<mutation_rate" % ty, "; ".join("%s -> %s" % (cond_str(q), short(v)) for q, _, v, _ in bodies), f.at(),
                      bad_detail="per gene: exactly one random::<f32>() draw d, result !bit iff d < self.mutation_rate else bit; extracted " + "; ".join("[%s] -> %s" % (cond_str(q), short(v, 5)) for q, _, v, _ in bodies))
        if rule_shape:
            ok2 = all(((callee_is(v, "Not::not") and len(v[3]) == 1 and g(v[3][0])) or g(v)) for _, _, v, g in bodies) and flip == 1 and keep == 1
            ctx.check(ok2, rule_shape, "WithRate<%s>/gene-flipped-or-kept-in-place" % ty, "the body yields !bit on one branch and bit on the other", f.at())


def check_one_over_length(ctx, rule_fwd, rule_rate):
    """stated over canonical outcomes: size not representable as f32 -> the conversion error without mutating; otherwise exactly
    one WithRate::new(1.0 / to_f32(size)).mutate(genome, rng) whose Ok is returned (its error type is Infallible)"""
    from . import ckit as K
    for ty, sizefn in (("std::vec::Vec<T>", "Vec::len"), ("T", "Linear::size")):
        f = ctx.fn(WO + M % ty)
        paths = K.live(ctx.cpaths(f))
        good = bool(paths)
        seen = set()
        detail = "-"
        for p in paths:
            conv = [c for c in p.calls() if callee_is(c, "ToPrimitive::to_f32")]
            mut = [c for c in p.calls() if callee_is(c, "Mutator::mutate")]
            okc = len(conv) == 1 and match(conv[0], Call("ToPrimitive::to_f32", Through(Call(sizefn, Through(Param(2)), nargs=1)), nargs=1))
            kind, pay = K.outcome(p)
            if not okc:
                good = False
                continue
            if K.discr_is(p, lambda o: o == conv[0], 0):
                e = K.conv_free(pay) if pay is not None else None
                good = good and kind == "err" and not mut and e is not None and e[0] == "agg" and path_ends(e[2], "GenomeSizeConversionError::GenomeSizeConversionError")
                seen.add("unrepresentable")
                continue
            rate_ok = len(mut) == 1 and len(mut[0][3]) == 3 and K.strip(mut[0][3][1], calls=()) == ("param", 2) and rng_passthrough(mut[0][3][2], 3)
            if rate_ok:
                recv = K.strip(mut[0][3][0], calls=())
                rate = recv[3][0] if (callee_is(recv, "WithRate::new") and len(recv[3]) == 1) else (recv[3][0] if (recv[0] == "agg" and path_ends(recv[2], "WithRate::WithRate") and len(recv[3]) == 1) else None)
                rate_ok = rate is not None and match(rate, BinOp("Div", lambda e: e[0] == "const" and e[3] in ("1.0", 1.0, "1"), lambda e: K.strip(e, calls=(), casts=False) == ("field", conv[0], 0, "Some")))
            if not rate_ok:
                good = False
                detail = short(p.ret, 7) if p.ret is not None else p.end
                continue
            if p.end == "return":
                good = good and kind == "ok" and K.strip(pay, calls=()) == ("field", mut[0], 0, "Ok") and K.discr_is(p, lambda o: o == mut[0], 0)
                detail = short(p.ret, 6)
                seen.add("mutated")
            else:
                good = good and K.discr_is(p, lambda o: o == mut[0], 1)      # the Infallible error arm: unreachable!() / empty match
        good = good and seen == {"unrepresentable", "mutated"}
        if rule_rate:
            ctx.check(good, rule_rate, "WithOneOverLength<%s>/rate=1.0/size" % ty, detail[:300], f.at(),
                      bad_detail="expected WithRate::new(1.0 / to_f32(size(genome))?).mutate(genome, rng); extracted " + "; ".join(short(p.ret, 9) for p in paths if p.ret is not None))
        if rule_fwd:
            ctx.check(good, rule_fwd, "WithOneOverLength<%s>/forwards-same-genome-and-rng-to-WithRate" % ty, detail[:200], f.at())
    f = ctx.fn("ec_linear::mutator::with_rate::WithRate::new")
    ps = return_paths(ctx.paths(f))
    if rule_rate:
        ctx.check(len(ps) == 1 and match(ps[0].ret, Agg("WithRate::WithRate", Param(1))), rule_rate, "WithRate::new-stores-rate", short(ps[0].ret), f.at())


def _check_one_over_length_legacy(ctx, rule_fwd, rule_rate):
    for ty, sizefn in (("std::vec::Vec<T>", "Vec::len"), ("T", "Linear::size")):
        f = ctx.fn(WO + M % ty)
        ps = return_paths(ctx.paths(f))
        okp = [p for p in ps if not is_err_return(p)]
        conv = TryOk(Call(("Option::ok_or", "Option::ok_or_else"), Call("ToPrimitive::to_f32", Through(Call(sizefn, Through(Param(2)), nargs=1)), nargs=1)))
        rate = BinOp("Div", lambda e: e[0] == "const" and e[3] in ("1.0", 1.0, "1"), conv)
        pat = Call("Result::map_err", Call("Mutator::mutate", Through(Call("WithRate::new", Bind("rate", rate), nargs=1)), Param(2), lambda a: rng_passthrough(a, 3), nargs=3), ANY, nargs=2)
        good = len(okp) == 1 and match(okp[0].ret, pat)
        if rule_rate:
            ctx.check(good, rule_rate, "WithOneOverLength<%s>/rate=1.0/size" % ty, short(okp[0].ret, 7)[:300] if okp else "-", f.at(),
                      bad_detail="expected WithRate::new(1.0 / to_f32(size(genome))?).mutate(genome, rng); extracted " + "; ".join(short(p.ret, 9) for p in okp))
        if rule_fwd:
            ctx.check(good and len([c for c in okp[0].calls() if callee_is(c, "Mutator::mutate")]) == 1, rule_fwd, "WithOneOverLength<%s>/forwards-same-genome-and-rng-to-WithRate" % ty,
                      short(okp[0].ret, 5)[:200] if okp else "-", f.at())
    f = ctx.fn("ec_linear::mutator::with_rate::WithRate::new")
    ps = return_paths(ctx.paths(f))
    if rule_rate:
        ctx.check(len(ps) == 1 and match(ps[0].ret, Agg("WithRate::WithRate", Param(1))), rule_rate, "WithRate::new-stores-rate", short(ps[0].ret), f.at())


def umad_pair(r):
    """the per-gene [old, new] pair a main-pass closure yields: returned as the array itself (the pipeline flattens it
    afterwards) or already flattened inside the closure ([old, new].into_iter().flatten())"""
    if r is None:
        return None
    if r[0] == "agg" and r[1] == "array":
        return r
    b = {}
    if match(r, Call("Iterator::flatten", Call("IntoIterator::into_iter", Bind("arr"), nargs=1), nargs=1), b) and b["arr"][0] == "agg" and b["arr"][1] == "array":
        return b["arr"]
    return None


def umad_closure(ctx):
    f = ctx.fn(UM + M % "G")
    ps = return_paths(ctx.paths(f))
    main = []
    empty = []
    for p in ps:
        b = {}
        if match(p.ret, Agg("Result::Ok", Call("Iterator::collect", Call("Iterator::flatten", Call("Iterator::flat_map", Call("IntoIterator::into_iter", Param(2), nargs=1), Bind("clo"), nargs=2), nargs=1), nargs=1)), b):
            main.append((p, b["clo"]))
        elif match(p.ret, Agg("Result::Ok", Call("Iterator::collect", Call("Iterator::flat_map", Call("IntoIterator::into_iter", Param(2), nargs=1), Bind("clo"), nargs=2), nargs=1)), b) and \
                b["clo"][0] == "agg" and b["clo"][1] == "closure" and all(umad_pair(q.ret) is not None for q in closure_paths(ctx, b["clo"]) if q.end == "return"):
            # flat_map(|gene| [old, new].into_iter().flatten()): the same sequence of genes
            main.append((p, b["clo"]))
        else:
            empty.append(p)
    return f, main, empty


def umad_empty_branch_explicit(ctx, emp):
    """the empty-parent branch spelled with an explicit if: [random_bool(rng, rate) true] -> collect(Some(new_gene)), [false] -> collect(None)"""
    seen = {}
    for p in emp:
        size0 = [c for c in p.conds if match(c[0], BinOp("Eq", Call("Linear::size", Through(Param(2)), nargs=1), Const(0), commutative=True)) and c[1] != 0] or \
            [c for c in p.conds if match(c[0], Call("Linear::size", Through(Param(2)), nargs=1)) and c[1] == 0]
        some = [c for c in p.conds if c[0][0] == "discr" and self_field(c[0][1], "empty_addition_rate") and c[1] == 1]
        draw = [c for c in p.conds if callee_is(c[0], "Rng::random_bool") and rng_passthrough(c[0][3][0], 3) and
                match(c[0][3][1], Through(Field(Through(Field(Through(Param(1)), "empty_addition_rate")), 0, "Some")))]
        rb_calls = [c for c in p.calls() if callee_is(c, "Rng::random_bool")]
        if not (size0 and some and len(draw) == 1 and len(rb_calls) == 1):
            return False
        t = draw[0][1] != 0
        if t:
            ok = match(p.ret, Agg("Result::Ok", Call("Iterator::collect", Call("IntoIterator::into_iter", Agg("Option::Some", Call("Umad::new_gene", Through(Param(1)), lambda a: rng_passthrough(a, 3), nargs=2)), nargs=1), nargs=1)))
        else:
            ok = match(p.ret, Agg("Result::Ok", Call("Iterator::collect", Call("IntoIterator::into_iter", Agg("Option::None"), nargs=1), nargs=1))) and not [c for c in p.calls() if callee_is(c, "Umad::new_gene", "Distribution::sample")]
        if not ok:
            return False
        seen[t] = True
    return seen == {True: True, False: True}


def seq_items(e, K):
    """the elements an iterator-valued expression yields, in order, as a list of element expressions, or None when the shape is
    not one of: array literal, into_iter(x), chain(a, b), flatten(x), Option aggregate (Some{v} yields v, None yields nothing)"""
    e = K.strip(e, calls=("Clone::clone",)) if isinstance(e, tuple) else e
    if not isinstance(e, tuple):
        return None
    if e[0] == "agg" and e[1] == "array":
        return list(e[3])
    if e[0] == "agg" and e[1] == "adt" and path_ends(e[2], "Option::Some") and len(e[3]) == 1:
        return [e[3][0]]
    if e[0] == "agg" and e[1] == "adt" and path_ends(e[2], "Option::None"):
        return []
    if callee_is(e, "IntoIterator::into_iter", "Iterator::into_iter") and len(e[3]) == 1:
        return seq_items(e[3][0], K)
    if e[0] == "call" and e[1] in ("std::iter::once", "core::iter::once") and len(e[3]) == 1:
        return [e[3][0]]
    if e[0] == "call" and e[1] in ("std::iter::empty", "core::iter::empty") and not e[3]:
        return []
    if callee_is(e, "Iterator::chain") and len(e[3]) == 2:
        a, b = seq_items(e[3][0], K), seq_items(e[3][1], K)
        return None if a is None or b is None else a + b
    if callee_is(e, "Iterator::flatten") and len(e[3]) == 1:
        inner = seq_items(e[3][0], K)
        return flatten_items(inner, K)
    return None


def flatten_items(items, K):
    """one level of flattening: every element must itself be a sequence seq_items understands"""
    if items is None:
        return None
    out = []
    for x in items:
        sub = seq_items(x, K)
        if sub is None:
            return None
        out += sub
    return out


def umad_semantics(ctx):
    """What Umad::mutate does, read from its canonical paths whatever the spelling: the pipeline collected (main pass over
    genome.into_iter() through flat_map, or the empty-parent branch), per parent gene the draws and the genes yielded for every
    outcome of the draws.  Returns a dict of verdicts and a detail string."""
    from . import ckit as K
    f = ctx.fn(UM + M % "G")
    V = {"f": f, "shape": True, "order": True, "wiring": True, "empty": True, "empty_draw": True, "disabled": False, "detail": [], "n_main": 0, "n_empty": 0}
    paths = K.live(ctx.cpaths(f))
    rate = lambda name: (lambda e: self_field(K.strip(e, calls=()), name) or self_field(e, name))
    is_new = lambda e: (callee_is(K.strip(e, calls=()), "Umad::new_gene") and len(K.strip(e, calls=())[3]) == 2 and rng_passthrough(K.strip(e, calls=())[3][1], 3)) or \
        (callee_is(K.strip(e, calls=()), "Distribution::sample") and derives_from_self(K.strip(e, calls=())[3][0], field="gene_generator") and rng_passthrough(K.strip(e, calls=())[3][1], 3))
    def truth(q, call):
        for c in q.conds:
            if c[0] == call:
                return K.truth_of(c[1])
            if c[0][0] == "unop" and c[0][1] == "Not" and c[0][2] == call:
                return not K.truth_of(c[1])
        return None
    size0 = lambda p: [K.truth_of(c[1]) for c in p.conds if match(c[0], BinOp("Eq", Call("Linear::size", Through(Param(2)), nargs=1), Const(0), commutative=True))]
    ear = lambda p: [c[1] for c in p.conds if c[0][0] == "discr" and self_field(c[0][1], "empty_addition_rate")]
    clos = []
    for p in paths:
        kind, pay = K.outcome(p)
        x = K.strip(pay, calls=()) if pay is not None else None
        if kind != "ok" or not callee_is(x, "Iterator::collect") or len(x[3]) != 1:
            V["shape"] = False
            V["detail"].append("not Ok(collect(..)): " + short(p.ret, 5))
            continue
        src = K.strip(x[3][0], calls=())
        nfl = 0
        while callee_is(src, "Iterator::flatten") and len(src[3]) == 1:
            nfl += 1
            src = K.strip(src[3][0], calls=())
        s0, er = size0(p), ear(p)
        clo_ = K.strip(src[3][1], calls=()) if (callee_is(src, "Iterator::flat_map") and len(src[3]) == 2) else None      # a closure may reach the adaptor through a no-op cast
        if clo_ is not None and match(src[3][0], Through(Call("IntoIterator::into_iter", Param(2), nargs=1))) and \
                clo_[0] == "agg" and clo_[1] == "closure":
            V["n_main"] += 1
            clos.append((clo_, nfl))
            # taken unless (size == 0 and the empty rate is configured)
            if not ((s0 and s0[0] is False) or (er and er[0] != 1)):
                V["shape"] = False
                V["detail"].append("main pass on a path that has not excluded `empty parent with an empty-addition rate`: [%s]" % cond_str(p)[:160])
            if er and er[0] != 1:
                V["disabled"] = True
            extra = [c for c in p.calls() if not callee_is(c, "IntoIterator::into_iter", "Iterator::flat_map", "Iterator::flatten", "Iterator::collect", "Linear::size", "PartialEq::eq")]
            if extra:
                V["shape"] = False
                V["detail"].append("other calls on the main path: " + ", ".join(short(c, 3) for c in extra))
            continue
        # empty-parent branch
        V["n_empty"] += 1
        items = seq_items(src, K)
        for _ in range(nfl):
            items = flatten_items(items, K)
        draws = [c for c in p.calls() if callee_is(c, "Rng::random_bool")]
        okg = bool(s0) and s0[0] is True and bool(er) and er[0] == 1
        okd = len(draws) == 1 and rng_passthrough(draws[0][3][0], 3) and match(draws[0][3][1], Through(Field(Through(Field(Through(Param(1)), "empty_addition_rate")), 0, "Some")))
        t = truth(p, draws[0]) if okd else None
        news = [c for c in p.calls() if callee_is(c, "Umad::new_gene", "Distribution::sample")]
        oki = items is not None and ((t is True and len(items) == 1 and is_new(items[0]) and len(news) == 1) or (t is False and items == [] and not news))
        if not (okg and oki):
            V["empty"] = False
            V["detail"].append("empty branch [%s] -> %s" % (cond_str(p)[:200], short(p.ret, 7)))
        if not (okd and t is not None):
            V["empty_draw"] = False
    if V["n_main"] == 0 or len({repr(c[0][2]) + str(c[1]) for c in clos}) != 1:
        V["shape"] = False
        V["detail"].append("%d main-pass path(s), %d distinct per-gene closures" % (V["n_main"], len({c[0][2] for c in clos})))
        V["order"] = V["wiring"] = False
        return V
    clo, nfl = clos[0]
    cps = [q for q in (closure_paths(ctx, clo, canon=True) or []) if q.end != "unreachable"]
    gene = lambda e: K.strip(e, calls=())[:2] == ("cparam", 2)
    # which deletion draw decides about the parent's gene: the one also made when nothing is added
    table = {}
    d_sites = set()
    rows = []
    for q in cps:
        if q.end != "return":
            V["order"] = V["wiring"] = False
            continue
        ds = [c for c in q.calls() if callee_is(c, "Rng::random_bool")]
        if not all(rng_passthrough(d[3][0], 3) for d in ds):
            V["wiring"] = False
        adds = [d for d in ds if rate("addition_rate")(d[3][1])]
        dels = [d for d in ds if rate("deletion_rate")(d[3][1])]
        if len(adds) != 1 or len(adds) + len(dels) != len(ds):
            V["wiring"] = False
            V["detail"].append("draws on a per-gene path: " + ", ".join(short(d, 3) for d in ds))
            continue
        a = truth(q, adds[0])
        rows.append((q, adds[0], a, dels))
        if a is False and len(dels) == 1:
            d_sites.add(dels[0][4])
    if len(d_sites) != 1:
        V["wiring"] = False
    d_site = next(iter(d_sites)) if len(d_sites) == 1 else None
    for q, add, a, dels in rows:
        items = seq_items(q.ret, K)
        for _ in range(nfl):
            items = flatten_items(items, K)
        dd = [x for x in dels if x[4] == d_site]
        dn = [x for x in dels if x[4] != d_site]
        if a is None or len(dd) != 1 or (a and len(dn) != 1) or ((not a) and dn):
            V["wiring"] = False
            V["detail"].append("per-gene path [%s]: %d deletion draw(s) for the parent gene, %d for the new one (add=%s)" % (cond_str(q)[:120], len(dd), len(dn), a))
            continue
        d = truth(q, dd[0])
        n = truth(q, dn[0]) if a else None
        if d is None or (a and n is None):
            V["wiring"] = False
            continue
        want_old, want_new = (not d), bool(a and not n)
        news = [c for c in q.calls() if callee_is(c, "Umad::new_gene", "Distribution::sample")]
        if items is None:
            V["order"] = False
            V["detail"].append("per-gene value not a recognised sequence: " + short(q.ret, 6))
            continue
        got_old = [i for i, x in enumerate(items) if gene(x)]
        got_new = [i for i, x in enumerate(items) if is_new(x)]
        if len(got_old) + len(got_new) != len(items) or len(got_old) > 1 or len(got_new) > 1 or (got_old and got_new and got_old[0] > got_new[0]):
            V["order"] = False
            V["detail"].append("per-gene sequence " + ", ".join(short(x, 3) for x in items))
        if bool(got_old) != want_old or bool(got_new) != want_new or len(news) != (1 if want_new else 0):
            V["wiring"] = False
            V["detail"].append("add=%s del=%s del_new=%s yields [%s]" % (a, d, n, ", ".join(short(x, 3) for x in items)))
        table[(a, d, n)] = (bool(got_old), bool(got_new))
    want = {(False, False, None), (False, True, None), (True, False, False), (True, False, True), (True, True, False), (True, True, True)}
    if set(table) != want:
        V["wiring"] = False
        V["detail"].append("outcomes of the draws covered: %s" % sorted(map(str, table)))
    V["table"] = table
    return V


def check_umad_rates(ctx, rule):
    from . import ckit as K
    def canonical(c):
        V = umad_semantics(c)
        at = V["f"].at()
        c.check(V["shape"] and V["wiring"] and V["order"], rule, "Umad/add,del,del_new-wiring", "every outcome of (add, del, del_new) yields the genes the rates prescribe: %s" % {str(k): v for k, v in V.get("table", {}).items()}, at,
                bad_detail="; ".join(V["detail"])[:600])
        c.check(V["empty"] and V["empty_draw"] and V["n_empty"] >= 1, rule, "Umad/empty-parent-draws-random_bool(empty_addition_rate)", "one draw with the empty-addition rate decides about the single new gene", at,
                bad_detail="; ".join(V["detail"])[:600])
    K.either(ctx, lambda c: _check_umad_rates_legacy(c, rule, ctors=False), canonical)
    # constructors
    from .ctors import check_ctor
    UF = ("addition_rate", "deletion_rate", "empty_addition_rate", "gene_generator")
    for fn, pat in (("new", Agg("Umad::Umad", Param(1), Param(2), Agg("Option::Some", Param(1)), Param(3))),
                    ("new_with_empty_rate", Agg("Umad::Umad", Param(1), Param(3), Agg("Option::Some", Param(2)), Param(4))),
                    ("new_without_empty", Agg("Umad::Umad", Param(1), Param(2), Agg("Option::None"), Param(3)))):
        check_ctor(ctx, rule, "Umad::%s-stores-parameters-in-like-named-fields" % fn, "ec_linear::mutator::umad::Umad::<GeneGenerator>::" + fn, pat,
                   fields=UF, adt="ec_linear::mutator::umad::Umad")


def _check_umad_rates_legacy(ctx, rule, ctors=True):
    f, main, empty = umad_closure(ctx)
    at = f.at()
    if not main:
        ctx.bad(rule, "Umad/main-pass-not-found", "flat_map pipeline not recognised", at)
        return
    clo = main[0][1]
    cps = [q for q in closure_paths(ctx, clo) if q.end == "return"]
    rate = lambda name: (lambda e: self_field(e, name))
    rb = lambda q: [c for c in q.calls() if callee_is(c, "Rng::random_bool")]
    # the first draw of every path: addition; the second: deletion; the third (only when add): deletion again
    sites_add, sites_del, sites_del_new = set(), set(), set()
    good = len(cps) == 3
    produced = {}
    for q in cps:
        ds = rb(q)
        if len(ds) < 2:
            good = False
            continue
        add, dele = ds[0], ds[1]
        good = good and rate("addition_rate")(add[3][1]) and rate("deletion_rate")(dele[3][1]) and all(rng_passthrough(d[3][0], 3) for d in ds)
        sites_add.add(add[4]); sites_del.add(dele[4])
        addc = [c for c in q.conds if c[0] == add]
        add_true = bool(addc) and addc[0][1] != 0
        if add_true:
            good = good and len(ds) == 3 and rate("deletion_rate")(ds[2][3][1]) and ds[2][4] != dele[4]
            if len(ds) == 3:
                sites_del_new.add(ds[2][4])
                dn = [c for c in q.conds if c[0] == ds[2]]
                del_new_true = bool(dn) and dn[0][1] != 0
            else:
                del_new_true = None
        else:
            good = good and len(ds) == 2
            del_new_true = None
        r = umad_pair(q.ret)
        if not (r is not None and len(r[3]) == 2):
            good = False
            continue
        old, new = r[3]
        # old gene kept iff !del
        okold = match(old, Call("bool::then_some", UnOp("Not", lambda e: e == dele), CParam(2), nargs=2))
        is_new = match(new, Agg("Option::Some", Call("Umad::new_gene", Through(Param(1)), lambda a: rng_passthrough(a, 3), nargs=2)))
        is_none = match(new, Agg("Option::None"))
        want_new = add_true and del_new_true is False
        good = good and okold and ((want_new and is_new) or ((not want_new) and is_none))
        produced[(add_true, del_new_true)] = "new" if is_new else "none"
    good = good and len(sites_add) == 1 and len(sites_del) == 1 and len(sites_del_new) == 1
    ctx.check(good, rule, "Umad/add,del,del_new-wiring", "outcomes (add, del_new) -> %s" % {str(k): v for k, v in produced.items()}, at,
              bad_detail="expected add := random_bool(addition_rate); del := random_bool(deletion_rate); del_new := add && random_bool(deletion_rate) [third, distinct draw]; "
                         "[then_some(!del, gene), Some(new_gene) iff add && !del_new]; extracted " + "; ".join("[%s] -> %s" % (cond_str(q)[:200], short(q.ret, 5)) for q in cps))
    # empty branch
    emp = [p for p in empty if not is_err_return(p)]
    goode = len(emp) == 1
    if len(emp) == 2 and umad_empty_branch_explicit(ctx, emp):
        ctx.ok(rule, "Umad/empty-parent-draws-random_bool(empty_addition_rate)", "if random_bool(rng, empty rate) { Some(new_gene) } else { None } collected", at)
        goode = None
    if goode:
        p = emp[0]
        b = {}
        goode = match(p.ret, Agg("Result::Ok", Call("Iterator::collect", Call("IntoIterator::into_iter", Call("bool::then", Call("Rng::random_bool", lambda a: rng_passthrough(a, 3),
                      Through(Field(Through(Field(Through(Param(1)), "empty_addition_rate")), 0, "Some")), nargs=2), Bind("clo"), nargs=2), nargs=1), nargs=1)), b)
        if goode:
            cq = [q for q in closure_paths(ctx, b["clo"]) if q.end == "return"]
            goode = len(cq) == 1 and match(cq[0].ret, Call("Umad::new_gene", Through(Param(1)), lambda a: rng_passthrough(a, 3), nargs=2))
        size0 = [c for c in p.conds if match(c[0], BinOp("Eq", Call("Linear::size", Through(Param(2)), nargs=1), Const(0), commutative=True)) and c[1] != 0]
        some = [c for c in p.conds if c[0][0] == "discr" and self_field(c[0][1], "empty_addition_rate") and c[1] == 1]
        goode = goode and bool(size0) and bool(some)
    if goode is not None:
      ctx.check(goode, rule, "Umad/empty-parent-draws-random_bool(empty_addition_rate)", short(emp[0].ret, 6) if emp else "-", at,
              bad_detail="empty-genome branch must be: size == 0 && empty_addition_rate == Some(r) -> random_bool(r).then(new_gene).into_iter().collect(); extracted " + "; ".join("[%s] -> %s" % (cond_str(p)[:200], short(p.ret, 7)) for p in empty))
    if not ctors:
        return
    from .ctors import check_ctor
    UF = ("addition_rate", "deletion_rate", "empty_addition_rate", "gene_generator")
    for fn, pat in (("new", Agg("Umad::Umad", Param(1), Param(2), Agg("Option::Some", Param(1)), Param(3))),
                    ("new_with_empty_rate", Agg("Umad::Umad", Param(1), Param(3), Agg("Option::Some", Param(2)), Param(4))),
                    ("new_without_empty", Agg("Umad::Umad", Param(1), Param(2), Agg("Option::None"), Param(3)))):
        check_ctor(ctx, rule, "Umad::%s-stores-parameters-in-like-named-fields" % fn, "ec_linear::mutator::umad::Umad::<GeneGenerator>::" + fn, pat,
                   fields=UF, adt="ec_linear::mutator::umad::Umad")


def check(ctx):
    check_with_rate(ctx, None, "R12.1")
    check_one_over_length(ctx, None, "R12.2")
    check_umad_rates(ctx, "R12.3")
    # R12.4 - UniformXo
    from . import rules_c10
    class P:
        def __init__(s, c): s.c = c
        def __getattr__(s, n): return getattr(s.c, n)
    sub = _Only(ctx, {"R10.5": "R12.4"})
    rules_c10.check_uniform(sub)
    # R12.5
    f = ctx.fn("<ec_linear::genome::bitstring::BoolGenerator as rand::distr::Distribution<bool>>::sample")
    ps = return_paths(ctx.paths(f))
    ctx.check(len(ps) == 1 and match(ps[0].ret, Call("Rng::random_bool", lambda a: rng_passthrough(a, 2), lambda e: self_field(e, "true_probability"), nargs=2)) and len(ps[0].calls()) == 1,
              "R12.5", "BoolGenerator::sample=random_bool(true_probability)", short(ps[0].ret), f.at())
    f = ctx.fn("ec_linear::genome::bitstring::BoolGenerator::new")
    ps = return_paths(ctx.paths(f))
    ctx.check(len(ps) == 1 and match(ps[0].ret, Agg("BoolGenerator::BoolGenerator", Param(1))), "R12.5", "BoolGenerator::new-stores-probability", short(ps[0].ret), f.at())
    f = ctx.fn("ec_linear::genome::bitstring::Bitstring::random")
    ps = return_paths(ctx.paths(f))
    ctx.check(len(ps) == 1 and match(ps[0].ret, Call("Distribution::sample", Through(Call("ConvertToCollectionGenerator::into_collection_generator", Agg("StandardUniform::StandardUniform"), Param(1), nargs=2)), lambda a: rng_passthrough(a, 2), nargs=2)),
              "R12.5", "Bitstring::random=StandardUniform-x-num_bits", short(ps[0].ret, 5), f.at())
    f = ctx.fn("ec_linear::genome::bitstring::Bitstring::random_with_probability")
    ps = return_paths(ctx.paths(f))
    ctx.check(len(ps) == 1 and match(ps[0].ret, Call("Distribution::sample", Through(Call("ConvertToCollectionGenerator::into_collection_generator", Call("BoolGenerator::new", Param(2), nargs=1), Param(1), nargs=2)), lambda a: rng_passthrough(a, 3), nargs=2)),
              "R12.5", "Bitstring::random_with_probability=BoolGenerator(probability)-x-num_bits", short(ps[0].ret, 5), f.at())
    # R12.6
    f = ctx.fn("<push::genome::plushy::GeneGenerator<T> as rand::distr::Distribution<push::genome::plushy::PushGene>>::sample")
    ps = return_paths(ctx.paths(f))
    good = len(ps) == 2
    kinds = set()
    for p in ps:
        r = None
        for c in p.conds:
            r = lt_draw_rate(ctx, c[0], c[1], "f32", lambda e: self_field(e, "close_probability"))
            if r:
                break
        if not r:
            good = False
            continue
        is_close, draw = r
        good = good and rng_passthrough(draw[3][0], 2) and targ_is(ctx, draw, "f32")
        if is_close:
            kinds.add("close")
            good = good and match(p.ret, Agg("PushGene::Close")) and len(p.calls()) == 1
        else:
            kinds.add("instr")
            from .ctors import flatten
            smp = Call("Distribution::sample", lambda a: derives_from_self(a, field="instruction_distribution"), lambda a: rng_passthrough(a, 2), nargs=2)
            # PushGene::Instruction(sample), or sample.into() through the workspace's `impl From<T: Into<PushInstruction>> for PushGene`
            v = flatten(ctx, p.ret, 0, (f.id,))
            good = good and (match(p.ret, Agg("PushGene::Instruction", smp)) or match(v, Agg("PushGene::Instruction", Through(smp, calls=("Into::into", "From::from"))))) and \
                len([c for c in p.calls() if callee_is(c, "Distribution::sample", "Rng::sample", "Rng::random", "Rng::random_range", "Rng::random_bool")]) == 2
    ctx.check(good and kinds == {"close", "instr"}, "R12.6", "GeneGenerator::sample/Close-iff-draw<close_probability", "; ".join("[%s] -> %s" % (cond_str(p), short(p.ret, 4)) for p in ps), f.at())
    f = ctx.fn("push::genome::plushy::GeneGenerator::<T>::with_uniform_close_probability")
    ps = return_paths(ctx.paths(f))
    one = lambda e: e[0] == "const" and e[3] in ("1.0", 1.0)
    nch = Call("ChoicesDistribution::num_choices", Through(Param(1)), nargs=1)
    # n + 1 (saturating): on the usize or on the NonZeroUsize - the same number either way
    n1 = lambda e: match(e, Call("usize::saturating_add", Call("NonZero::get", nch, nargs=1), Const(1), nargs=2)) or match(e, Call("NonZero::get", Call("NonZero::saturating_add", nch, Const(1), nargs=2), nargs=1))
    conv = Call("ConvApprox::conv_approx", n1, nargs=1)
    # 1.0 / x, or x.recip() (defined as 1.0 / x)
    rate = lambda e: match(e, BinOp("Div", one, conv)) or match(e, Call("f32::recip", conv, nargs=1))
    pat = Call("GeneGenerator::new", rate, Param(1), nargs=2)
    ctx.check(len(ps) == 1 and match(ps[0].ret, pat), "R12.6", "with_uniform_close_probability=1.0/conv(n+1)", short(ps[0].ret, 7), f.at(),
              bad_detail="expected GeneGenerator::new(1.0 / conv_approx(num_choices().get().saturating_add(1)), distribution); extracted " + "; ".join(short(p.ret, 9) for p in ps))
    f = ctx.fn("push::genome::plushy::GeneGenerator::<T>::new")
    ps = return_paths(ctx.paths(f))
    names = [x["name"] for x in ctx.F.adts["push::genome::plushy::GeneGenerator"]["variants"][0]["fields"]]
    ctx.check(len(ps) == 1 and match(ps[0].ret, Agg("GeneGenerator::GeneGenerator", Param(1), Param(2))) and names == ["close_probability", "instruction_distribution"],
              "R12.6", "GeneGenerator::new-stores-(close_probability,distribution)", short(ps[0].ret), f.at())
    T = "<T as push::genome::plushy::ConvertToGeneGenerator>::"
    for name, pat in (("into_gene_generator_with_close_probability", Call("GeneGenerator::new", Param(2), Param(1), nargs=2)),
                      ("to_gene_generator_with_close_probability", Call("GeneGenerator::new", Param(2), Param(1), nargs=2)),
                      ("into_gene_generator", Call("GeneGenerator::with_uniform_close_probability", Param(1), nargs=1)),
                      ("to_gene_generator", Call("GeneGenerator::with_uniform_close_probability", Param(1), nargs=1))):
        g = ctx.fn(T + name)
        ps = return_paths(ctx.paths(g))
        ctx.check(len(ps) == 1 and match(ps[0].ret, pat), "R12.6", "ConvertToGeneGenerator::%s-forwards" % name, short(ps[0].ret), g.at())


class _Only:
    """context proxy that keeps only the obligations of selected rules, filed under new ids"""

    def __init__(self, ctx, mapping):
        self._c = ctx
        self._m = mapping

    def __getattr__(self, n):
        return getattr(self._c, n)

    def ok(self, rule, *a, **k):
        if rule in self._m:
            return self._c.ok(self._m[rule], *a, **k)

    def bad(self, rule, *a, **k):
        if rule in self._m:
            return self._c.bad(self._m[rule], *a, **k)

    def check(self, cond, rule, *a, **k):
        if rule in self._m:
            return self._c.check(cond, self._m[rule], *a, **k)
        return bool(cond)

    def floor(self, rule, *a, **k):
        if rule in self._m:
            return self._c.floor(self._m[rule], *a, **k)
