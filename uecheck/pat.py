"""Tree patterns over sym.py expressions."""
from .sym import last_seg, subexprs, strip_refs


_LS = {}


class _Any:
    def __repr__(self):
        return "_"


ANY = _Any()


class Bind:
    """Matches anything (or a sub-pattern) and records it under a name; a second
    occurrence of the same name must be structurally equal."""

    def __init__(self, name, pat=ANY):
        self.name = name
        self.pat = pat


class Call:
    """Call whose callee def path ends with `name` (on a :: boundary)."""

    def __init__(self, name, *args, bind=None, nargs=None):
        self.names = (name,) if isinstance(name, str) else tuple(name)
        self.args = args
        self.bind = bind
        self.nargs = nargs


class Param:
    def __init__(self, i):
        self.i = i


class CParam:
    """parameter of an inlined closure body (see common.closure_paths)"""

    def __init__(self, i):
        self.i = i


class Field:
    def __init__(self, base, name, variant=ANY):
        self.base = base
        self.name = name
        self.variant = variant


class Const:
    def __init__(self, value=ANY):
        self.value = value


class Agg:
    def __init__(self, name, *ops):
        self.name = name
        self.ops = ops


class BinOp:
    def __init__(self, op, a, b, commutative=False):
        self.ops = (op,) if isinstance(op, str) else tuple(op)
        self.a = a
        self.b = b
        self.commutative = commutative


class UnOp:
    def __init__(self, op, a):
        self.op = op
        self.a = a


class Or:
    def __init__(self, *alts):
        self.alts = alts


class Through:
    """Matches `pat` after skipping any number of listed transparent wrappers
    (calls whose first argument carries the value, refs, derefs, casts)."""

    def __init__(self, pat, calls=()):
        self.pat = pat
        self.calls = tuple(calls)


def path_ends(path, name):
    if path is None:
        return False
    if path == name:
        return True
    if path.endswith("::" + name):
        return True
    # generic segments: compare on last_seg with same number of segments
    n = name.count("::") + 1
    k = (path, n)
    r = _LS.get(k)
    if r is None:
        r = last_seg(path, n)
        _LS[k] = r
    return r == name


def callee_is(e, *names):
    return e[0] == "call" and any(path_ends(e[1], n) for n in names)


def match(e, p, b=None):
    if b is None:
        b = {}
    if p is ANY:
        return True
    if e is None:
        return False
    if isinstance(p, Bind):
        if not match(e, p.pat, b):
            return False
        if p.name in b:
            return b[p.name] == e
        b[p.name] = e
        return True
    if isinstance(p, Or):
        for a in p.alts:
            b2 = dict(b)
            if match(e, a, b2):
                b.update(b2)
                return True
        return False
    if isinstance(p, Through):
        cur = e
        for _ in range(64):
            b2 = dict(b)
            if match(cur, p.pat, b2):
                b.update(b2)
                return True
            if cur[0] in ("ref", "deref"):
                cur = cur[1]
            elif cur[0] == "cast":
                cur = cur[2]
            elif cur[0] == "call" and cur[3] and any(path_ends(cur[1], n) for n in p.calls):
                cur = cur[3][0]
            else:
                return False
        return False
    if isinstance(p, Call):
        if e[0] != "call":
            return False
        if not any(path_ends(e[1], n) for n in p.names):
            return False
        if p.nargs is not None and len(e[3]) != p.nargs:
            return False
        if len(p.args) > len(e[3]):
            return False
        for a, pa in zip(e[3], p.args):
            if not match(a, pa, b):
                return False
        if p.bind:
            b[p.bind] = e
        return True
    if isinstance(p, Param):
        return e == ("param", p.i)
    if isinstance(p, CParam):
        return e[0] == "cparam" and e[1] == p.i
    if isinstance(p, Field):
        if e[0] != "field":
            return False
        if e[2] != p.name:
            return False
        if p.variant is not ANY and e[3] != p.variant:
            return False
        return match(e[1], p.base, b)
    if isinstance(p, Const):
        if e[0] != "const":
            return False
        return p.value is ANY or e[3] == p.value
    if isinstance(p, Agg):
        if e[0] != "agg":
            return False
        if p.name is not ANY and not path_ends(e[2], p.name):
            return False
        if len(p.ops) != len(e[3]) and p.ops:
            return False
        return all(match(x, px, b) for x, px in zip(e[3], p.ops))
    if isinstance(p, BinOp):
        if e[0] != "binop" or e[1] not in p.ops:
            return False
        b2 = dict(b)
        if match(e[2], p.a, b2) and match(e[3], p.b, b2):
            b.update(b2)
            return True
        if p.commutative:
            b2 = dict(b)
            if match(e[3], p.a, b2) and match(e[2], p.b, b2):
                b.update(b2)
                return True
        return False
    if isinstance(p, UnOp):
        return e[0] == "unop" and e[1] == p.op and match(e[2], p.a, b)
    if isinstance(p, tuple):
        return e == p
    if callable(p):
        return bool(p(e))
    raise TypeError("bad pattern %r" % (p,))


def find(e, p):
    """All (subexpr, bindings) of e matching p."""
    out = []
    for x in subexprs(e):
        b = {}
        if match(x, p, b):
            out.append((x, b))
    return out


def derives_from(e, target, through_calls=None):
    """Data-derivation: does `target` occur in e (as a subexpression)?"""
    for x in subexprs(e):
        if x == target:
            return True
    return False
