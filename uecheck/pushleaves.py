"""Leaf-instruction enumeration through the dispatchers (A2) and grid comparison with the oracle."""
import itertools

from .pat import callee_is, path_ends
from .sym import short
from .common import peel, peel_box
from .pushfx import Fx, Outcome, INF, canon
from . import pushspec

PERFORM = "push::instruction::Instruction::perform"
ROOT = "<push::instruction::PushInstruction as push::instruction::Instruction<push::push_vm::push_state::PushState>>::perform"


class Leaf:
    def __init__(self, name, variant_path, fn, outcomes, at, spec, dispatch_ok, detail, paths=None, body_fn=None):
        self.paths = paths or []          # walker paths of the dispatcher arm
        self.body_fn = body_fn            # the payload's own perform fn when the arm delegates
        self.name = name                  # e.g. "Int::Add"
        self.variant_path = variant_path  # [(enum path, variant name)...]
        self.fn = fn
        self.outcomes = outcomes
        self.at = at
        self.spec = spec
        self.dispatch_ok = dispatch_ok    # R01.1: arm forwards to its own payload
        self.detail = detail


def perform_fn_for_adt(F, adt_path):
    for f in F.trait_method_impls(PERFORM):
        im = F.impl_of_fn(f)
        if im and im["self"].get("path") == adt_path:
            return f
    return None


def enumerate_leaves(ctx, fx):
    """returns (leaves, problems)"""
    F = ctx.F
    leaves = []
    problems = []

    def expand(fn, enum_path, prefix, vpath, binding, depth):
        adt = F.adts.get(enum_path)
        label, table = pushspec.ENUMS[enum_path]
        byv = {}
        for p in ctx.paths(fn):
            if p.end == "unreachable":
                continue
            d = [c for c in p.conds if c[0] == ("discr", ("deref", ("param", 1)))]
            if not d or isinstance(d[0][1], tuple):
                problems.append(("dispatch", "%s: path not selected by a variant of *self: [%s]" % (fn.id, "; ".join(short(c[0], 3) + "==" + str(c[1]) for c in p.conds)), fn.at()))
                continue
            byv.setdefault(d[0][1], []).append(p)
        for v in adt["variants"]:
            ps = byv.get(v["discr"], [])
            name = (label + "::" if label else "") + v["name"]
            if not ps:
                problems.append(("dispatch", "%s: variant %s has no arm" % (enum_path, v["name"]), fn.at()))
                continue
            spec = table.get(v["name"], None)
            # payload type
            pty = v["fields"][0]["ty"] if v["fields"] else None
            inner = pty
            while inner and inner.get("k") == "adt" and inner.get("path") == "std::boxed::Box":
                inner = (inner.get("args") or [None])[0]
            # R01.1 delegation shape
            delegated = None
            dispatch_ok = None
            detail = ""
            if len(ps) == 1 and ps[0].end == "return":
                r = ps[0].ret
                perf = [c for c in ps[0].calls() if callee_is(c, "Instruction::perform")]
                if callee_is(r, "Instruction::perform") and len(perf) == 1:
                    recv = peel_box(r[3][0])
                    own = recv[0] == "field" and recv[3] == v["name"] and recv[2] == 0 and peel_box(recv[1]) == ("param", 1)
                    dispatch_ok = own and r[3][1] == ("param", 2) and len([c for c in ps[0].calls() if not callee_is(c, "Deref::deref", "HasStack::stack", "HasStack::stack_mut")]) == 1
                    detail = short(r, 4)
                    delegated = r
                elif callee_is(r, "PushState::with_input"):
                    recv = peel_box(r[3][1])
                    own = recv[0] == "field" and recv[3] == v["name"] and recv[2] == 0 and peel_box(recv[1]) == ("param", 1)
                    dispatch_ok = own and r[3][0] == ("param", 2) and len(ps[0].calls()) == 1
                    detail = short(r, 4)
            if delegated is not None and inner and inner.get("k") == "adt" and inner.get("path") in pushspec.ENUMS and depth < 4:
                sub = perform_fn_for_adt(F, inner["path"])
                if sub is None:
                    problems.append(("dispatch", "no perform impl for " + inner["path"], fn.at()))
                    continue
                ctx.fns_analysed.add(sub.id)
                if not dispatch_ok:
                    problems.append(("wiring", "%s arm does not forward to its own payload: %s" % (name, detail), fn.at()))
                leaves.append(Leaf(name + "(dispatch)", vpath + [(enum_path, v["name"])], fn, None, fn.at(), "dispatcher", dispatch_ok, detail))
                expand(sub, inner["path"], name, vpath + [(enum_path, v["name"])], {}, depth + 1)
                continue
            outs = []
            for p in ps:
                outs.extend(fx.interpret_path(fn, p, binding, 0))
            outs = fx.fold_loops(outs)
            at = fn.at()
            body_fn = None
            if delegated is not None:
                t = fx.term(delegated)
                rd = (t.get("res") or {}).get("def")
                if rd and rd in F.fns:
                    at = F.fns[rd].at()
                    body_fn = F.fns[rd]
            leaves.append(Leaf(name, vpath + [(enum_path, v["name"])], fn, outs, at, spec, dispatch_ok, detail, paths=ps, body_fn=body_fn))

    root = ctx.fn(ROOT)
    expand(root, "push::instruction::PushInstruction", "", [], {}, 0)
    return leaves, problems


# ---------------------------------------------------------------------------
# oracle evaluation on the boundary grid

STACKS = ("i64", "bool", "f64", "exec")


def spec_stacks(spec):
    return [k for k in spec if k in STACKS]


def expected_at(spec, sizes, rooms):
    """allowed outcome kinds at a grid point for a plain effect row.
    returns (set of allowed kinds, set of required kinds, expected effect)"""
    need_under = False
    for T in spec_stacks(spec):
        row = spec[T]
        if row == "flush":
            continue
        pops = row[0]
        reads = row[2] if len(row) > 2 else 0
        if sizes.get(T, 99) < max(pops, reads):
            need_under = True
    need_over = False
    for T in spec_stacks(spec):
        row = spec[T]
        if row == "flush":
            continue
        pops, pushes = row[0], row[1]
        if pushes and rooms.get(T, 99) + pops < pushes:
            need_over = True
    if need_under and need_over:
        return {"recoverable(underflow)", "fatal(overflow)"}, set()
    if need_under:
        return {"recoverable(underflow)"}, {"recoverable(underflow)"}
    if need_over:
        return {"fatal(overflow)"}, {"fatal(overflow)"}
    allowed = {"ok"}
    req = {"ok"}
    if spec.get("arith"):
        allowed.add("recoverable(arith)")
        req.add("recoverable(arith)")
    return allowed, req


def kind_of(o):
    if o.kind == "err":
        return "%s(%s)" % (o.severity, o.cause)
    return o.kind


def effect_matches(o, spec):
    d, out = o.effects()
    for T in STACKS:
        row = spec.get(T)
        x = d.get(T, {"pops": 0, "pushes": 0, "reads": 0, "flush": False, "many": False})
        if row is None:
            if x["pops"] or x["pushes"] or x["flush"] or x["many"]:
                return False, "%s is touched (pop%d push%d) but the instruction has no effect on it" % (T, x["pops"], x["pushes"])
            continue
        if row == "flush":
            if not x["flush"] or x["pushes"]:
                return False, "%s must be flushed" % T
            continue
        pops, pushes = row[0], row[1]
        reads = row[2] if len(row) > 2 else 0
        if x["pops"] != pops or x["pushes"] != pushes or x["flush"] or x["many"]:
            return False, "%s: removes %d pushes %d, expected removes %d pushes %d" % (T, x["pops"], x["pushes"], pops, pushes)
        # operands must have been looked at: reads + pops-before-compute cover the operand count
        if reads and max(x["reads"], x["pops"]) < reads:
            return False, "%s: reads %d operand(s), expected %d" % (T, x["reads"], reads)
    for T in d:
        if T not in STACKS and (d[T]["pops"] or d[T]["pushes"]):
            return False, "effect on unknown stack %s" % T
    if out != spec.get("out", 0):
        return False, "writes output %d time(s), expected %d" % (out, spec.get("out", 0))
    return True, ""


def grid_for(stacks):
    sizes_r = (0, 1, 2, 3)
    rooms_r = (0, 1, 2)
    for combo in itertools.product(*[[(s, r) for s in sizes_r for r in rooms_r] for _ in stacks]):
        yield {T: c[0] for T, c in zip(stacks, combo)}, {T: c[1] for T, c in zip(stacks, combo)}


def touched_stacks(leaf):
    st = set()
    for o in leaf.outcomes or []:
        r = o.run
        st |= set(r.lo) | set(r.hi) | set(r.rlo) | set(r.rhi) | {e[1] for e in r.fx if len(e) > 1 and e[0] != "delegate"}
    if isinstance(leaf.spec, dict):
        st |= set(spec_stacks(leaf.spec))
    if leaf.spec == "conditional":
        st |= {"bool", "exec"}
    return sorted(t for t in st if t in STACKS) + sorted(t for t in st if t not in STACKS)


def compare_plain(leaf):
    """grid comparison of a plain-effect-row leaf; returns list of (key, message) disagreements and the number of grid points"""
    spec = leaf.spec
    stacks = touched_stacks(leaf)
    bad = {}
    n = 0
    for sizes, rooms in grid_for(stacks):
        n += 1
        allowed, required = expected_at(spec, sizes, rooms)
        here = [o for o in leaf.outcomes if o.run.admits(sizes, rooms)]
        kinds = {kind_of(o) for o in here}
        where = "sizes %s rooms %s" % (sizes, rooms)
        for o in here:
            k = kind_of(o)
            if k not in allowed:
                bad.setdefault("outcome/%s-not-allowed" % k, "at %s the instruction ends with %s but the semantics allow only %s (extracted: %s)" % (where, k, sorted(allowed), o.describe()))
            elif k == "ok":
                ok, why = effect_matches(o, spec)
                if not ok:
                    bad.setdefault("effect-row", "on success (%s): %s (extracted: %s)" % (where, why, o.describe()))
        for k in required:
            if k not in kinds:
                bad.setdefault("outcome/%s-missing" % k, "at %s the semantics require outcome %s, extracted outcomes there: %s" % (where, k, sorted(kinds) or "none"))
        if not here:
            bad.setdefault("no-outcome", "no extracted outcome covers %s" % where)
    return bad, n


def compare_conditional(leaf):
    table = pushspec.CONDITIONAL[leaf.name.split("::")[-1]]
    bad = {}
    n = 0
    for (bv, nblocks), want in sorted(table.items(), key=str):
        for broom in (0, 1):
            for eroom in (0, 1):
                n += 1
                sizes = {"bool": 0 if bv == "none" else 1, "exec": nblocks}
                rooms = {"bool": broom, "exec": eroom}
                here = [o for o in leaf.outcomes if o.run.admits(sizes, rooms)]
                if bv != "none":
                    lab = "top(bool)=" + bv
                    other = "top(bool)=" + ("false" if bv == "true" else "true")
                    here = [o for o in here if other not in o.run.labels]
                where = "bool=%s, %d block(s)" % (bv, nblocks)
                if len(here) != 1:
                    bad.setdefault("table/%s/%d" % (bv, nblocks), "%s: %d extracted outcomes (expected exactly one): %s" % (where, len(here), "; ".join(o.describe() for o in here)))
                    continue
                o = here[0]
                k = kind_of(o)
                if want == "skip":
                    if k != "recoverable(underflow)" or o.run.mutated:
                        bad.setdefault("table/%s/%d" % (bv, nblocks), "%s: expected the instruction to be skipped (recoverable underflow, nothing changed); extracted %s" % (where, o.describe()))
                    continue
                if k != "ok":
                    bad.setdefault("table/%s/%d" % (bv, nblocks), "%s: expected success with %s; extracted %s" % (where, want, o.describe()))
                    continue
                ok, why = effect_matches(o, want)
                if not ok:
                    bad.setdefault("table/%s/%d" % (bv, nblocks), "%s: documented action %s; %s (extracted %s)" % (where, want or "nothing", why, o.describe()))
    return bad, n


def analyse(ctx):
    """shared by C01/C02/C03: leaf table with outcomes (cached on the context)"""
    cached = getattr(ctx, "_push_analysis", None)
    if cached:
        return cached
    fx = Fx(ctx)
    leaves, problems = enumerate_leaves(ctx, fx)
    ctx._push_analysis = (fx, leaves, problems)
    return ctx._push_analysis
