"""C11 - Mutation keeps genome structure: flips stay in place, UMAD only inserts/deletes."""
from .pat import ANY, Bind, Call, Param, CParam, Field, Through, Agg, Const, BinOp, UnOp, match, find, callee_is, path_ends
from .sym import short, subexprs
from .common import (TryOk, is_err_return, return_paths, peel, mentions, derives_from_self, rng_passthrough, closure_paths, cond_str, self_field,
                     audit_panics, CallGraph)
from . import rules_c12

META = {
    "level": "other",
    "explanation": (
        "Static rule conformance on the MIR of WithRate (2 impls), WithOneOverLength (2 impls) and Umad::mutate with their closures. Decided: (R11.1) the bit-flip pipeline is "
        "exactly into_iter().map(closure).collect() - no filter/flat_map/skip/take/chain/rev/zip - and the closure returns either Not::not(bit) or bit of *its own* argument, "
        "so length and positions are preserved and every gene is unchanged or negated; (R11.2) WithOneOverLength forwards the same genome and rng to WithRate::mutate once; "
        "(R11.3) UMAD: the empty-parent branch is control-dependent on size()==0 and empty_addition_rate==Some(_) and yields Option->into_iter->collect of one new_gene call "
        "(<= 1 gene); the main pass is into_iter().flat_map(closure).flatten().collect() where the closure returns the two-element array [old, new] in that order, old being "
        "then_some(.., the closure's own gene argument) and new being None or Some(new_gene(..)) whose only source is gene_generator.sample(rng); no other source of genes and "
        "no reordering adaptor. The degenerate-rate corollaries follow from these shapes plus C12's draw wiring and rand's random_bool(0/1) contract (argued, not mechanised)."),
    "rules": {
        "R11.1": "WithRate: into_iter.map.collect only; closure returns !bit or bit",
        "R11.2": "WithOneOverLength forwards (genome, rng) once to WithRate::new(rate).mutate",
        "R11.3": "UMAD: empty branch shape; main pass into_iter.flat_map([old,new]).flatten.collect; gene sources",
        "R11.4": "panic-site audit over the mutators (unreachable! closures take Infallible; random_bool rate proviso)",
        "R11.6": "genome plumbing the mutators rely on: Linear::size = length of the gene vector, IntoIterator = the gene vector's own iterator (rules shared with C10 R10.6)",
        "R11.5": "draw wiring behind the degenerate-rate corollaries (strict draw < rate; add/del/del_new roles) - rules shared with C12",
    },
    "trusted_base": ["std iterator adaptors map/flat_map/flatten/collect preserve order; FromIterator impls of Vec/Bitstring/Vector/Plushy collect in order (C18 R18.1 checks the workspace's own)", "uecfacts driver + uecheck rule engine"],
    "assumptions": ["rates lie in [0,1] (rand's random_bool panics otherwise; documented proviso)"],
    "not_decided": ["degenerate-rate behaviour as runtime statements"],
}

M = rules_c12.M
UM = rules_c12.UM


def umad_shape_legacy(ctx):
    f, main, empty = rules_c12.umad_closure(ctx)
    at = f.at()
    ps = return_paths(ctx.paths(f))
    ctx.check(len(main) >= 1 and len(main) + len(empty) == len(ps), "R11.3", "Umad/main-pass=into_iter.flat_map.flatten.collect", "%d main-pass paths, %d empty-branch paths" % (len(main), len(empty)), at,
              bad_detail="main pass must be collect(flatten(flat_map(into_iter(genome), closure))); extracted " + "; ".join(short(p.ret, 7) for p in ps))
    for p, clo in main:
        extra = [c for c in p.calls() if not callee_is(c, "IntoIterator::into_iter", "Iterator::flat_map", "Iterator::flatten", "Iterator::collect", "Linear::size")]
        extra = [c for c in extra if not (callee_is(c, "PartialEq::eq") or c[0] != "call")]
        ctx.check(not extra, "R11.3", "Umad/main-pass-no-other-adaptor", "only size/into_iter/flat_map/flatten/collect on the main path", at,
                  bad_detail="unexpected calls on the main path: " + ", ".join(short(c, 3) for c in extra))
        break
    if main:
        cps = [q for q in closure_paths(ctx, main[0][1]) if q.end == "return"]
        good = bool(cps)
        for q in cps:
            r = rules_c12.umad_pair(q.ret)
            ok = r is not None and len(r[3]) == 2
            if ok:
                old, new = r[3]
                ok = match(old, Call("bool::then_some", ANY, CParam(2), nargs=2)) or match(old, Agg("Option::Some", CParam(2))) or match(old, Agg("Option::None"))
                ok = ok and (match(new, Agg("Option::None")) or match(new, Agg("Option::Some", Call("Umad::new_gene", Through(Param(1)), lambda a: rng_passthrough(a, 3), nargs=2))))
                # the parent's gene must not appear in the `new` slot, nor a generated gene in the `old` slot
                ok = ok and not any(x[:2] == ("cparam", 2) for x in subexprs(new)) and not any(callee_is(x, "Umad::new_gene", "Distribution::sample") for x in subexprs(old))
            good = good and ok
        ctx.check(good, "R11.3", "Umad/closure-returns-[old?,new?]-in-order", "; ".join(short(q.ret, 4) for q in cps), at,
                  bad_detail="per parent gene the closure must return [old: Option(parent gene), new: Option(new_gene())] in that order; extracted " + "; ".join(short(q.ret, 6) for q in cps))
    emp = [p for p in empty if not is_err_return(p)]
    if len(emp) == 2 and rules_c12.umad_empty_branch_explicit(ctx, emp):
        ctx.ok("R11.3", "Umad/empty-parent-yields-at-most-one-new-gene", "if random_bool(..) { Some(new_gene) } else { None }, collected: at most one gene, from new_gene", at)
        emp_done = True
    else:
        emp_done = False
    for p in ([] if emp_done else emp):
        size0 = [c for c in p.conds if match(c[0], BinOp("Eq", Call("Linear::size", Through(Param(2)), nargs=1), Const(0), commutative=True)) and c[1] != 0]
        some = [c for c in p.conds if c[0][0] == "discr" and self_field(c[0][1], "empty_addition_rate") and c[1] == 1]
        b = {}
        shape = match(p.ret, Agg("Result::Ok", Call("Iterator::collect", Call("IntoIterator::into_iter", Call("bool::then", ANY, Bind("clo"), nargs=2), nargs=1), nargs=1)), b)
        ctx.check(bool(size0) and bool(some) and shape, "R11.3", "Umad/empty-parent-yields-at-most-one-new-gene", cond_str(p)[:200] + " -> " + short(p.ret, 5), at,
                  bad_detail="empty branch must be guarded by size()==0 && empty_addition_rate==Some and be collect(into_iter(bool.then(new_gene))); extracted [%s] -> %s" % (cond_str(p)[:300], short(p.ret, 8)))
    ctx.floor("R11.3", len(emp), 1, "empty-parent branch")
    # when empty-genome addition is disabled the main pass is taken (which yields nothing for an empty genome)
    disabled = [p for p, _ in main if any(c[0][0] == "discr" and self_field(c[0][1], "empty_addition_rate") and c[1] != 1 for c in p.conds)]
    ctx.check(len(disabled) >= 1, "R11.3", "Umad/disabled-empty-addition-falls-through-to-main-pass", "%d path(s)" % len(disabled), at)



def umad_shape_canonical(ctx):
    """the same clauses read from canonical paths (rules_c12.umad_semantics): whatever the spelling of the pipeline, of the
    per-gene value ([old, new] flattened, old.into_iter().chain(new), a helper returning the pair) and of the empty-parent branch"""
    V = rules_c12.umad_semantics(ctx)
    at = V["f"].at()
    why = "; ".join(V["detail"])[:600]
    ctx.check(V["shape"] and V["n_main"] >= 1, "R11.3", "Umad/main-pass=into_iter.flat_map.flatten.collect", "%d main-pass paths, %d empty-branch paths" % (V["n_main"], V["n_empty"]), at, bad_detail=why)
    ctx.check(V["shape"], "R11.3", "Umad/main-pass-no-other-adaptor", "only size/into_iter/flat_map/flatten/collect on the main path", at, bad_detail=why)
    ctx.check(V["order"] and V["wiring"], "R11.3", "Umad/closure-returns-[old?,new?]-in-order", "per parent gene: the parent's gene (if kept) then at most one new gene", at, bad_detail=why)
    ctx.check(V["empty"] and V["n_empty"] >= 1, "R11.3", "Umad/empty-parent-yields-at-most-one-new-gene", "one new gene or none, under size()==0 && empty rate configured", at, bad_detail=why)
    ctx.floor("R11.3", V["n_empty"], 1, "empty-parent branch")
    ctx.check(V["disabled"], "R11.3", "Umad/disabled-empty-addition-falls-through-to-main-pass", "main pass taken when no empty-addition rate is configured", at, bad_detail=why)


def check(ctx):
    from .common import shadowing_audit
    ctx.floor('R11.6', shadowing_audit(ctx, 'R11.6', ('ec_core::operator::mutator::', 'ec_linear::genome::Linear')), 4, 'Mutator / Linear impls of workspace types (shadowing audit)')
    from . import rules_c10
    rules_c10.check_linear_impls(rules_c12._Only(ctx, {"R10.6": "R11.6"}))
    rules_c12.check_with_rate(ctx, "R11.1", None)
    rules_c12.check_one_over_length(ctx, "R11.2", None)
    from . import ckit as K
    K.either(ctx, umad_shape_legacy, umad_shape_canonical)
    g = ctx.fn("ec_linear::mutator::umad::Umad::<GeneGenerator>::new_gene")
    psn = return_paths(ctx.paths(g))
    ctx.check(len(psn) == 1 and match(psn[0].ret, Call("Distribution::sample", lambda a: derives_from_self(a, field="gene_generator"), lambda a: rng_passthrough(a, 2), nargs=2)) and len(psn[0].calls()) == 1,
              "R11.3", "Umad::new_gene=gene_generator.sample(rng)", short(psn[0].ret), g.at())
    # ---- R11.5: the degenerate-rate corollaries (rate 0 = identity, flip rate >= 1 flips all, deletion 1 = empty,
    # addition 1 & deletion 0 = one new gene after each) rest on the draw wiring: re-evaluated here (rules shared with C12)
    sub = rules_c12._Only(ctx, {"R12.1": "R11.5", "R12.3": "R11.5"})
    rules_c12.check_with_rate(sub, None, "R12.1")
    rules_c12.check_umad_rates(sub, "R12.3")
    # ---- panic audit -------------------------------------------------------------
    cg = CallGraph(ctx.F)
    roots = [fn.id for fn in ctx.trait_impl_fns("ec_core::operator::mutator::Mutator::mutate") if fn.crate == "ec_linear"]
    scope = cg.reach(roots, stop=lambda x: x.startswith("<push::") or x.startswith("push::") or x.startswith("ec_core::distributions") or x.startswith("<ec_core::distributions"))
    discharge = [
        {"fn": "with_one_over_length::WithOneOverLength as", "what": "panicking::panic",
         "reason": "unreachable!() in a closure whose argument is Infallible (uninhabited): the closure can never be called", "guard": guard_infallible_closure},
        {"fn": "umad::Umad<GeneGenerator> as ec_core::operator::mutator::Mutator<G>>::mutate", "what": "Rng::random_bool",
         "reason": "random_bool panics only for p outside [0,1]: documented proviso (rates are probabilities)", "guard": None},
    ]
    audit_panics(ctx, "R11.4", scope, discharge, floor=3)


def guard_infallible_closure(ctx, s):
    fn = ctx.F.fns[s["fn"]]
    if not fn.is_closure or fn.argc < 2:
        return False, "not a closure"
    ty = fn.locals[2]["ty"]["s"]
    return ty == "std::convert::Infallible", "closure argument type " + ty
