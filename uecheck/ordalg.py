"""Finite evaluation of comparison code.

A comparison function over two values that touches them ONLY through comparisons of one projected payload
(`self.0` vs `other.0`, `self.total_result` vs `other.total_result`, ...) is decided by the relation between the two
payloads, which has only four values: lt, eq, gt, none (incomparable; PartialOrd only).  This module evaluates
the walker's expression trees / path conditions of such a function under each relation and returns its result table,
so rules can state WHAT the function computes (e.g. "the reverse of the payload order") rather than HOW it is
spelled.  Anything it cannot evaluate (a comparison of something other than the payloads, an unknown call) raises
Unknown: the caller fails closed."""
from .pat import callee_is, path_ends
from .common import peel

RELS = ("lt", "eq", "gt", "none")
ORD = {"lt": -1, "eq": 0, "gt": 1}
NAME = {-1: "Less", 0: "Equal", 1: "Greater"}


class Unknown(Exception):
    pass


def _flip(rel):
    return {"lt": "gt", "gt": "lt"}.get(rel, rel)


class Eval:
    def __init__(self, is_a, is_b, rel):
        self.is_a, self.is_b, self.rel = is_a, is_b, rel

    def side(self, e):
        rev = False
        e = peel(e, ("Deref::deref", "Borrow::borrow", "AsRef::as_ref"))
        while e[0] == "agg" and e[2].endswith("Reverse") and len(e[3]) == 1:
            rev = not rev
            e = peel(e[3][0], ("Deref::deref", "Borrow::borrow", "AsRef::as_ref"))
        if self.is_a(e):
            return "a", rev
        if self.is_b(e):
            return "b", rev
        raise Unknown("compares something that is not one of the two payloads: %s" % (short_(e),))

    def relation(self, x, y):
        (sx, rx), (sy, ry) = self.side(x), self.side(y)
        if rx != ry:
            raise Unknown("mixed Reverse wrappers")
        if sx == sy:
            r = "eq"
        elif sx == "a":
            r = self.rel
        else:
            r = _flip(self.rel)
        return _flip(r) if rx else r

    def ev(self, e):
        k = e[0]
        if k in ("ref", "deref"):
            return self.ev(e[1])
        if k == "const":
            v = e[3]
            if isinstance(v, bool) or v in (0, 1) and e[1] == "bool":
                return bool(v)
            if e[1] == "bool":
                return e[2] == "true"
            raise Unknown("constant %s" % (e[2],))
        if k == "agg":
            n = e[2]
            for v, nm in NAME.items():
                if n.endswith("Ordering::" + nm):
                    return ("ord", v)
            if n.endswith("Option::None"):
                return ("opt", None)
            if n.endswith("Option::Some") and len(e[3]) == 1:
                return ("opt", self.ev(e[3][0]))
            raise Unknown("aggregate %s" % n)
        if k == "unop" and e[1] == "Not":
            v = self.ev(e[2])
            if isinstance(v, bool):
                return not v
            raise Unknown("! of non-bool")
        if k == "discr":
            v = self.ev(e[1])
            if isinstance(v, tuple) and v[0] == "ord":
                return ("discr", v[1])
            if isinstance(v, tuple) and v[0] == "opt":
                return ("discr", 0 if v[1] is None else 1)
            raise Unknown("discriminant of %r" % (v,))
        if k == "field" and e[3] == "Some":
            v = self.ev(e[1])
            if isinstance(v, tuple) and v[0] == "opt" and v[1] is not None:
                return v[1]
            raise Unknown("payload of a non-Some")
        if k == "call":
            args = e[3]
            if callee_is(e, "Ord::cmp") and len(args) == 2:
                r = self.relation(args[0], args[1])
                if r == "none":
                    raise Unknown("Ord::cmp on incomparable payloads")
                return ("ord", ORD[r])
            if callee_is(e, "PartialOrd::partial_cmp") and len(args) == 2:
                r = self.relation(args[0], args[1])
                return ("opt", None if r == "none" else ("ord", ORD[r]))
            for nm, ok in (("lt", ("lt",)), ("le", ("lt", "eq")), ("gt", ("gt",)), ("ge", ("gt", "eq"))):
                if callee_is(e, "PartialOrd::" + nm) and len(args) == 2:
                    return self.relation(args[0], args[1]) in ok
            if callee_is(e, "PartialEq::eq") and len(args) == 2:
                return self.relation(args[0], args[1]) == "eq"
            if callee_is(e, "PartialEq::ne") and len(args) == 2:
                return self.relation(args[0], args[1]) != "eq"
            if callee_is(e, "Ordering::reverse") and len(args) == 1:
                v = self.ev(args[0])
                if isinstance(v, tuple) and v[0] == "ord":
                    return ("ord", -v[1])
                raise Unknown("reverse of non-Ordering")
            if callee_is(e, "Option::map") and len(args) == 2:
                v = self.ev(args[0])
                f = args[1]
                if not (isinstance(v, tuple) and v[0] == "opt"):
                    raise Unknown("map on non-Option")
                if f[0] == "fnitem" and path_ends(f[1], "Ordering::reverse"):
                    return ("opt", None if v[1] is None else ("ord", -v[1][1]))
                raise Unknown("Option::map with a function other than Ordering::reverse")
            if callee_is(e, "Ordering::then") and len(args) == 2:
                v = self.ev(args[0])
                if isinstance(v, tuple) and v[0] == "ord":
                    return v if v[1] != 0 else self.ev(args[1])
            for nm, ok in (("is_lt", (-1,)), ("is_le", (-1, 0)), ("is_gt", (1,)), ("is_ge", (0, 1)), ("is_eq", (0,)), ("is_ne", (-1, 1))):
                if callee_is(e, "Ordering::" + nm) and len(args) == 1:
                    v = self.ev(args[0])
                    if isinstance(v, tuple) and v[0] == "ord":
                        return v[1] in ok
            if callee_is(e, "Option::is_some", "Option::is_none") and len(args) == 1:
                v = self.ev(args[0])
                if isinstance(v, tuple) and v[0] == "opt":
                    return (v[1] is not None) == callee_is(e, "Option::is_some")
            if callee_is(e, "Option::is_some_and") or callee_is(e, "Option::is_none_or"):
                raise Unknown("closure predicate")
            raise Unknown("call of %s" % e[1])
        if k == "binop" and e[1] in ("Eq", "Ne"):
            a, b = self.ev(e[2]), self.ev(e[3])
            return (a == b) if e[1] == "Eq" else (a != b)
        raise Unknown("expression %s" % short_(e))

    def holds(self, cond):
        e, want = cond[0], cond[1]
        v = self.ev(e)
        if isinstance(v, bool):
            v = 1 if v else 0
        elif isinstance(v, tuple) and v[0] == "discr":
            v = v[1]
        elif isinstance(v, tuple) and v[0] == "ord":
            v = v[1]
        else:
            raise Unknown("branch on %r" % (v,))
        cands = {v, v & 0xFF, v & 0xFFFFFFFFFFFFFFFF} if isinstance(v, int) else {v}
        if isinstance(want, tuple) and want and want[0] == "not":
            return not (cands & set(want[1]))
        return want in cands


def short_(e):
    from .sym import short
    try:
        return short(e, 4)
    except Exception:
        return str(e)[:80]


def table(paths, is_a, is_b, rels=RELS):
    """{rel: value | ('panic',) | ('unknown', why)} for a function given as walker paths"""
    out = {}
    for rel in rels:
        ev = Eval(is_a, is_b, rel)
        try:
            feas = []
            for p in paths:
                if all(ev.holds(c) for c in p.conds):
                    feas.append(p)
            if len(feas) != 1:
                out[rel] = ("unknown", "%d feasible paths" % len(feas))
                continue
            p = feas[0]
            if p.end != "return":
                out[rel] = ("panic",)
                continue
            v = ev.ev(p.ret)
            out[rel] = v
        except Unknown as u:
            out[rel] = ("unknown", str(u))
    return out


def show(v):
    if isinstance(v, bool):
        return str(v).lower()
    if isinstance(v, tuple):
        if v[0] == "ord":
            return NAME[v[1]]
        if v[0] == "opt":
            return "None" if v[1] is None else "Some(%s)" % show(v[1])
        if v[0] == "unknown":
            return "cannot be decided from the payload relation (%s)" % v[1]
        if v[0] == "panic":
            return "panics"
    return str(v)


def expected(method, reversed_):
    """expected result table of an ordering method on a type whose order is the payload order (or its reverse)"""
    t = {}
    for rel in RELS:
        r = _flip(rel) if reversed_ else rel          # the type's own relation between self and other
        if method == "cmp":
            if rel != "none":
                t[rel] = ("ord", ORD[r])
        elif method == "partial_cmp":
            t[rel] = ("opt", None if r == "none" else ("ord", ORD[r]))
        elif method in ("lt", "le", "gt", "ge"):
            ok = {"lt": ("lt",), "le": ("lt", "eq"), "gt": ("gt",), "ge": ("gt", "eq")}[method]
            t[rel] = r in ok
        elif method == "eq":
            t[rel] = r == "eq"
        elif method == "ne":
            t[rel] = r != "eq"
    return t
