"""Call graph (A5), who-may-call (A9) and panic-site enumeration (A8)."""
from .pat import path_ends


def fn_uses(fn):
    """All function items *used* in a body: called, or mentioned as a constant
    operand (a function passed uncalled, e.g. map_init(rand::rng, ..)).
    Yields (kind, path, full, resolved_def|None, resolved_local, block, span, term_or_const_json)."""
    for bi, b in enumerate(fn.blocks):
        if b.get("cleanup"):
            continue
        for st in b["stmts"]:
            if st["k"] != "assign":
                continue
            for o in rv_operands(st["rv"]):
                if o.get("k") == "const" and "fn" in o:
                    res = o.get("res")
                    yield ("value", o["fn"], o["full"], res["def"] if res else None, bool(res and res.get("local")), bi, st.get("span"), o)
        t = b["term"]
        if t["k"] == "call":
            if t.get("fn"):
                res = t.get("res")
                yield ("call", t["fn"], t["full"], res["def"] if res else None, bool(res and res.get("local")), bi, t.get("span"), t)
            for o in t["args"]:
                if o.get("k") == "const" and "fn" in o:
                    res = o.get("res")
                    yield ("value", o["fn"], o["full"], res["def"] if res else None, bool(res and res.get("local")), bi, t.get("span"), o)


def rv_operands(rv):
    k = rv["k"]
    if k in ("use", "unop", "cast", "repeat"):
        return [rv["a"]]
    if k == "binop":
        return [rv["a"], rv["b"]]
    if k == "agg":
        return rv["ops"]
    return []


WORKSPACE = ("ec_core", "ec_linear", "push", "uec_states")


class CallGraph:
    def __init__(self, F):
        self.F = F
        self._edges = {}
        # trait item -> workspace impl fns
        self.impls = {}
        for f in F.fns.values():
            if f.trait_item:
                self.impls.setdefault(f.trait_item, []).append(f.id)
        # provided (default) trait methods are fns whose id == trait item path
        self.local_ids = set(F.fns.keys())

    def edges(self, fid):
        e = self._edges.get(fid)
        if e is not None:
            return e
        fn = self.F.fns.get(fid)
        out = set()
        if fn is not None:
            for c in self.F.closures_of(fid):
                out.add(c)
            for kind, path, full, rdef, rlocal, bi, span, t in fn_uses(fn):
                if rdef and rdef in self.local_ids:
                    out.add(rdef)
                    continue
                if path in self.local_ids and not self.impls.get(path):
                    out.add(path)
                    continue
                if path in self.impls:
                    if rdef is not None and rdef != path:
                        if rdef in self.local_ids:
                            out.add(rdef)
                        continue
                    # unresolved trait method.  Workspace traits: class-hierarchy over all
                    # workspace impls.  External (std, rand, ..) traits: only impls whose self
                    # type is the ADT named at the call; a type parameter receiver is
                    # user-supplied code, outside any claim.
                    if path.split("::", 1)[0] in WORKSPACE:
                        out.update(self.impls[path])
                        if path in self.local_ids:
                            out.add(path)
                    else:
                        targs = (t or {}).get("targs") or []
                        st = targs[0] if targs else None
                        while st and st.get("k") in ("ref", "refmut"):
                            st = st.get("of")
                        if st and st.get("k") == "adt":
                            for cand in self.impls[path]:
                                im = self.F.impl_of_fn(self.F.fns[cand])
                                if im and im["self"].get("path") == st["path"]:
                                    out.add(cand)
                elif path in self.local_ids:
                    out.add(path)
        self._edges[fid] = out
        return out

    def reach(self, roots, stop=None):
        seen = set()
        stack = list(roots)
        while stack:
            x = stack.pop()
            if x in seen:
                continue
            if stop and stop(x):
                continue
            seen.add(x)
            stack.extend(self.edges(x))
        return seen


# ---------------------------------------------------------------------------
# panic sites

MAY_PANIC_CALLEES = [
    "Option::unwrap", "Option::expect", "Result::unwrap", "Result::expect",
    "Result::unwrap_err", "Result::expect_err",
    "Index::index", "IndexMut::index_mut",
    "[T]::swap_with_slice", "[T]::copy_from_slice",
    "[T]::clone_from_slice", "[T]::split_at",
    "[T]::split_at_mut", "[T]::swap",
    "[T]::chunks", "[T]::windows", "[T]::rotate_left",
    "[T]::rotate_right", "[T]::copy_within",
    "Vec::remove", "Vec::insert", "Vec::swap_remove",
    "Vec::split_off", "Vec::drain", "Vec::splice",
    "String::remove", "String::insert", "String::insert_str", "String::split_off",
    "RefCell::borrow", "RefCell::borrow_mut",
    "Rng::random_range", "Rng::random_bool", "Rng::random_ratio", "Rng::gen_range", "Rng::gen_bool",
    "Iterator::step_by", "Rc::get_mut_unchecked",
    "ops::Div::div", "ops::Rem::rem", "ops::Shl::shl", "ops::Shr::shr",
    "NonZero::new_unchecked", "Duration::new", "Instant::duration_since",
    "char::from_digit", "str::split_at",
    "i64::pow", "i64::abs", "i64::div_euclid", "i64::rem_euclid",
    "Layout::from_size_align_unchecked", "thread::spawn", "JoinHandle::join",
    "process::exit", "process::abort",
]

IGNORED_ASSERTS = ("MisalignedPointerDereference", "NullPointerDereference")


def short_callee(path):
    from .sym import last_seg
    return last_seg(path, 2)


def panic_sites(F, fids):
    """Enumerate may-panic sites in the given functions.  Each site:
    {fn, kind: diverge|callee|assert, what, block, at, exp, macros, key}"""
    out = []
    for fid in sorted(fids):
        fn = F.fns.get(fid)
        if fn is None:
            continue
        counters = {}
        for bi, b in enumerate(fn.blocks):
            if b.get("cleanup"):
                continue
            t = b["term"]
            site = None
            if t["k"] == "call":
                path = t.get("fn")
                if t["target"] is None:
                    site = ("diverge", short_callee(path) if path else "<indirect>")
                elif path and any(path_ends(path, n) for n in MAY_PANIC_CALLEES):
                    site = ("callee", short_callee(path))
            elif t["k"] == "assert":
                if t["msg"] not in IGNORED_ASSERTS:
                    site = ("assert", t["msg"])
            if site:
                n = counters.get(site, 0)
                counters[site] = n + 1
                sp = t.get("span") or {}
                out.append({
                    "fn": fid, "kind": site[0], "what": site[1], "block": bi, "ordinal": n,
                    "at": sp.get("at"), "exp": sp.get("exp", False), "macros": sp.get("macros", []),
                    "key": "%s#%s:%s#%d" % (fid, site[0], site[1], n),
                    "term": t,
                })
    return out
