"""Call graph (A5), who-may-call (A9) and panic-site enumeration (A8)."""
from .pat import path_ends


def fn_uses(fn):
    """All function items *used* in a body: called, or mentioned as a constant
    operand (a function passed uncalled, e.g. map_init(rand::rng, ..)).
    Yields (kind, path, full, resolved_def|None, resolved_local, block, span, term_or_const_json)."""
    for bi, b in enumerate(fn.blocks):
        if b.get("cleanup"):
            continue
        for st in b["stmts"]:
            if st["k"] != "assign":
                continue
            for o in rv_operands(st["rv"]):
                if o.get("k") == "const" and "fn" in o:
                    res = o.get("res")
                    yield ("value", o["fn"], o["full"], res["def"] if res else None, bool(res and res.get("local")), bi, st.get("span"), o)
        t = b["term"]
        if t["k"] == "call":
            if t.get("fn"):
                res = t.get("res")
                yield ("call", t["fn"], t["full"], res["def"] if res else None, bool(res and res.get("local")), bi, t.get("span"), t)
            for o in t["args"]:
                if o.get("k") == "const" and "fn" in o:
                    res = o.get("res")
                    yield ("value", o["fn"], o["full"], res["def"] if res else None, bool(res and res.get("local")), bi, t.get("span"), o)


def rv_operands(rv):
    k = rv["k"]
    if k in ("use", "unop", "cast", "repeat"):
        return [rv["a"]]
    if k == "binop":
        return [rv["a"], rv["b"]]
    if k == "agg":
        return rv["ops"]
    return []


WORKSPACE = ("ec_core", "ec_linear", "push", "uec_states")


class CallGraph:
    def __init__(self, F):
        self.F = F
        self._edges = {}
        # trait item -> workspace impl fns
        self.impls = {}
        for f in F.fns.values():
            if f.trait_item:
                self.impls.setdefault(f.trait_item, []).append(f.id)
        # provided (default) trait methods are fns whose id == trait item path
        self.local_ids = set(F.fns.keys())

    def edges(self, fid):
        e = self._edges.get(fid)
        if e is not None:
            return e
        fn = self.F.fns.get(fid)
        out = set()
        if fn is not None:
            for c in self.F.closures_of(fid):
                out.add(c)
            for kind, path, full, rdef, rlocal, bi, span, t in fn_uses(fn):
                if rdef and rdef in self.local_ids:
                    out.add(rdef)
                    continue
                if path in self.local_ids and not self.impls.get(path):
                    out.add(path)
                    continue
                if path in self.impls:
                    if rdef is not None and rdef != path:
                        if rdef in self.local_ids:
                            out.add(rdef)
                        continue
                    # unresolved trait method.  Workspace traits: class-hierarchy over all
                    # workspace impls.  External (std, rand, ..) traits: only impls whose self
                    # type is the ADT named at the call; a type parameter receiver is
                    # user-supplied code, outside any claim.
                    if path.split("::", 1)[0] in WORKSPACE:
                        out.update(self.impls[path])
                        if path in self.local_ids:
                            out.add(path)
                    else:
                        targs = (t or {}).get("targs") or []
                        st = targs[0] if targs else None
                        while st and st.get("k") in ("ref", "refmut"):
                            st = st.get("of")
                        if st and st.get("k") == "adt":
                            for cand in self.impls[path]:
                                im = self.F.impl_of_fn(self.F.fns[cand])
                                if im and im["self"].get("path") == st["path"]:
                                    out.add(cand)
                elif path in self.local_ids:
                    out.add(path)
        self._edges[fid] = out
        return out

    def reach(self, roots, stop=None):
        seen = set()
        stack = list(roots)
        while stack:
            x = stack.pop()
            if x in seen:
                continue
            if stop and stop(x):
                continue
            seen.add(x)
            stack.extend(self.edges(x))
        return seen


# ---------------------------------------------------------------------------
# panic sites

INTS = ("i8", "i16", "i32", "i64", "i128", "isize", "u8", "u16", "u32", "u64", "u128", "usize")
# integer methods that panic on a zero divisor, overflow (debug), or an out-of-domain argument
_INT_PANICKY = ("pow", "abs", "div_euclid", "rem_euclid", "isqrt", "ilog", "ilog2", "ilog10", "next_power_of_two",
                "next_multiple_of", "div_ceil", "div_floor", "wrapping_div", "wrapping_rem", "wrapping_div_euclid",
                "wrapping_rem_euclid", "overflowing_div", "overflowing_rem", "overflowing_div_euclid",
                "overflowing_rem_euclid", "saturating_div", "strict_add", "strict_sub", "strict_mul", "strict_div",
                "strict_rem", "strict_neg", "strict_pow", "strict_shl", "strict_shr", "strict_abs",
                "unchecked_add", "unchecked_sub", "unchecked_mul", "unchecked_shl", "unchecked_shr", "from_str_radix",
                "midpoint_unchecked", "clamp")

# std / core / alloc callees that may panic for some argument (documented "# Panics" sections, confirmed by reading)
MAY_PANIC_CALLEES = [
    "Option::unwrap", "Option::expect", "Result::unwrap", "Result::expect",
    "Result::unwrap_err", "Result::expect_err", "Option::unwrap_unchecked", "Result::unwrap_unchecked",
    "Index::index", "IndexMut::index_mut",
    "[T]::swap_with_slice", "[T]::copy_from_slice",
    "[T]::clone_from_slice", "[T]::split_at",
    "[T]::split_at_mut", "[T]::swap",
    "[T]::chunks", "[T]::chunks_mut", "[T]::chunks_exact", "[T]::chunks_exact_mut", "[T]::rchunks", "[T]::rchunks_mut",
    "[T]::rchunks_exact", "[T]::windows", "[T]::rotate_left",
    "[T]::rotate_right", "[T]::copy_within", "[T]::select_nth_unstable", "[T]::select_nth_unstable_by",
    "[T]::select_nth_unstable_by_key", "[T]::get_unchecked", "[T]::get_unchecked_mut", "[T]::as_chunks",
    "Vec::remove", "Vec::insert", "Vec::swap_remove",
    "Vec::split_off", "Vec::drain", "Vec::splice", "Vec::extend_from_within", "Vec::set_len", "Vec::from_raw_parts",
    "VecDeque::insert", "VecDeque::swap", "VecDeque::split_off", "VecDeque::drain", "VecDeque::range", "VecDeque::rotate_left", "VecDeque::rotate_right",
    "String::remove", "String::insert", "String::insert_str", "String::split_off", "String::truncate", "String::drain", "String::replace_range",
    "RefCell::borrow", "RefCell::borrow_mut", "RefCell::replace", "RefCell::replace_with", "RefCell::swap", "RefCell::take",
    "Rng::random_range", "Rng::random_bool", "Rng::random_ratio", "Rng::gen_range", "Rng::gen_bool", "Rng::gen_ratio",
    "rand::random_range", "rand::random_bool", "rand::random_ratio", "index::sample", "IteratorRandom::choose_multiple_fill",
    "Iterator::step_by", "Iterator::sum", "Iterator::product", "Rc::get_mut_unchecked",
    "ops::Div::div", "ops::Rem::rem", "ops::Shl::shl", "ops::Shr::shr", "ops::DivAssign::div_assign", "ops::RemAssign::rem_assign",
    "NonZero::new_unchecked", "Duration::new", "Duration::from_secs_f64", "Duration::from_secs_f32", "Duration::mul_f64", "Duration::mul_f32",
    "Duration::div_f64", "Duration::div_f32", "Instant::duration_since",
    "char::from_digit", "char::to_digit", "char::from_u32_unchecked", "char::is_digit", "str::split_at", "str::split_at_mut",
    "str::from_utf8_unchecked", "str::get_unchecked", "str::repeat", "[T]::repeat",
    "Ord::clamp", "f64::clamp", "f32::clamp", "PartialOrd::clamp",
    "Layout::from_size_align_unchecked", "thread::spawn", "JoinHandle::join", "thread::scope", "mpsc::Receiver::recv",
    "process::exit", "process::abort", "hint::unreachable_unchecked", "hint::assert_unchecked",
    "f64::to_int_unchecked", "f32::to_int_unchecked",
    # easy_cast: the non-try conversions panic on an out-of-range value (with debug assertions or its always_assert feature)
    "Conv::conv", "ConvApprox::conv_approx", "ConvFloat::conv_trunc", "ConvFloat::conv_nearest", "ConvFloat::conv_floor", "ConvFloat::conv_ceil",
    "Cast::cast", "CastApprox::cast_approx", "CastFloat::cast_trunc", "CastFloat::cast_nearest", "CastFloat::cast_floor", "CastFloat::cast_ceil",
    # num_traits operations that forward to panicking integer operations
    "Signed::abs", "Signed::abs_sub", "Pow::pow", "num_traits::pow", "pow::pow", "Num::from_str_radix", "Euclid::div_euclid", "Euclid::rem_euclid",
    "Integer::div_floor", "Integer::mod_floor", "Integer::gcd", "Integer::lcm", "Integer::div_rem",
    # ordered_float::NotNan arithmetic panics when the result is NaN
    "NotNan::new_unchecked",
    # itertools
    "Itertools::chunks", "Itertools::exactly_one", "Itertools::tuples", "Itertools::multi_cartesian_product",
] + ["%s::%s" % (t, m) for t in INTS for m in _INT_PANICKY]

STD_CRATES = ("std", "core", "alloc", "hashbrown", "std_detect", "proc_macro", "test")

# third-party callees read and confirmed not to panic for any argument (suffixes of the resolved path);
# a call into a third-party crate that is on neither table is reported as `unvetted` in a panic-audited scope
THIRD_PARTY_NO_PANIC = [
    # rand 0.9: only random_range / random_bool / random_ratio (and seq::index::sample) document panics
    "Rng::random", "Rng::random_iter", "Rng::sample", "Rng::sample_iter", "Rng::fill", "Rng::reborrow",
    "rand::rng", "rand::random", "rand::random_iter", "RngCore::next_u32", "RngCore::next_u64", "RngCore::fill_bytes",
    "SeedableRng::seed_from_u64", "SeedableRng::from_seed", "SeedableRng::from_rng", "SeedableRng::from_os_rng",
    "Distribution::sample", "Distribution::sample_iter", "Distribution::map",
    "Bernoulli::new", "Bernoulli::from_ratio", "Bernoulli::p", "Uniform::new", "Uniform::new_inclusive",
    "<rand::distr::Uniform<X> as std::convert::TryFrom<std::ops::Range<X>>>::try_from", "<rand::distr::Uniform<X> as std::convert::TryFrom<std::ops::RangeInclusive<X>>>::try_from",
    "Choose::new", "Choose::num_choices", "WeightedIndex::new", "WeightedIndex::weight", "WeightedIndex::weights",
    "IndexedRandom::choose", "IndexedRandom::choose_multiple", "IndexedRandom::choose_weighted",
    "IndexedRandom::choose_multiple_weighted", "IndexedMutRandom::choose_mut", "IndexedMutRandom::choose_weighted_mut",
    "SliceRandom::shuffle", "SliceRandom::partial_shuffle",
    "IteratorRandom::choose", "IteratorRandom::choose_stable", "IteratorRandom::choose_multiple",
    "UniformSampler::new", "UniformSampler::new_inclusive", "UniformSampler::sample", "SampleRange::is_empty",
    # num_traits: total conversions / constants / checked, saturating and wrapping forms / float classification
    "ToPrimitive::to_f32", "ToPrimitive::to_f64", "ToPrimitive::to_i64", "ToPrimitive::to_u64", "ToPrimitive::to_usize",
    "ToPrimitive::to_isize", "ToPrimitive::to_i32", "ToPrimitive::to_u32", "ToPrimitive::to_i128", "ToPrimitive::to_u128",
    "ToPrimitive::to_i8", "ToPrimitive::to_u8", "ToPrimitive::to_i16", "ToPrimitive::to_u16",
    "FromPrimitive::from_f32", "FromPrimitive::from_f64", "FromPrimitive::from_i64", "FromPrimitive::from_u64",
    "FromPrimitive::from_usize", "FromPrimitive::from_isize", "FromPrimitive::from_i32", "FromPrimitive::from_u32",
    "NumCast::from", "cast::cast", "AsPrimitive::as_", "Zero::zero", "Zero::is_zero", "One::one", "One::is_one",
    "Bounded::min_value", "Bounded::max_value", "CheckedAdd::checked_add", "CheckedSub::checked_sub",
    "CheckedMul::checked_mul", "CheckedDiv::checked_div", "CheckedRem::checked_rem", "CheckedNeg::checked_neg",
    "SaturatingAdd::saturating_add", "SaturatingSub::saturating_sub", "SaturatingMul::saturating_mul",
    "WrappingAdd::wrapping_add", "WrappingSub::wrapping_sub", "WrappingMul::wrapping_mul", "WrappingNeg::wrapping_neg",
    "Signed::signum", "Signed::is_positive", "Signed::is_negative",
    "Float::is_nan", "Float::is_finite", "Float::is_infinite", "Float::abs", "Float::floor", "Float::ceil", "Float::round",
    "Float::trunc", "Float::sqrt", "Float::powi", "Float::powf", "Float::min", "Float::max", "Float::nan", "Float::infinity",
    # easy_cast: the try_ forms return a Result
    "Conv::try_conv", "ConvApprox::try_conv_approx", "ConvFloat::try_conv_trunc", "ConvFloat::try_conv_nearest",
    "ConvFloat::try_conv_floor", "ConvFloat::try_conv_ceil", "Cast::try_cast", "CastApprox::try_cast_approx",
    "CastFloat::try_cast_trunc", "CastFloat::try_cast_nearest", "CastFloat::try_cast_floor", "CastFloat::try_cast_ceil",
    # ordered_float::OrderedFloat: a transparent wrapper; accessors
    "OrderedFloat::into_inner", "OrderedFloat::new", "OrderedFloat", "NotNan::new", "NotNan::into_inner",
    # polonius_the_crab glue (moves values between the two borrow scopes)
    "polonius_the_crab::polonius", "PoloniusResult::Owned", "PoloniusResult::Borrowing", "Dependent<T>>::return_no_break",
    "Residual>::with_output", "polonius_the_crab::ඞ::Try", "Try<std::result::Result<<fn() -> ! as polonius_the_crab::r#try::never_say_never::FnPtr>::Ret, Err>>>::branch",
    # rayon adaptors (the closures they run are separate bodies, audited on their own)
    "ParallelIterator::collect", "ParallelIterator::map", "ParallelIterator::map_init", "iter::repeatn", "IntoParallelIterator::into_par_iter",
    "IntoParallelRefIterator::par_iter", "ParallelIterator::filter", "ParallelIterator::for_each",
    # miette / thiserror formatting glue
    "AsDisplay<'a>>::as_display", "AsDynError<'a>>::as_dyn_error",
    "Diagnostic::code", "Diagnostic::severity", "Diagnostic::help", "Diagnostic::url", "Diagnostic::source_code", "Diagnostic::labels",
    "Diagnostic::related", "Diagnostic::diagnostic_source",
    # strum / itertools iteration helpers
    "IntoEnumIterator::iter", "VariantNames", "EnumCount", "Itertools::collect_vec", "Itertools::sorted", "Itertools::join",
    "Itertools::interleave", "Itertools::zip_eq", "Itertools::unique", "Itertools::dedup", "Itertools::tuple_windows",
    "Itertools::try_collect", "Itertools::fold_ok", "Itertools::minmax", "Itertools::position_max", "Itertools::position_min",
]
# impls of these std traits on third-party types are structural (derive-like) and assumed panic-free;
# arithmetic operator impls are NOT on this list and are vetted per type below
STRUCTURAL_TRAITS = ("std::clone::Clone", "std::cmp::PartialEq", "std::cmp::Eq", "std::cmp::PartialOrd", "std::cmp::Ord", "std::hash::Hash",
                     "std::default::Default", "std::fmt::Debug", "std::fmt::Display", "std::convert::From", "std::convert::Into",
                     "std::convert::AsRef", "std::borrow::Borrow", "std::ops::Deref", "std::ops::DerefMut", "std::iter::Iterator",
                     "std::iter::IntoIterator", "std::iter::ExactSizeIterator", "std::iter::DoubleEndedIterator", "std::ops::Drop",
                     "std::error::Error", "std::marker::Copy", "std::ops::Neg", "std::ops::Not")
# operator impls vetted per type: OrderedFloat<f64> arithmetic is plain IEEE arithmetic (NotNan's is not: it panics on NaN)
OPERATOR_IMPLS_NO_PANIC = ("<ordered_float::OrderedFloat<T> as std::ops::Add", "<ordered_float::OrderedFloat<T> as std::ops::Sub",
                           "<ordered_float::OrderedFloat<T> as std::ops::Mul", "<ordered_float::OrderedFloat<T> as std::ops::Div",
                           "<ordered_float::OrderedFloat<T> as std::ops::Rem", "<rand::distr::Bernoulli as rand::distr::Distribution<bool>>::sample")


def classify_callee(path, rdef, krate):
    """None (not a may-panic callee) | ("callee", what) | ("unvetted", what)"""
    from .sym import last_seg
    for p in (rdef, path):
        if p and any(path_ends(p, n) for n in MAY_PANIC_CALLEES):
            return ("callee", last_seg(p, 2))
    if not krate or krate in STD_CRATES or krate in WORKSPACE:
        return None
    p = rdef or path
    if any(p.startswith(x) for x in OPERATOR_IMPLS_NO_PANIC):
        return None
    if p.startswith("<") and " as " in p and any((" as " + t) in p for t in STRUCTURAL_TRAITS):
        # `<X as std::ops::Neg>` etc. only for the structural list; operators Add/Sub/Mul/Div/Rem are excluded above
        return None
    if any(path_ends(q, n) or q.endswith(n) for q in (rdef, path) if q for n in THIRD_PARTY_NO_PANIC):
        return None
    return ("unvetted", last_seg(p, 2))


IGNORED_ASSERTS = ("MisalignedPointerDereference", "NullPointerDereference")


def short_callee(path):
    from .sym import last_seg
    return last_seg(path, 2)


def panic_sites(F, fids):
    """Enumerate may-panic sites in the given functions.  Each site:
    {fn, kind: diverge|callee|unvetted|assert, what, block, at, exp, macros, key}
    A function item that is only *mentioned* (passed uncalled to an adaptor) counts like a call of it."""
    out = []
    for fid in sorted(fids):
        fn = F.fns.get(fid)
        if fn is None:
            continue
        counters = {}

        def add(site, bi, sp, t):
            n = counters.get(site, 0)
            counters[site] = n + 1
            sp = sp or {}
            out.append({
                "fn": fid, "kind": site[0], "what": site[1], "block": bi, "ordinal": n,
                "at": sp.get("at"), "exp": sp.get("exp", False), "macros": sp.get("macros", []),
                "key": "%s#%s:%s#%d" % (fid, site[0], site[1], n),
                "term": t,
            })
        values = {}
        for kind, path, full, rdef, rlocal, bi, span, o in fn_uses(fn):
            if kind == "value":
                res = o.get("res") or {}
                site = classify_callee(path, rdef, res.get("krate") or o.get("krate"))
                if site:
                    values.setdefault(bi, []).append((site, span, o))
        for bi, b in enumerate(fn.blocks):
            if b.get("cleanup"):
                continue
            for site, span, o in values.get(bi, []):
                add((site[0], site[1] + "(as value)"), bi, span, o)
            t = b["term"]
            site = None
            if t["k"] == "call":
                path = t.get("fn")
                if t["target"] is None:
                    site = ("diverge", short_callee(path) if path else "<indirect>")
                elif path:
                    res = t.get("res") or {}
                    site = classify_callee(path, res.get("def"), res.get("krate") or t.get("krate"))
            elif t["k"] == "assert":
                if t["msg"] not in IGNORED_ASSERTS:
                    site = ("assert", t["msg"])
            if site:
                add(site, bi, t.get("span"), t)
    return out
