"""C05 - Genome-to-program translation is total and structure preserving."""
from .pat import ANY, Bind, Call, Param, CParam, Field, Through, Agg, Const, BinOp, match, find, callee_is, path_ends
from .sym import short, subexprs
from .common import (TryOk, is_err_return, return_paths, peel, mentions, derives_from_self, closure_paths, cond_str, audit_panics, CallGraph, check_forwarder)

META = {
    "level": "other",
    "explanation": (
        "Static rule conformance on the MIR of <Vec<PushProgram> as From<Plushy>>::from, PushProgram::parse_from_plushy and every NumOpens impl. Decided: (R05.1) linear use of genes: "
        "the gene taken from the shared iterator's next() is, on the Instruction arm, moved into exactly one PushProgram::Instruction(_) that is Vec::push-ed to the current output vector "
        "before any recursive call of that iteration; nothing is cloned, inserted, swapped or reversed; the Close arm pushes nothing (single cursor, append only => no loss, no "
        "duplication, order preserved); (R05.2) the recursive calls of an iteration form a 0..k loop with k = num_opens() of that same instruction, each on the same iterator with a "
        "fresh vector that is pushed as PushProgram::Block(_) right after the call; (R05.3) `return` on Close is control-dependent on the nested flag (top level falls through), the entry "
        "point passes true with the genome's own iterator and returns the filled vector, recursive calls pass false; (R05.4) the NumOpens table: DupBlock/When/Unless -> 1, IfElse -> 2, every "
        "other impl -> 0 (incl. the trait default), ExecInstruction forwards each variant to its own payload, PushInstruction forwards Exec and returns 0 otherwise; (R05.5) panic audit: the "
        "translation has no may-panic site. R05.1-R05.3 are stated in three alternative formulations (caller-supplied output vector; returned vector; a translation split into "
        "sequence-parser / emitter / block-parser functions whose roles are read off their parameter and result types), any one of which must hold. NOT decided: native stack exhaustion from very deep nesting (recursion depth is a runtime quantity). (R05.6) Plushy::new collects the supplied genes in order, get_genes returns a copy of them, PushGene::from / PushProgram::from wrap the instruction they are given."),
    "rules": {
        "R05.1": "each gene is appended exactly once, in order, before recursion; Close appends nothing",
        "R05.2": "exactly num_opens() recursive parses per instruction, each result appended as Block immediately",
        "R05.3": "Close returns iff nested; entry passes (true, genome.into_iter(), fresh vec) and returns that vec",
        "R05.4": "NumOpens table and forwarding dispatchers",
        "R05.6": "the genome and program constructors keep the genes as given: Plushy::new collects its argument in order, PushGene::from / PushProgram::from wrap the instruction",
        "R05.5": "panic-site audit of the translation",
    },
    "trusted_base": ["std Vec::push / vec::IntoIter order", "uecfacts driver + uecheck rule engine"],
    "assumptions": [],
    "not_decided": ["recursion depth / native stack exhaustion"],
}

PARSE = "push::push_vm::program::PushProgram::parse_from_plushy"
FROM = "<std::vec::Vec<push::push_vm::program::PushProgram> as std::convert::From<push::genome::plushy::Plushy>>::from"
NUMOPENS = {"push::instruction::exec::dup_block::DupBlock": 1, "push::instruction::exec::when::When": 1, "push::instruction::exec::unless::Unless": 1,
            "push::instruction::exec::ifelse::IfElse": 2}
GENE = ("field", ("call",), 0, "Some")


def payload_of(e, variant):
    """field 0 of `variant` of *self, possibly seen through a Box"""
    from .common import peel_box
    e = peel_box(e)
    return e[0] == "field" and e[2] == 0 and e[3] == variant and peel_box(e[1]) == ("param", 1)


def parser_legacy(ctx):
    """the parser fills an output vector handed in by the caller: parse_from_plushy(flag, genes, &mut out)"""
    F = ctx.F
    f = ctx.fn(PARSE)
    at = f.at()
    paths = [p for p in ctx.paths(f) if p.end != "unreachable"]
    nexts = {c[4] for p in paths for c in p.calls() if callee_is(c, "Iterator::next") and peel(c[3][0], ()) == ("param", 2)}
    ctx.check(len(nexts) == 1, "R05.1", "single-cursor/one-next()-site-on-the-shared-iterator", "%d site(s)" % len(nexts), at)
    adt = F.adts.get("push::genome::plushy::PushGene")
    vidx = {v["name"]: v["discr"] for v in adt["variants"]} if adt else {}
    n_instr = n_close = n_block = 0
    for p in paths:
        nx = [c for c in p.calls() if callee_is(c, "Iterator::next") and peel(c[3][0], ()) == ("param", 2)]
        if not nx:
            continue
        gene = ("field", nx[0], 0, "Some")
        gc = [c for c in p.conds if c[0] == ("discr", gene)]
        pushes = [c for c in p.calls() if callee_is(c, "Vec::push", "Vec::insert", "Vec::extend", "Extend::extend", "Vec::append")]
        recs = [c for c in p.calls() if callee_is(c, "PushProgram::parse_from_plushy")]
        forbidden = [c for c in p.calls() if callee_is(c, "Clone::clone", "Vec::insert", "Vec::swap", "[T]::reverse", "[T]::swap", "Vec::remove", "Vec::pop", "Vec::truncate", "Vec::clear", "[T]::sort", "Vec::dedup", "Vec::drain")]
        if forbidden:
            ctx.bad("R05.1", "no-clone/insert/reorder", "forbidden call(s): " + ", ".join(short(c, 3) for c in forbidden), at)
        if not gc:
            # iterator exhausted
            end = [c for c in p.conds if c[0] == ("discr", nx[0])]
            ctx.check(p.end == "return" and not pushes and not recs and end and end[0][1] != 1, "R05.3", "genes-exhausted->return(open-blocks-closed-here)", cond_str(p), at)
            continue
        if gc[0][1] == vidx.get("Close"):
            n_close += 1
            flag = [c for c in p.conds if c[0] == ("param", 1)]
            nested = bool(flag) and flag[0][1] == 0
            ctx.check(not pushes and not recs, "R05.1", "Close/appends-nothing/%s" % ("nested" if nested else "top-level"), cond_str(p), at)
            if p.end == "return":
                ctx.check(nested, "R05.3", "Close/returns-only-when-nested", cond_str(p), at,
                          bad_detail="a Close gene returns from the parser on a path where the top-level flag is not known to be false: [%s]" % cond_str(p))
            else:
                ctx.check(p.end.startswith("loop:") and bool(flag) and flag[0][1] != 0, "R05.3", "Close/ignored-at-top-level(continue-with-next-gene)", cond_str(p), at)
        elif gc[0][1] == vidx.get("Instruction"):
            instr = ("field", gene, 0, "Instruction")
            ip = [c for c in pushes if match(c[3][1], Agg("PushProgram::Instruction", lambda e: e == instr))]
            ok = len(ip) == 1 and ip[0][3][0] == ("param", 3) and callee_is(ip[0], "Vec::push")
            first_rec = min([p.calls().index(c) for c in recs], default=10 ** 9)
            ok = ok and p.calls().index(ip[0]) < first_rec
            n_instr += 1
            ctx.check(ok, "R05.1", "Instruction/appended-once-to-current-output-before-recursion/%d" % n_instr, ", ".join(short(c, 4) for c in pushes), at,
                      bad_detail="the instruction gene must be pushed exactly once as PushProgram::Instruction(gene) onto the current output before any recursive parse; pushes: " + ", ".join(short(c, 5) for c in pushes))
            # the arm never leaves the parser: all num_opens blocks are parsed and the next gene is read
            ctx.check(p.end.startswith("loop:"), "R05.2", "Instruction/arm-continues(no-early-exit-from-block-loop)/%d" % n_instr, p.end, at,
                      bad_detail="a path through the Instruction arm leaves the parser (%s) before all of its num_opens() blocks were produced / the remaining genes were read: [%s]" % (p.end, cond_str(p)[-300:]))
            # the blocks appended by one `program.extend(<num_opens() times: Block(parse(false, genes, fresh))>)`: a lazy
            # n-fold repetition (repeat_with(..).take(n) / (0..n).map(|_| ..)) consumed front to back by Vec::extend
            ext = [c for c in pushes if c not in ip and callee_is(c, "Extend::extend", "Vec::extend")]
            if ext and not recs:
                n_of = Call("NumOpens::num_opens", Through(lambda e: e == instr), nargs=1)
                b = {}
                okl = len(ext) == 1 and len(pushes) == 2 and ext[0][3][0] == ("param", 3) and (
                    match(ext[0][3][1], Through(Call("Iterator::take", Call("iter::repeat_with", Bind("clo"), nargs=1), n_of, nargs=2)), b) or
                    match(ext[0][3][1], Through(Call("Iterator::map", Agg("Range::Range", Const(0), n_of), Bind("clo"), nargs=2)), b)) and \
                    b["clo"][0] == "agg" and b["clo"][1] == "closure" and p.calls().index(ip[0]) < p.calls().index(ext[0])
                ctx.check(okl, "R05.2", "blocks/loop-over-0..num_opens(this-instruction)/%d" % n_instr, short(ext[0], 5), at,
                          bad_detail="the blocks must be produced num_opens() times for the instruction just appended; extracted " + short(ext[0], 7))
                if okl:
                    n_block += 1
                    cps = [q for q in (closure_paths(ctx, b["clo"]) or []) if q.end != "unreachable"]
                    okb = len(cps) == 1 and cps[0].end == "return" and not cps[0].conds
                    if okb:
                        rc = [c for c in cps[0].calls() if callee_is(c, "PushProgram::parse_from_plushy")]
                        fresh = peel(rc[0][3][2], ()) if (len(rc) == 1 and len(rc[0][3]) == 3) else None
                        okb = fresh is not None and match(rc[0][3][0], Const(0)) and peel(rc[0][3][1], ()) == ("param", 2) and \
                            callee_is(fresh, "Vec::new", "Vec::with_capacity", "Default::default") and match(cps[0].ret, Agg("PushProgram::Block", lambda e: e == fresh)) and \
                            len([c for c in cps[0].calls() if not callee_is(c, "Vec::new", "Vec::with_capacity", "Default::default")]) == 1
                    ctx.check(okb, "R05.2", "blocks/recursive-parse(false,same-iterator,fresh-vec)-then-append-Block", short(cps[0].ret, 5) if cps else "-", at,
                              bad_detail="per opened block: Block(fresh) after parse_from_plushy(false, genes, &mut fresh); extracted " + "; ".join(short(q.ret, 6) for q in cps))
                continue
            # block count loop
            lp = [c for c in p.conds if c[0][0] == "discr" and callee_is(c[0][1], "Iterator::next") and c[0][1] != nx[0]]
            okl = bool(lp) and match(lp[0][0][1][3][0], Through(Call("IntoIterator::into_iter", Agg("Range::Range", Const(0), Call("NumOpens::num_opens", Through(lambda e: e == instr), nargs=1)), nargs=1)))
            ctx.check(okl, "R05.2", "blocks/loop-over-0..num_opens(this-instruction)/%d" % n_instr, cond_str(p)[-220:], at,
                      bad_detail="the block loop must iterate 0..num_opens() of the instruction just appended; conditions: " + cond_str(p)[-300:])
            if recs:
                n_block += 1
                bp = [c for c in pushes if c not in ip]
                okb = len(recs) == 1 and len(bp) == 1 and len(recs[0][3]) == 3
                if okb:
                    r = recs[0]
                    fresh = peel(r[3][2], ())
                    okb = match(r[3][0], Const(0)) and peel(r[3][1], ()) == ("param", 2) and callee_is(fresh, "Vec::new", "Vec::with_capacity", "Default::default") and \
                        match(bp[0][3][1], Agg("PushProgram::Block", lambda e: e == fresh)) and bp[0][3][0] == ("param", 3)
                    cs = p.calls()
                    okb = okb and cs.index(r) + 1 == cs.index(bp[0]) and lp and lp[0][1] == 1
                ctx.check(okb, "R05.2", "blocks/recursive-parse(false,same-iterator,fresh-vec)-then-append-Block", ", ".join(short(c, 4) for c in recs + bp), at,
                          bad_detail="per opened block: parse_from_plushy(false, genes, &mut fresh) immediately followed by program.push(Block(fresh)); extracted " + ", ".join(short(c, 5) for c in recs + bp))
        else:
            ctx.bad("R05.1", "unclassified-gene-variant/%s" % gc[0][1], "a PushGene variant without a rule", at)
    ctx.floor("R05.1", n_instr, 1, "Instruction-arm paths")
    ctx.floor("R05.3", n_close, 2, "Close-arm paths")
    ctx.floor("R05.2", n_block, 1, "block-parsing paths")
    ctx.check(adt is not None and sorted(vidx) == ["Close", "Instruction"], "R05.1", "PushGene-variants-all-classified", str(sorted(vidx)))
    # entry point
    f = ctx.trait_fn("std::convert::From::from", "std::vec::Vec<push::push_vm::program::PushProgram>")
    FROM_ID = f.id
    ps = return_paths(ctx.paths(f))
    ok = len(ps) == 1
    if ok:
        recs = [c for c in ps[0].calls() if callee_is(c, "PushProgram::parse_from_plushy")]
        ok = len(recs) == 1 and len(recs[0][3]) == 3 and match(recs[0][3][0], Const(1)) and match(recs[0][3][1], Through(Call("IntoIterator::into_iter", Param(1), nargs=1))) and \
            callee_is(peel(recs[0][3][2], ()), "Vec::new") and ps[0].ret == peel(recs[0][3][2], ())
    ctx.check(ok, "R05.3", "From<Plushy>/parse(true,genome.into_iter(),fresh)-returns-that-vec", short(ps[0].ret) if ps else "-", f.at())
    return FROM_ID


def parser_returning(ctx):
    """the same clauses for the parser that builds and returns its own output vector: `fn parse_from_plushy(flag, genes) -> Vec<Self>`; the blocks
    of an instruction are appended either by a 0..num_opens() loop (`out.push(Block(parse(false, genes)))`) or by one
    `out.extend((0..num_opens()).map(|_| Block(parse(false, genes))))` (Range::map is lazy and Vec::extend consumes it front to back)"""
    from . import ckit as K
    F = ctx.F
    f = ctx.fn(PARSE)
    at = f.at()
    paths = K.live(ctx.cpaths(f))
    is_out = lambda e: callee_is(K.strip(e, calls=()), "Vec::new", "Vec::with_capacity", "Default::default")
    is_genes = lambda e: K.strip(e, calls=()) == ("param", 2)
    nexts = {c[4] for p in paths for c in p.calls() if callee_is(c, "Iterator::next") and is_genes(c[3][0])}
    ctx.check(len(nexts) == 1, "R05.1", "single-cursor/one-next()-site-on-the-shared-iterator", "%d site(s)" % len(nexts), at)
    outs = {K.strip(x, calls=()) for p in paths for c in p.calls() if callee_is(c, "Vec::push", "Extend::extend") for x in [c[3][0]] if is_out(x)} | \
           {K.strip(p.ret, calls=()) for p in paths if p.end == "return" and p.ret is not None and is_out(p.ret)}
    ctx.check(len(outs) == 1, "R05.1", "one-output-vector/created-empty-in-this-call", "%d candidate(s)" % len(outs), at)
    if len(outs) != 1:
        return
    OUT = list(outs)[0]
    to_out = lambda e: K.strip(e, calls=()) == OUT
    adt = F.adts.get("push::genome::plushy::PushGene")
    vidx = {v["name"]: v["discr"] for v in adt["variants"]} if adt else {}
    n_instr = n_close = n_block = 0

    def rec_ok(r):
        return len(r[3]) == 2 and match(r[3][0], Const(0)) and is_genes(r[3][1])
    for p in paths:
        nx = [c for c in p.calls() if callee_is(c, "Iterator::next") and is_genes(c[3][0])]
        if len(nx) != 1:
            ctx.bad("R05.1", "single-cursor/one-gene-per-iteration", "%d reads of the shared iterator on one path: [%s]" % (len(nx), cond_str(p)[:200]), at)
            continue
        gene = ("field", nx[0], 0, "Some")
        pushes = [c for c in p.calls() if callee_is(c, "Vec::push", "Vec::insert", "Vec::extend", "Extend::extend", "Vec::append", "Vec::extend_from_slice")]
        recs = [c for c in p.calls() if callee_is(c, "PushProgram::parse_from_plushy")]
        forbidden = [c for c in p.calls() if callee_is(c, "Clone::clone", "Vec::insert", "Vec::swap", "[T]::reverse", "[T]::swap", "Vec::remove", "Vec::pop", "Vec::truncate", "Vec::clear", "[T]::sort", "Vec::dedup", "Vec::drain", "Iterator::rev", "Iterator::skip", "Iterator::filter", "Iterator::step_by")]
        if forbidden:
            ctx.bad("R05.1", "no-clone/insert/reorder", "forbidden call(s): " + ", ".join(short(c, 3) for c in forbidden), at)
        returns_out = p.end == "return" and p.ret is not None and to_out(p.ret)
        if p.end == "return" and not returns_out:
            ctx.bad("R05.3", "returns-the-output-vector", "a return path yields %s, not the vector the genes were appended to" % short(p.ret, 4), at)
        if K.discr_is(p, lambda o: o == nx[0], 0):
            ctx.check(returns_out and not pushes and not recs, "R05.3", "genes-exhausted->return(open-blocks-closed-here)", cond_str(p), at)
            continue
        gc = [c for c in p.conds if c[0] == ("discr", gene)]
        if not gc:
            ctx.bad("R05.1", "unclassified-gene-variant/-", "a path reads a gene without examining its variant: [%s]" % cond_str(p)[:200], at)
            continue
        if gc[0][1] == vidx.get("Close"):
            n_close += 1
            flag = [c for c in p.conds if c[0] == ("param", 1)]
            nested = bool(flag) and flag[0][1] == 0
            ctx.check(not pushes and not recs, "R05.1", "Close/appends-nothing/%s" % ("nested" if nested else "top-level"), cond_str(p), at)
            if p.end == "return":
                ctx.check(nested, "R05.3", "Close/returns-only-when-nested", cond_str(p), at,
                          bad_detail="a Close gene returns from the parser on a path where the top-level flag is not known to be false: [%s]" % cond_str(p))
            else:
                ctx.check(p.end.startswith("loop:") and bool(flag) and flag[0][1] != 0, "R05.3", "Close/ignored-at-top-level(continue-with-next-gene)", cond_str(p), at)
        elif gc[0][1] == vidx.get("Instruction"):
            instr = ("field", gene, 0, "Instruction")
            cs = p.calls()
            ip = [c for c in pushes if callee_is(c, "Vec::push") and match(c[3][1], Agg("PushProgram::Instruction", lambda e: e == instr))]
            others = [c for c in pushes if c not in ip]
            ok = len(ip) == 1 and to_out(ip[0][3][0])
            first_rec = min([cs.index(c) for c in recs + others], default=10 ** 9)
            ok = ok and cs.index(ip[0]) < first_rec
            n_instr += 1
            ctx.check(ok, "R05.1", "Instruction/appended-once-to-current-output-before-recursion/%d" % n_instr, ", ".join(short(c, 4) for c in pushes), at,
                      bad_detail="the instruction gene must be pushed exactly once as PushProgram::Instruction(gene) onto the current output before any recursive parse; pushes: " + ", ".join(short(c, 5) for c in pushes))
            ctx.check(p.end.startswith("loop:"), "R05.2", "Instruction/arm-continues(no-early-exit-from-block-loop)/%d" % n_instr, p.end, at,
                      bad_detail="a path through the Instruction arm leaves the parser (%s) before all of its num_opens() blocks were produced / the remaining genes were read: [%s]" % (p.end, cond_str(p)[-300:]))
            count_range = Agg("Range::Range", Const(0), Call("NumOpens::num_opens", Through(lambda e: e == instr), nargs=1))
            ext = [c for c in others if callee_is(c, "Extend::extend", "Vec::extend")]
            if ext:
                # one extend over (0..num_opens).map(|_| Block(parse(false, genes)))
                b = {}
                okl = len(others) == 1 and not recs and to_out(ext[0][3][0]) and match(ext[0][3][1], Through(Call("Iterator::map", count_range, Bind("clo"), nargs=2)), b) and \
                    b["clo"][0] == "agg" and b["clo"][1] == "closure"
                ctx.check(okl, "R05.2", "blocks/loop-over-0..num_opens(this-instruction)/%d" % n_instr, short(ext[0], 5), at,
                          bad_detail="the blocks must be produced by 0..num_opens() of the instruction just appended; extracted " + short(ext[0], 7))
                if okl:
                    n_block += 1
                    cps = [q for q in (closure_paths(ctx, b["clo"]) or []) if q.end != "unreachable"]
                    okb = len(cps) == 1 and cps[0].end == "return" and not cps[0].conds
                    if okb:
                        r = cps[0].ret
                        okb = match(r, Agg("PushProgram::Block", lambda e: callee_is(e, "PushProgram::parse_from_plushy"))) and rec_ok(r[3][0]) and len(cps[0].calls()) == 1
                    ctx.check(okb, "R05.2", "blocks/recursive-parse(false,same-iterator,fresh-vec)-then-append-Block", short(cps[0].ret, 5) if cps else "-", at,
                              bad_detail="per opened block: Block(parse_from_plushy(false, genes)) appended in order; extracted " + "; ".join(short(q.ret, 6) for q in cps))
                continue
            lp = [c for c in p.conds if c[0][0] == "discr" and callee_is(c[0][1], "Iterator::next") and c[0][1] != nx[0]]
            okl = bool(lp) and match(lp[0][0][1][3][0], Through(Call("IntoIterator::into_iter", count_range, nargs=1))) or (bool(lp) and match(lp[0][0][1][3][0], Through(count_range)))
            ctx.check(okl, "R05.2", "blocks/loop-over-0..num_opens(this-instruction)/%d" % n_instr, cond_str(p)[-220:], at,
                      bad_detail="the block loop must iterate 0..num_opens() of the instruction just appended; conditions: " + cond_str(p)[-300:])
            if recs:
                n_block += 1
                okb = len(recs) == 1 and len(others) == 1 and callee_is(others[0], "Vec::push")
                if okb:
                    r = recs[0]
                    okb = rec_ok(r) and match(others[0][3][1], Agg("PushProgram::Block", lambda e: e == r)) and to_out(others[0][3][0])
                    okb = okb and cs.index(r) + 1 == cs.index(others[0]) and lp and lp[0][1] == 1
                ctx.check(okb, "R05.2", "blocks/recursive-parse(false,same-iterator,fresh-vec)-then-append-Block", ", ".join(short(c, 4) for c in recs + others), at,
                          bad_detail="per opened block: out.push(Block(parse_from_plushy(false, genes))) right after the recursive parse; extracted " + ", ".join(short(c, 5) for c in recs + others))
            elif others:
                ctx.bad("R05.2", "blocks/recursive-parse(false,same-iterator,fresh-vec)-then-append-Block", "appends without a recursive parse: " + ", ".join(short(c, 5) for c in others), at)
        else:
            ctx.bad("R05.1", "unclassified-gene-variant/%s" % (gc[0][1],), "a PushGene variant without a rule", at)
    ctx.floor("R05.1", n_instr, 1, "Instruction-arm paths")
    ctx.floor("R05.3", n_close, 2, "Close-arm paths")
    ctx.floor("R05.2", n_block, 1, "block-parsing paths")
    ctx.check(adt is not None and sorted(vidx) == ["Close", "Instruction"], "R05.1", "PushGene-variants-all-classified", str(sorted(vidx)))
    # entry point
    f = ctx.trait_fn("std::convert::From::from", "std::vec::Vec<push::push_vm::program::PushProgram>")
    ps = K.returning(K.live(ctx.cpaths(f)))
    ok = len(ps) == 1
    if ok:
        r = K.strip(ps[0].ret, calls=())
        ok = callee_is(r, "PushProgram::parse_from_plushy") and len(r[3]) == 2 and match(r[3][0], Const(1)) and match(r[3][1], Through(Call("IntoIterator::into_iter", Param(1), nargs=1))) and \
            len([c for c in ps[0].calls() if callee_is(c, "PushProgram::parse_from_plushy")]) == 1
    ctx.check(ok, "R05.3", "From<Plushy>/parse(true,genome.into_iter(),fresh)-returns-that-vec", short(ps[0].ret) if ps else "-", f.at())


FORBIDDEN = ("Clone::clone", "Vec::insert", "Vec::swap", "[T]::reverse", "[T]::swap", "Vec::remove", "Vec::pop", "Vec::truncate", "Vec::clear", "[T]::sort", "Vec::dedup",
             "Vec::drain", "Vec::swap_remove", "Vec::retain", "[T]::rotate_left", "[T]::rotate_right", "Iterator::rev", "Iterator::skip", "Iterator::filter", "Iterator::step_by")
GROW = ("Vec::push", "Vec::insert", "Vec::extend", "Extend::extend", "Vec::append", "Vec::extend_from_slice")
VEC_PROGRAM = "std::vec::Vec<push::push_vm::program::PushProgram>"


def parser_cluster(ctx):
    """the entry point and every function of push::push_vm::program it (transitively) calls: the translation's own code"""
    from . import ckit as K
    F = ctx.F
    entry = ctx.trait_fn("std::convert::From::from", VEC_PROGRAM)
    seen, todo = [entry.id], [entry.id]
    while todo:
        fid = todo.pop()
        for p in K.live(ctx.cpaths(F.fns[fid])):
            for c in p.calls():
                g = c[1]
                if g in F.fns and g.startswith("push::push_vm::program::") and not F.fns[g].is_closure and g not in seen:
                    seen.append(g)
                    todo.append(g)
    return entry, seen


def parser_roles(ctx):
    """The same clauses for a translation spread over several functions.  Every function of the translation is given a role
    by its parameter and result types: a *sequence parser* reads genes from the shared cursor in a loop (optionally told by
    a bool whether it is the top level; it fills a `&mut Vec<PushProgram>` it was handed, or returns its own vector, or
    returns it wrapped as `PushProgram::Block`), an *emitter* takes one instruction and appends it followed by its blocks.
    R05.1: the cursor is only ever advanced by `next()` (one site per sequence parser) or handed on to another function of
    the translation; an Instruction gene is appended exactly once to the current output before anything else is read; a
    Close appends nothing.  R05.2: after the instruction exactly num_opens(that instruction) blocks are parsed, each by a
    sequence parser in nested mode on the same cursor with a fresh vector, and appended as Block right away.
    R05.3: a nested sequence ends at Close or exhaustion, the top-level sequence only at exhaustion (Close ignored); the
    entry point runs the top-level sequence over the genome's own iterator and returns its vector."""
    from . import ckit as K
    F = ctx.F
    entry, cluster = parser_cluster(ctx)
    adt = F.adts.get("push::genome::plushy::PushGene")
    vidx = {v["name"]: v["discr"] for v in adt["variants"]} if adt else {}
    ctx.check(adt is not None and sorted(vidx) == ["Close", "Instruction"], "R05.1", "PushGene-variants-all-classified", str(sorted(vidx)))
    if sorted(vidx) != ["Close", "Instruction"]:
        return

    def is_vec_program(ty):
        return ty.get("path") == "std::vec::Vec" and (ty.get("args") or [{}])[0].get("path") == "push::push_vm::program::PushProgram"

    roles = {}
    for fid in cluster:
        f = F.fns[fid]
        loc, argc = f.j["locals"], f.j["argc"]
        r = {"flag": None, "cursor": None, "out": None, "instr": None, "fid": fid, "entry": fid == entry.id}
        ok = True
        if fid != entry.id:
            for i in range(1, argc + 1):
                ty = loc[i]["ty"]
                if ty.get("k") == "prim" and ty.get("s") == "bool":
                    slot = "flag"
                elif ty.get("k") == "refmut" and is_vec_program(ty.get("of") or {}):
                    slot = "out"
                elif ty.get("k") == "refmut":
                    slot = "cursor"
                elif ty.get("path") == "push::instruction::PushInstruction":
                    slot = "instr"
                else:
                    ok = False
                    break
                if r[slot] is not None:
                    ok = False
                    break
                r[slot] = i
            ok = ok and r["cursor"] is not None
        rt = loc[0]["ty"]
        r["ret"] = "unit" if rt.get("s") == "()" else "vec" if is_vec_program(rt) else "block" if rt.get("path") == "push::push_vm::program::PushProgram" else None
        ok = ok and r["ret"] is not None and ((r["ret"] == "unit") == (r["out"] is not None)) and (r["instr"] is None or (r["ret"] == "unit" and r["flag"] is None))
        ctx.check(ok, "R05.1", "translation-function-has-a-role/" + fid.rsplit("::", 1)[-1], "cursor=%s out=%s flag=%s instruction=%s returns=%s" % (r["cursor"], r["out"], r["flag"], r["instr"], r["ret"]), f.at(),
                  bad_detail="a function of the translation whose parameters are not (flag?, instruction?, the gene cursor, the output vector?): " + (f.j.get("sig") or ""))
        if ok:
            roles[fid] = r
    if len(roles) != len(cluster):
        return
    at0 = entry.at()
    fresh_vec = lambda e: callee_is(K.strip(e, calls=()), "Vec::new", "Vec::with_capacity", "Default::default")
    count = {"instr": 0, "close": 0, "block": 0, "next_sites": {}}
    modes = {}

    def cursor_pred(r):
        if r["entry"]:
            return lambda e: match(e, Through(Call("IntoIterator::into_iter", Param(1), nargs=1)))
        return lambda e: K.strip(e, calls=()) == ("param", r["cursor"])

    def variant_of(p, gene):
        for c in p.conds:
            if c[0] == ("discr", gene):
                v = c[1]
                if isinstance(v, tuple) and v and v[0] == "not":
                    left = [n for n, d in vidx.items() if d not in v[1]]
                    return left[0] if len(left) == 1 else None
                for n, d in vidx.items():
                    if d == v:
                        return n
        return None

    def mode_of(fid):
        """'flag' (told by the bool parameter), else 'nested' / 'top' by what every Close arm does; None when mixed or no Close arm"""
        if fid in modes:
            return modes[fid]
        r = roles[fid]
        m = None
        if r["instr"] is None:
            if r["flag"] is not None:
                m = "flag"
            else:
                isc = cursor_pred(r)
                kinds = set()
                for p in K.live(ctx.cpaths(F.fns[fid])):
                    nx = [c for c in p.calls() if callee_is(c, "Iterator::next") and isc(c[3][0])]
                    if len(nx) == 1 and variant_of(p, ("field", nx[0], 0, "Some")) == "Close":
                        kinds.add("nested" if p.end == "return" else "top")
                m = list(kinds)[0] if len(kinds) == 1 else None
        modes[fid] = m
        return m

    def nested_call(c, isc):
        """c calls a sequence parser of the translation in nested mode on the cursor accepted by isc"""
        r = roles.get(c[1])
        if r is None or r["instr"] is not None or len(c[3]) != F.fns[c[1]].j["argc"]:
            return None
        if not isc(c[3][r["cursor"] - 1]):
            return None
        if r["flag"] is not None:
            if not match(c[3][r["flag"] - 1], Const(0)):
                return None
        elif mode_of(c[1]) != "nested":
            return None
        return r

    def emit(p, r, instr, isc, to_out, label, at):
        """the path appends `instr` once and, per iteration of the 0..num_opens(instr) loop, one nested block; returns True when it did"""
        cs = p.calls()
        pushes = [c for c in cs if callee_is(c, *GROW)]
        cl = [c for c in cs if c[1] in roles]
        emitters = [c for c in cl if roles[c[1]]["instr"] is not None]
        if emitters:
            e = emitters[0]
            er = roles[e[1]]
            ok = len(emitters) == 1 and len(cl) == 1 and not pushes and len(e[3]) == 3 and K.strip(e[3][er["instr"] - 1], calls=()) == instr and \
                isc(e[3][er["cursor"] - 1]) and to_out(e[3][er["out"] - 1])
            ctx.check(ok, "R05.1", "Instruction/handed-once-to-the-emitter-with-this-cursor-and-output/" + label, short(e, 4), at,
                      bad_detail="the instruction gene must be handed, with the shared cursor and the current output, to the function that appends it and its blocks - once, and nothing else appended here; calls: " + ", ".join(short(c, 5) for c in cl + pushes))
            return ok
        ip = [c for c in pushes if callee_is(c, "Vec::push") and match(c[3][1], Agg("PushProgram::Instruction", lambda x: K.strip(x, calls=()) == instr))]
        others = [c for c in pushes if c not in ip]
        ok = len(ip) == 1 and to_out(ip[0][3][0]) and cs.index(ip[0]) < min([cs.index(c) for c in cl + others], default=10 ** 9)
        ctx.check(ok, "R05.1", "Instruction/appended-once-to-current-output-before-recursion/" + label, ", ".join(short(c, 4) for c in pushes), at,
                  bad_detail="the instruction gene must be pushed exactly once as PushProgram::Instruction(gene) onto the current output before any recursive parse; pushes: " + ", ".join(short(c, 5) for c in pushes))
        if not ok:
            return False
        n_of = Call("NumOpens::num_opens", Through(lambda x: K.strip(x, calls=()) == instr), nargs=1)
        count_range = Agg("Range::Range", Const(0), n_of)

        def block_value(v, before):
            """the appended value is one nested block parsed from the shared cursor"""
            v = K.strip(v, calls=())
            if v[0] == "call" and v[1] in roles:
                rr = nested_call(v, isc)
                return rr is not None and rr["ret"] == "block"
            if match(v, Agg("PushProgram::Block", ANY)):
                inner = K.strip(v[3][0], calls=())
                if inner[0] == "call" and inner[1] in roles:
                    rr = nested_call(inner, isc)
                    return rr is not None and rr["ret"] == "vec"
                if fresh_vec(inner) and before is not None and before[1] in roles:
                    rr = nested_call(before, isc)
                    return rr is not None and rr["ret"] == "unit" and K.strip(before[3][rr["out"] - 1], calls=()) == inner
            return False
        ext = [c for c in others if callee_is(c, "Extend::extend", "Vec::extend")]
        if ext:
            b = {}
            okl = len(others) == 1 and not cl and to_out(ext[0][3][0]) and (
                match(ext[0][3][1], Through(Call("Iterator::map", count_range, Bind("clo"), nargs=2)), b) or
                match(ext[0][3][1], Through(Call("Iterator::take", Call("iter::repeat_with", Bind("clo"), nargs=1), n_of, nargs=2)), b)) and \
                b["clo"][0] == "agg" and b["clo"][1] == "closure"
            ctx.check(okl, "R05.2", "blocks/loop-over-0..num_opens(this-instruction)/" + label, short(ext[0], 5), at,
                      bad_detail="the blocks must be produced by 0..num_opens() of the instruction just appended; extracted " + short(ext[0], 7))
            if okl:
                count["block"] += 1
                cps = [q for q in (closure_paths(ctx, b["clo"], canon=True) or []) if q.end != "unreachable"]
                okb = len(cps) == 1 and cps[0].end == "return" and not cps[0].conds
                if okb:
                    qcl = [c for c in cps[0].calls() if c[1] in roles]
                    okb = len(qcl) == 1 and not [c for c in cps[0].calls() if callee_is(c, *GROW)] and block_value(cps[0].ret, qcl[0])
                ctx.check(okb, "R05.2", "blocks/recursive-parse(false,same-iterator,fresh-vec)-then-append-Block", short(cps[0].ret, 5) if cps else "-", at,
                          bad_detail="per opened block: one nested parse from the shared cursor, appended as Block in order; extracted " + "; ".join(short(q.ret, 6) for q in cps))
                return okb
            return False
        lp = [c for c in p.conds if c[0][0] == "discr" and callee_is(c[0][1], "Iterator::next") and
              (match(c[0][1][3][0], Through(Call("IntoIterator::into_iter", count_range, nargs=1))) or match(c[0][1][3][0], Through(count_range)))]
        okl = len(lp) == 1
        ctx.check(okl, "R05.2", "blocks/loop-over-0..num_opens(this-instruction)/" + label, cond_str(p)[-220:], at,
                  bad_detail="the block loop must iterate 0..num_opens() of the instruction just appended; conditions: " + cond_str(p)[-300:])
        if not okl:
            return False
        if K.discr_is(p, lambda o: o == lp[0][0][1], 1):
            count["block"] += 1
            okb = len(others) == 1 and callee_is(others[0], "Vec::push") and to_out(others[0][3][0]) and len(cl) == 1 and \
                block_value(others[0][3][1], cl[0]) and cs.index(cl[0]) < cs.index(others[0]) and \
                not [c for c in cs[cs.index(cl[0]) + 1:cs.index(others[0])] if not fresh_vec(c) and not K.strip(c, calls=()) == cl[0]] and p.end.startswith("loop:")
            ctx.check(okb, "R05.2", "blocks/recursive-parse(false,same-iterator,fresh-vec)-then-append-Block", ", ".join(short(c, 4) for c in cl + others), at,
                      bad_detail="per opened block: exactly one nested parse from the shared cursor (fresh vector), appended to the current output as Block right after it; extracted " + ", ".join(short(c, 5) for c in cl + others))
            return okb
        okn = not others and not cl
        ctx.check(okn, "R05.2", "blocks/nothing-appended-after-the-last-block/" + label, cond_str(p)[-120:], at,
                  bad_detail="after the 0..num_opens() loop is exhausted nothing more may be parsed or appended for this instruction: " + ", ".join(short(c, 5) for c in cl + others))
        return okn

    for fid in cluster:
        r = roles[fid]
        f = F.fns[fid]
        at = f.at()
        name = fid.rsplit("::", 1)[-1] if not r["entry"] else "From<Plushy>"
        paths = K.live(ctx.cpaths(f))
        isc = cursor_pred(r)
        for p in paths:
            bad = [c for c in p.calls() if callee_is(c, *FORBIDDEN)]
            if bad:
                ctx.bad("R05.1", "no-clone/insert/reorder", "forbidden call(s): " + ", ".join(short(c, 3) for c in bad), at)
            # the cursor is advanced by next() or handed on to the translation's own functions, nothing else touches it
            for c in p.calls():
                if any(isc(a) for a in c[3]) and not callee_is(c, "Iterator::next") and c[1] not in roles:
                    ctx.bad("R05.1", "single-cursor/only-next()-advances-the-shared-iterator", "the gene cursor is passed to " + short(c, 4), at)
        nexts = {c[4] for p in paths for c in p.calls() if callee_is(c, "Iterator::next") and isc(c[3][0])}
        if r["instr"] is not None:
            # ---- emitter ------------------------------------------------------------------------------
            ctx.check(not nexts, "R05.1", "emitter-reads-no-gene-itself/" + name, "%d next() site(s)" % len(nexts), at)
            to_out = lambda e, r=r: K.strip(e, calls=()) == ("param", r["out"])
            for i, p in enumerate(paths):
                if emit(p, r, ("param", r["instr"]), isc, to_out, "%s/%d" % (name, i), at):
                    count["instr"] += 1
                ctx.check(p.end == "return" or p.end.startswith("loop:"), "R05.2", "Instruction/arm-continues(no-early-exit-from-block-loop)/%s/%d" % (name, i), p.end, at)
            continue
        delegates = [c for p in paths for c in p.calls() if c[1] in roles]
        if r["entry"] and not nexts:
            # ---- entry point that hands the genome's iterator to the top-level sequence parser --------------------
            ps = K.returning(paths)
            ok = len(ps) == 1 and len(paths) == 1
            if ok:
                cl = [c for c in ps[0].calls() if c[1] in roles]
                ok = len(cl) == 1 and roles[cl[0][1]]["instr"] is None and len(cl[0][3]) == F.fns[cl[0][1]].j["argc"]
                if ok:
                    rr = roles[cl[0][1]]
                    ok = isc(cl[0][3][rr["cursor"] - 1]) and (match(cl[0][3][rr["flag"] - 1], Const(1)) if rr["flag"] is not None else mode_of(cl[0][1]) == "top")
                    if rr["ret"] == "unit":
                        ok = ok and fresh_vec(cl[0][3][rr["out"] - 1]) and K.strip(ps[0].ret, calls=()) == K.strip(cl[0][3][rr["out"] - 1], calls=())
                    else:
                        ok = ok and rr["ret"] == "vec" and K.strip(ps[0].ret, calls=()) == cl[0]
                    ok = ok and not [c for c in ps[0].calls() if callee_is(c, *GROW)]
            ctx.check(ok, "R05.3", "From<Plushy>/parse(true,genome.into_iter(),fresh)-returns-that-vec", short(ps[0].ret) if ps else "-", at)
            continue
        # ---- sequence parser ---------------------------------------------------------------------------
        ctx.check(len(nexts) == 1, "R05.1", "single-cursor/one-next()-site-on-the-shared-iterator", "%d site(s) in %s" % (len(nexts), name), at)
        if r["out"] is not None:
            OUT = ("param", r["out"])
        else:
            outs = {K.strip(c[3][0], calls=()) for p in paths for c in p.calls() if callee_is(c, *GROW) and fresh_vec(c[3][0])} | \
                   {K.strip(c[3][roles[c[1]]["out"] - 1], calls=()) for c in delegates if roles[c[1]]["out"] is not None and len(c[3]) == F.fns[c[1]].j["argc"] and fresh_vec(c[3][roles[c[1]]["out"] - 1])}
            rets = {K.strip(p.ret[3][0] if (r["ret"] == "block" and match(p.ret, Agg("PushProgram::Block", ANY))) else p.ret, calls=()) for p in paths if p.end == "return" and p.ret is not None}
            outs |= {x for x in rets if fresh_vec(x)}
            ctx.check(len(outs) == 1, "R05.1", "one-output-vector/created-empty-in-this-call", "%d candidate(s) in %s" % (len(outs), name), at)
            if len(outs) != 1:
                continue
            OUT = list(outs)[0]
        to_out = lambda e, OUT=OUT: K.strip(e, calls=()) == OUT
        mode = mode_of(fid)
        if r["entry"]:
            ctx.check(mode == "top", "R05.3", "From<Plushy>/parse(true,genome.into_iter(),fresh)-returns-that-vec", "the entry point's own loop is the top-level sequence", at,
                      bad_detail="the entry point's gene loop must ignore Close genes and end only when the genome is exhausted")

        def returns_out(p, r=r, to_out=to_out):
            if p.end != "return":
                return False
            if r["ret"] == "unit":
                return True
            if r["ret"] == "vec":
                return p.ret is not None and to_out(p.ret)
            return p.ret is not None and match(p.ret, Agg("PushProgram::Block", to_out))
        for i, p in enumerate(paths):
            nx = [c for c in p.calls() if callee_is(c, "Iterator::next") and isc(c[3][0])]
            if len(nx) != 1:
                ctx.bad("R05.1", "single-cursor/one-gene-per-iteration", "%d reads of the shared iterator on one path of %s: [%s]" % (len(nx), name, cond_str(p)[:200]), at)
                continue
            pushes = [c for c in p.calls() if callee_is(c, *GROW)]
            cl = [c for c in p.calls() if c[1] in roles]
            if p.end == "return" and not returns_out(p):
                ctx.bad("R05.3", "returns-the-output-vector", "a return path of %s yields %s, not the vector the genes were appended to" % (name, short(p.ret, 4)), at)
            if K.discr_is(p, lambda o: o == nx[0], 0):
                ctx.check(returns_out(p) and not pushes and not cl, "R05.3", "genes-exhausted->return(open-blocks-closed-here)", cond_str(p), at)
                continue
            gene = ("field", nx[0], 0, "Some")
            v = variant_of(p, gene)
            if v == "Close":
                count["close"] += 1
                flag = [c for c in p.conds if r["flag"] is not None and c[0] == ("param", r["flag"])]
                nested = (bool(flag) and flag[0][1] == 0) if mode == "flag" else mode == "nested"
                top = (bool(flag) and flag[0][1] != 0) if mode == "flag" else mode == "top"
                ctx.check(not pushes and not cl, "R05.1", "Close/appends-nothing/%s" % ("nested" if nested else "top-level"), cond_str(p), at)
                if p.end == "return":
                    ctx.check(nested, "R05.3", "Close/returns-only-when-nested", cond_str(p), at,
                              bad_detail="a Close gene returns from the parser on a path where the sequence is not known to be a nested one: [%s]" % cond_str(p))
                else:
                    ctx.check(p.end.startswith("loop:") and top, "R05.3", "Close/ignored-at-top-level(continue-with-next-gene)", cond_str(p), at)
            elif v == "Instruction":
                if emit(p, r, ("field", gene, 0, "Instruction"), isc, to_out, "%s/%d" % (name, i), at):
                    count["instr"] += 1
                ctx.check(p.end.startswith("loop:"), "R05.2", "Instruction/arm-continues(no-early-exit-from-block-loop)/%s/%d" % (name, i), p.end, at,
                          bad_detail="a path through the Instruction arm leaves the parser (%s) before all of its num_opens() blocks were produced / the remaining genes were read: [%s]" % (p.end, cond_str(p)[-300:]))
            else:
                ctx.bad("R05.1", "unclassified-gene-variant/-", "a path of %s reads a gene without classifying it as Instruction or Close: [%s]" % (name, cond_str(p)[:200]), at)
    # every sequence parser is used: nested ones for blocks, the top-level one by the entry point (a dead one proves nothing)
    ctx.floor("R05.1", count["instr"], 1, "Instruction-arm paths")
    ctx.floor("R05.3", count["close"], 2, "Close-arm paths")
    ctx.floor("R05.2", count["block"], 1, "block-parsing paths")
    seqs = [fid for fid in cluster if roles[fid]["instr"] is None and not (roles[fid]["entry"] and mode_of(fid) is None and not [1 for p in K.live(ctx.cpaths(F.fns[fid])) for c in p.calls() if callee_is(c, "Iterator::next")])]
    have = {("flag" if mode_of(fid) == "flag" else mode_of(fid)) for fid in seqs}
    ctx.check("flag" in have or {"top", "nested"} <= have, "R05.3", "both-a-top-level-and-a-nested-sequence-exist", str(sorted(str(x) for x in have)))



def check(ctx):
    from .common import shadowing_audit
    ctx.floor("R05.4", shadowing_audit(ctx, "R05.4", ("push::instruction::NumOpens",)), 10, "NumOpens impls of workspace types (shadowing audit)")
    from .ctors import check_table
    check_table(ctx, "C05", "R05.6")
    F = ctx.F
    from . import ckit as K
    K.either(ctx, parser_legacy, lambda c: K.either(c, parser_returning, parser_roles))
    FROM_ID = ctx.trait_fn("std::convert::From::from", "std::vec::Vec<push::push_vm::program::PushProgram>").id
    f = ctx.fn("<push::genome::plushy::Plushy as std::iter::IntoIterator>::into_iter")
    ps = return_paths(ctx.paths(f))
    ctx.check(len(ps) == 1 and match(ps[0].ret, Call("IntoIterator::into_iter", Field(Param(1), "genes"), nargs=1)) and len(ps[0].calls()) == 1, "R05.1", "Plushy::into_iter=genes.into_iter()", short(ps[0].ret), f.at())

    # ---- R05.4 table ------------------------------------------------------------------
    T = "push::instruction::NumOpens"
    impls = [im for im in F.impls if im.get("trait") == T]
    ctx.floor("R05.4", len(impls), 18, "NumOpens impls")
    dflt = ctx.fn("push::instruction::NumOpens::num_opens")
    ps = return_paths(ctx.paths(dflt))
    ctx.check(len(ps) == 1 and match(ps[0].ret, Const(0)), "R05.4", "trait-default=0", short(ps[0].ret), dflt.at())
    for im in impls:
        sp = im["self"].get("path") or im["self"]["s"]
        fns = [fn for fn in F.fns.values() if fn.parent == im["id"] and fn.assoc_name == "num_opens"]
        key = sp.split("::")[-1]
        if sp in ("push::instruction::exec::ExecInstruction", "push::instruction::PushInstruction"):
            continue
        want = NUMOPENS.get(sp, 0)
        if not fns:
            ctx.check(want == 0, "R05.4", "%s=%d(default)" % (key, want), "uses the trait default (0)", im["span"]["at"],
                      bad_detail="%s must open %d block(s) but falls back to the default 0" % (sp, want))
            continue
        ctx.fns_analysed.add(fns[0].id)
        ps = return_paths(ctx.paths(fns[0]))
        ctx.check(len(ps) == 1 and match(ps[0].ret, Const(want)) and not ps[0].calls(), "R05.4", "%s=%d" % (key, want), short(ps[0].ret) if ps else "-", fns[0].at(),
                  bad_detail="%s::num_opens must be the constant %d; extracted %s" % (sp, want, "; ".join(short(p.ret, 4) for p in ps)))
    for sp in NUMOPENS:
        ctx.check(any((im["self"].get("path") == sp) for im in impls), "R05.4", "%s/has-own-NumOpens-impl" % sp.split("::")[-1], "present")
    # dispatchers
    f = ctx.fn("<push::instruction::exec::ExecInstruction as push::instruction::NumOpens>::num_opens")
    adt = F.adts["push::instruction::exec::ExecInstruction"]
    ps = return_paths(ctx.paths(f))
    seen = set()
    for p in ps:
        d = [c for c in p.conds if c[0] == ("discr", ("deref", ("param", 1)))]
        if not d or isinstance(d[0][1], tuple):
            ctx.bad("R05.4", "ExecInstruction/unexpected-path", cond_str(p), f.at())
            continue
        v = [x for x in adt["variants"] if x["discr"] == d[0][1]][0]
        seen.add(v["name"])
        ok = match(p.ret, Call("NumOpens::num_opens", lambda a, v=v: payload_of(a, v["name"]), nargs=1)) and len([c for c in p.calls() if not callee_is(c, "Deref::deref")]) == 1
        if not ok and p.ret is not None and p.ret[0] == "const" and not [c for c in p.calls() if not callee_is(c, "Deref::deref")]:
            # the arm states the number itself: right iff it is what the table above requires of this variant's payload type
            pty = (v.get("fields") or [{}])[0].get("ty", {}).get("path") or (v.get("fields") or [{}])[0].get("ty", {}).get("s", "")
            ok = len(v.get("fields") or []) == 1 and p.ret[3] == NUMOPENS.get(pty.split("<")[0], 0)
        ctx.check(ok, "R05.4", "ExecInstruction::%s/forwards-to-own-payload" % v["name"], short(p.ret), f.at(),
                  bad_detail="arm %s must return num_opens() of its own payload; extracted %s" % (v["name"], short(p.ret, 5)))
    ctx.check(seen == {v["name"] for v in adt["variants"]}, "R05.4", "ExecInstruction/all-%d-variants-dispatched" % len(adt["variants"]), str(sorted(seen)))
    ctx.floor("R05.4", len(seen), 12, "ExecInstruction arms")
    f = ctx.fn("<push::instruction::PushInstruction as push::instruction::NumOpens>::num_opens")
    adt = F.adts["push::instruction::PushInstruction"]
    exec_d = [x["discr"] for x in adt["variants"] if x["name"] == "Exec"][0]
    ps = return_paths(ctx.paths(f))
    ok_e = ok_o = False
    for p in ps:
        d = [c for c in p.conds if c[0] == ("discr", ("deref", ("param", 1)))]
        if d and d[0][1] == exec_d:
            ok_e = match(p.ret, Call("NumOpens::num_opens", lambda a: payload_of(a, "Exec"), nargs=1))
        else:
            ok_o = match(p.ret, Const(0)) and not p.calls()
    ctx.check(ok_e and ok_o and len(ps) == 2, "R05.4", "PushInstruction/forwards-Exec-else-0", "; ".join("%s -> %s" % (cond_str(p), short(p.ret)) for p in ps), f.at())

    # ---- R05.5 -------------------------------------------------------------------------
    cg = CallGraph(F)
    _, cluster = parser_cluster(ctx)
    scope = cg.reach(list(cluster)) | {fn.id for fn in F.fns.values() if fn.trait_item == T + "::num_opens"} | {T + "::num_opens"}
    sites = audit_panics(ctx, "R05.5", scope, [], floor=0)
    pushes_seen = sum(1 for fid in cluster for b in F.fns[fid].blocks if b["term"]["k"] == "call" and (path_ends(b["term"].get("fn") or "", "Vec::push") or path_ends(b["term"].get("fn") or "", "Extend::extend")))
    ctx.check(pushes_seen >= 2 and len(scope) >= 9, "R05.5", "positive-control/audit-saw-the-translation", "%d functions in scope, %d append sites in the parser, %d may-panic sites" % (len(scope), pushes_seen, len(sites)))
