"""C16 - All randomness comes from the supplied generator; evaluation is deterministic."""
from .pat import ANY, Bind, Call, Param, Field, Through, match, callee_is, path_ends
from .sym import short, subexprs
from .common import (return_paths, peel, mentions, derives_from_self, rng_passthrough, closure_paths, CallGraph, fn_uses, ty_mentions)

META = {
    "level": "proof",
    "explanation": (
        "A purity argument whose premises are each decided over ALL function bodies of the three library crates (MIR, resolved callees): "
        "(R16.1) ambient sources of nondeterminism (rand::rng, rand::random*, ThreadRng::default, OsRng, SeedableRng::from_os_rng/try_from_os_rng/from_entropy, getrandom, "
        "Instant/SystemTime::now, std::env, thread::current, process::id) are used - called or passed as a function value - only inside Generation::{serial_next, par_next} "
        "(positive control: exactly those two uses must be found); re-seeding/cloning of generators (SeedableRng::seed_from_u64/from_seed/from_rng, Clone on an rng) occurs nowhere; "
        "(R16.2) no hidden state: no ADT implementing Selector/Mutator/Recombinator/Operator/Distribution/ChildMaker/Scorer/Instruction (nor any other workspace ADT) contains "
        "interior mutability, there are no statics, no thread_locals and no unsafe code, and all operator trait methods take &self; (R16.3) the only order-dependent traversal of a "
        "hash container in library code is PushState::with_input's iter().find_map(..) whose closure yields Some only under key == name, so iteration order is immaterial; "
        "(R16.4) every rng-typed argument at every call site is the enclosing function's own rng parameter (through reborrows, unsizing, or a closure capture of it); "
        "(R16.5) the call-graph closure of run_to_completion contains no ambient source. Together: results and final generator state are functions of (arguments, generator state) only."),
    "rules": {
        "R16.1": "ambient randomness/time/env callees only in Generation::{serial_next,par_next} (exactly 2 uses); no reseeding / rng cloning anywhere",
        "R16.2": "no interior mutability in any workspace ADT; no statics/thread_locals/unsafe; operator trait methods take &self",
        "R16.3": "HashMap/HashSet traversal only in with_input, consumed by find_map with an equality-guarded closure",
        "R16.4": "every rng-typed call argument derives from the function's own rng parameter",
        "R16.5": "Push evaluation's call-graph closure is free of ambient sources",
    },
    "trusted_base": ["rand 0.9 primitives draw only from the generator they are given", "std collections/iterators are deterministic given equal inputs (HashMap order aside, see R16.3)",
                     "dependencies ordered-float, strum, collectable, rayon collect order-preservation", "rustc type checker", "uecfacts driver + uecheck rule engine"],
    "assumptions": ["user-supplied generic parameters and boxed dyn operators are themselves pure in this sense"],
    "not_decided": ["determinism of dependencies' internals"],
}

AMBIENT = ("rand::rng", "rand::random", "rand::random_range", "rand::random_bool", "rand::random_ratio", "rand::random_iter", "rand::fill", "rand::thread_rng",
           "ThreadRng::default", "rngs::ThreadRng::default", "OsRng", "SeedableRng::from_os_rng", "SeedableRng::try_from_os_rng", "SeedableRng::from_entropy",
           "getrandom::getrandom", "getrandom::fill", "Instant::now", "SystemTime::now", "env::var", "env::vars", "env::args", "env::var_os", "env::current_dir",
           "thread::current", "process::id", "RandomState::new", "DefaultHasher::new", "thread::sleep", "available_parallelism")
RESEED = ("SeedableRng::seed_from_u64", "SeedableRng::from_seed", "SeedableRng::from_rng", "SeedableRng::fork", "SeedableRng::try_from_rng")
RNG_TRAITS = ("rand::Rng", "rand::RngCore", "rand_core::RngCore", "rand::CryptoRng", "rand_core::TryRngCore", "rand::TryRngCore")
INTERIOR = ("Cell", "RefCell", "UnsafeCell", "Mutex", "RwLock", "OnceCell", "OnceLock", "LazyLock", "LazyCell", "AtomicBool", "AtomicUsize", "AtomicU64", "AtomicU32",
            "AtomicI64", "AtomicI32", "AtomicIsize", "AtomicU8", "AtomicPtr", "Condvar", "Sender", "Receiver", "SyncSender", "Once", "ThreadLocal")
OP_TRAITS = ("ec_core::operator::selector::Selector", "ec_core::operator::mutator::Mutator", "ec_core::operator::recombinator::Recombinator", "ec_core::operator::Operator",
             "rand::distr::Distribution", "ec_core::child_maker::ChildMaker", "ec_core::individual::scorer::Scorer", "push::instruction::Instruction")
HASH_TRAVERSAL = ("HashMap::iter", "HashMap::iter_mut", "HashMap::keys", "HashMap::values", "HashMap::values_mut", "HashMap::into_keys", "HashMap::into_values",
                  "HashMap::drain", "HashMap::retain", "HashMap::extract_if", "HashSet::iter", "HashSet::drain", "HashSet::retain", "HashSet::union", "HashSet::intersection", "HashSet::difference")
GEN_FNS = ("ec_core::generation::Generation::<P, C>::serial_next", "ec_core::generation::Generation::<P, C>::par_next")


def is_rng_type(tyj, fn):
    if not isinstance(tyj, dict):
        return False
    k = tyj.get("k")
    if k in ("refmut", "ref"):
        return is_rng_type(tyj.get("of"), fn) if k == "refmut" else False
    if k == "param":
        n = tyj.get("name")
        return any(p.get("trait") in RNG_TRAITS and p.get("self", {}).get("k") == "param" and p["self"].get("name") == n for p in fn.preds)
    if k == "dyn":
        return tyj.get("principal") in RNG_TRAITS
    if k == "adt":
        return tyj["path"].startswith("rand::rngs::") or tyj["path"].startswith("rand_chacha::") or tyj["path"].startswith("rand_core::") or tyj["path"].startswith("rand_pcg")
    return False


def own_rng_params(fn):
    return [i for i in range(1, fn.argc + 1) if is_rng_type(fn.locals[i]["ty"], fn)]


def is_the_rng(ctx, fn, e, depth=0):
    """e is the enclosing function's own rng parameter (reborrow/unsize allowed), or a capture of it"""
    if depth > 6:
        return False
    for i in own_rng_params(fn):
        if rng_passthrough(e, i):
            return True
    x = e
    while x[0] in ("ref", "deref") or (x[0] == "cast" and "Unsize" in x[1]):
        x = x[1] if x[0] != "cast" else x[2]
    if x[0] == "upvar" and fn.is_closure:
        parent = ctx.F.fns.get(fn.parent)
        if parent is None:
            return False
        for p in ctx.paths(parent):
            for y in list(a for c in p.calls() for a in c[3]) + ([p.ret] if p.ret is not None else []):
                for z in subexprs(y):
                    if z[0] == "agg" and z[1] == "closure" and z[2] == fn.id and x[2] < len(z[3]):
                        return is_the_rng(ctx, parent, z[3][x[2]], depth + 1)
            for ev in p.events:
                pass
        return False
    return False


def check(ctx):
    F = ctx.F
    lib = [f for f in F.fns.values() if f.crate in ("ec_core", "ec_linear", "push")]
    for f in lib:
        ctx.fns_analysed.add(f.id)
    # ---- R16.1 -----------------------------------------------------------------
    amb = []
    reseed = []
    nuses = 0
    for f in lib:
        for kind, path, full, rdef, rlocal, bi, span, t in fn_uses(f):
            nuses += 1
            if any(path_ends(path, a) for a in AMBIENT):
                amb.append((f, kind, path, span))
            if any(path_ends(path, a) for a in RESEED):
                reseed.append((f, kind, path, span))
            if path_ends(path, "Clone::clone") and t is not None:
                targs = t.get("targs") or []
                if targs and is_rng_type({"k": "refmut", "of": targs[0]}, f):
                    reseed.append((f, kind, path + " on an rng", span))
    allowed = []
    # a private helper that exists only to serve the stepping functions (every call of it is in serial_next / par_next or
    # in another such helper) is part of them: the live generator may be created there
    from .graph import CallGraph
    callers = {}
    for g in lib:
        for kind2, path2, full2, rdef2, rlocal2, bi2, span2, t2 in fn_uses(g):
            for tgt in (rdef2, path2):
                if tgt in F.fns:
                    callers.setdefault(tgt, set()).add(g.root or g.id)
    for tgt, cs in (getattr(F, "pre_subst_callers", None) or {}).items():
        callers.setdefault(tgt, set()).update(cs)
    serving = set(GEN_FNS)
    for _ in range(4):
        for fid, cs in callers.items():
            g = F.fns.get(fid)
            if fid not in serving and g is not None and not g.pub and cs and cs <= serving and fid.startswith("ec_core::generation::"):
                serving.add(fid)
    served = {}
    for f, kind, path, span in amb:
        root = f.root or f.id
        if root in GEN_FNS:
            allowed.append((root, kind, path))
        elif root in serving:
            # attribute the use to the stepping function(s) it serves
            tops = set()
            work = [root]
            seen_ = set()
            while work:
                x = work.pop()
                if x in seen_:
                    continue
                seen_.add(x)
                if x in GEN_FNS:
                    tops.add(x)
                else:
                    work.extend(callers.get(x, ()))
            for tp in sorted(tops):
                allowed.append((tp, kind, path))
        else:
            ctx.bad("R16.1", "ambient/%s/%s" % (f.id, path.split("::")[-1]), "%s of %s outside Generation::*_next: in %s" % ("call" if kind == "call" else "function value", path, f.id), (span or {}).get("at"))
    roots = sorted({a[0] for a in allowed})
    allowed = sorted(set(allowed))
    ctx.check(len(allowed) == 2 and roots == sorted(GEN_FNS), "R16.1", "positive-control/two-rand::rng-uses-in-generation",
              "ambient uses found: %s" % [(a[0].split("::")[-1], a[1], a[2]) for a in allowed], None,
              bad_detail="expected exactly the two known uses of rand::rng (serial_next call, par_next map_init value); found %s" % [(a[0], a[1], a[2]) for a in allowed])
    for f, kind, path, span in reseed:
        ctx.bad("R16.1", "reseed/%s/%s" % (f.id, path.split("::")[-1]), "%s in %s: generators must not be re-seeded or cloned in library code" % (path, f.id), (span or {}).get("at"))
    ctx.ok("R16.1", "scan", "%d function uses in %d bodies scanned; %d ambient (allowed), %d reseed" % (nuses, len(lib), len(allowed), len(reseed)))

    # ---- R16.2 ------------------------------------------------------------------
    n_adts = 0
    for path, adt in sorted(F.adts.items()):
        if adt.get("crate") not in ("ec_core", "ec_linear", "push"):
            continue
        n_adts += 1
        for v in adt["variants"]:
            for fld in v["fields"]:
                if ty_mentions(fld["ty"], INTERIOR) or any(("::" + n + "<") in fld["ty"]["s"] or fld["ty"]["s"].endswith("::" + n) for n in INTERIOR):
                    ctx.bad("R16.2", "interior-mutability/%s.%s" % (path, fld["name"]), "field type %s" % fld["ty"]["s"], adt["span"]["at"])
    ctx.ok("R16.2", "adt-shapes", "%d workspace ADTs free of Cell/RefCell/Mutex/Atomic*/Once*/Lazy*/mpsc" % n_adts)
    st = [s for s in F.statics if s["crate"] in ("ec_core", "ec_linear", "push")]
    for s in st:
        if s["mut"] or not s["freeze"] or s["thread_local"]:
            ctx.bad("R16.2", "static/%s" % s["path"], "mutable / interior-mutable / thread-local static", s["span"]["at"])
    ctx.ok("R16.2", "statics", "%d statics, none mutable, interior-mutable or thread-local" % len(st))
    tl = 0
    for f in lib:
        for b in f.blocks:
            for s in b["stmts"]:
                if s["k"] == "assign" and s["rv"]["k"] == "thread_local_ref":
                    tl += 1
                    ctx.bad("R16.2", "thread-local-access/%s" % f.id, "thread-local access", f.at())
    uns = [u for u in F.unsafe if u["crate"] in ("ec_core", "ec_linear", "push")]
    for u in uns:
        ctx.bad("R16.2", "unsafe/%s/%s" % (u["kind"], u.get("path", u["span"]["at"].split("/")[-1].split(":")[0])), "unsafe %s in library code" % u["kind"], u["span"]["at"])
    ctx.ok("R16.2", "no-unsafe", "%d user-written unsafe blocks/fns/impls" % len(uns))
    n_m = 0
    for f in lib:
        if f.trait_item and any(f.trait_item.startswith(t + "::") for t in OP_TRAITS) and f.takes_self:
            n_m += 1
            k = f.locals[1]["ty"].get("k")
            if k != "ref":
                ctx.bad("R16.2", "receiver/%s" % f.id, "operator method receiver is %s, expected &self" % f.locals[1]["ty"]["s"], f.at())
    ctx.ok("R16.2", "receivers-are-&self", "%d operator trait method impls all take &self" % n_m)
    ctx.floor("R16.2", n_m, 150, "operator trait method impls")

    # ---- R16.3 --------------------------------------------------------------------
    trav = []
    for f in lib:
        for kind, path, full, rdef, rlocal, bi, span, t in fn_uses(f):
            if any(path_ends(path, h) for h in HASH_TRAVERSAL):
                trav.append((f, path, bi, span))
            if path_ends(path, "IntoIterator::into_iter") and t is not None:
                targs = t.get("targs") or []
                if targs and ("HashMap<" in targs[0].get("s", "") or "HashSet<" in targs[0].get("s", "")):
                    trav.append((f, path + " on a hash container", bi, span))
    WI = "push::push_vm::push_state::PushState::with_input"
    ok_sites = [x for x in trav if x[0].id == WI and path_ends(x[1], "HashMap::iter")]
    for f, path, bi, span in trav:
        if f.id != WI or not path_ends(path, "HashMap::iter"):
            ctx.bad("R16.3", "hash-traversal/%s/%s" % (f.id, path.split("::")[-1]), "order-dependent traversal %s in %s" % (path, f.id), (span or {}).get("at"))
    # positive control: calls on hash containers are visible to this scan (the workspace keeps the input instructions in a HashMap)
    hm_calls = sum(1 for f in lib for kind, path, full, rdef, rlocal, bi, span, t in fn_uses(f) if "collections::HashMap" in (path or "") or "collections::hash::map::HashMap" in (path or ""))
    ctx.check(len(ok_sites) <= 1 and hm_calls >= 1, "R16.3", "positive-control/with_input-traversal-found", "%d HashMap::iter site(s) in with_input, %d HashMap method use(s) seen in library code" % (len(ok_sites), hm_calls))
    if ok_sites:
        f = F.fns[WI]
        good = False
        detail = ""
        for p in ctx.paths(f):
            for c in p.calls():
                if callee_is(c, "HashMap::iter"):
                    users = [d for d in p.calls() if any(mentions(a, c) for a in d[3]) and d is not c]
                    direct = [d for d in users if any(peel(a, ()) == c for a in d[3])]
                    if len(direct) == 1 and callee_is(direct[0], "Iterator::find_map"):
                        clo = direct[0][3][1]
                        cps = closure_paths(ctx, clo) if clo[0] == "agg" and clo[1] == "closure" else None
                        if cps:
                            # Some(..) only when PartialEq::eq(key, name) is true
                            good = True
                            for cp in cps:
                                if cp.end != "return":
                                    continue
                                some = any(x[0] == "agg" and path_ends(x[2], "Option::Some") for x in subexprs(cp.ret)) or callee_is(cp.ret, "bool::then_some", "bool::then")
                                if callee_is(cp.ret, "bool::then_some", "bool::then"):
                                    cond = cp.ret[3][0]
                                    # key (component 0 of the closure's entry argument) == a loop-invariant value of the caller
                                    sides = [peel(a, ()) for a in cond[3]] if callee_is(cond, "PartialEq::eq") and len(cond[3]) == 2 else []
                                    is_key = lambda a: a[0] == "field" and a[2] == 0 and a[1][:2] == ("cparam", 2)
                                    invariant = lambda a: not any(y[0] == "cparam" for y in subexprs(a))
                                    eq = len(sides) == 2 and ((is_key(sides[0]) and invariant(sides[1])) or (is_key(sides[1]) and invariant(sides[0])))
                                    good = good and eq
                                    detail = short(cp.ret, 6)
                                elif some:
                                    eqc = [cc for cc in cp.conds if callee_is(cc[0], "PartialEq::eq") and cc[1] != 0]
                                    good = good and bool(eqc)
                                    detail = short(cp.ret, 6)
                    elif len(direct) == 1 and callee_is(direct[0], "Iterator::find") and direct[0][3][1][0] == "agg" and direct[0][3][1][1] == "closure":
                        # find(|(k, _)| *k == name): the predicate is the key equality itself - at most one entry satisfies it
                        cps = [cp for cp in (closure_paths(ctx, direct[0][3][1]) or []) if cp.end != "unreachable"]
                        good = len(cps) == 1 and cps[0].end == "return" and callee_is(cps[0].ret, "PartialEq::eq") and len(cps[0].ret[3]) == 2
                        if good:
                            sides = [peel(a, ()) for a in cps[0].ret[3]]
                            is_key = lambda a: a[0] == "field" and a[2] == 0 and peel(a[1], ())[:2] == ("cparam", 2)
                            invariant = lambda a: not any(y[0] == "cparam" for y in subexprs(a))
                            good = (is_key(sides[0]) and invariant(sides[1])) or (is_key(sides[1]) and invariant(sides[0]))
                            detail = short(cps[0].ret, 6)
                    else:
                        detail = "consumers: " + ", ".join(short(d, 2) for d in direct)
        ctx.check(good, "R16.3", "with_input/find_map-with-key-equality", detail, f.at(),
                  bad_detail="the HashMap::iter in with_input must flow only into find_map whose closure returns Some only under key == name; " + detail)

    # the key type's equality/hash are the compiler-derived ones (so "key == name" identifies at most one entry)
    vn = "push::instruction::variable_name::VariableName"
    for tr in ("std::cmp::PartialEq", "std::cmp::Eq", "std::hash::Hash"):
        ims = [im for im in F.impls if im.get("trait") == tr and im["self"].get("path") == vn]
        ctx.check(len(ims) == 1 and ims[0]["derived"], "R16.3", "VariableName/%s-derived" % tr.split("::")[-1], "%d impl(s), derived=%s" % (len(ims), [i["derived"] for i in ims]),
                  ims[0]["span"]["at"] if ims else None)
    # ---- R16.4 ----------------------------------------------------------------------
    n_args = 0
    for f in lib:
        # derive(..) / strum generated code never has rng-typed args
        sites = {}
        for bi, b in enumerate(f.blocks):
            if b.get("cleanup"):
                continue
            t = b["term"]
            if t["k"] != "call":
                continue
            for ai, a in enumerate(t["args"]):
                if a.get("k") in ("copy", "move") and not a["place"]["p"]:
                    ty = f.locals[a["place"]["l"]]["ty"]
                    if is_rng_type(ty, f):
                        sites.setdefault(bi, []).append(ai)
        if not sites:
            continue
        seen = set()
        for p in ctx.paths(f):
            cands = []
            for ev in p.events:
                if ev[0] == "call" and len(ev[1][4]) == 2:
                    cands.append((ev[1], ev[1][3], ev[1][4][0], ev[1][4][1]))
                elif ev[0] == "inlined":
                    # a call the walker saw through (a helper unknown to the rule base): its actual arguments
                    cands.append((("call", ev[1], ev[1], ev[2], (f.id, ev[3])), ev[2], f.id, ev[3]))
            for c, cargs, cfn, bi in cands:
                if cfn != f.id or bi not in sites or bi in seen:
                    continue
                seen.add(bi)
                for ai in sites[bi]:
                    if ai >= len(cargs):
                        continue
                    n_args += 1
                    e = cargs[ai]
                    ok = is_the_rng(ctx, f, e)
                    if not ok and (f.root or f.id) in GEN_FNS:
                        # the generation step is the one place that may create a generator (R16.1)
                        ok = any(callee_is(x, "rand::rng") for x in subexprs(e)) or is_gen_worker_rng(ctx, f, e)
                    if ok:
                        ctx.ok("R16.4", "rng-arg/%s/%s/bb%d/arg%d" % (f.id, short(c, 1).split("(")[0], bi, ai), short(e, 4), F.fns[f.id].blocks[bi]["term"]["span"]["at"])
                    if not ok:
                        ctx.bad("R16.4", "rng-arg/%s/%s/arg%d" % (f.id, short(c, 1).split("(")[0], ai),
                                "rng-typed argument %s of %s does not derive from the function's own rng parameter" % (short(e, 6), short(c, 2)), F.fns[f.id].blocks[bi]["term"]["span"]["at"])
    ctx.ok("R16.4", "rng-threading", "%d rng-typed call arguments all derive from the enclosing function's rng parameter" % n_args)
    ctx.floor("R16.4", n_args, 120, "rng-typed call arguments")

    # ---- R16.5 -------------------------------------------------------------------------
    cg = CallGraph(F)
    root = "<push::push_vm::push_state::PushState as push::push_vm::State>::run_to_completion"
    ctx.fn(root)
    scope = cg.reach([root])
    bad = 0
    for fid in scope:
        f = F.fns.get(fid)
        if not f:
            continue
        for kind, path, full, rdef, rlocal, bi, span, t in fn_uses(f):
            if any(path_ends(path, a) for a in AMBIENT + RESEED) or "rand::" in path:
                bad += 1
                ctx.bad("R16.5", "evaluation-uses/%s/%s" % (fid, path.split("::")[-1]), "%s reachable from run_to_completion (in %s)" % (path, fid), (span or {}).get("at"))
    ctx.ok("R16.5", "push-evaluation-closure", "%d functions reachable from run_to_completion, no randomness/time/env callee" % len(scope))
    ctx.floor("R16.5", len(scope), 60, "functions reachable from run_to_completion")


def is_gen_worker_rng(ctx, f, e):
    """par_next: the rng is the first parameter of the map_init worker closure (rayon hands it the
    value produced by the init function, which R16.1 pins to rand::rng)"""
    x = e
    while x[0] in ("ref", "deref"):
        x = x[1]
    return f.is_closure and x == ("param", 2)
