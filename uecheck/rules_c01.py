"""C01 - Push programs evaluate to the state the instruction semantics prescribe."""
from .pat import ANY, Bind, Call, Param, CParam, Field, Through, Agg, Const, BinOp, UnOp, match, find, callee_is, path_ends
from .sym import short, subexprs
from .common import (TryOk, TryErr, is_err_return, return_paths, peel, peel_box, mentions, derives_from_self, closure_paths, cond_str, self_field, check_forwarder)
from . import pushleaves as PL
from . import pushspec

META = {
    "level": "other",
    "explanation": (
        "Static rule conformance on the MIR of the whole instruction set (27 Instruction::perform impls, 6 dispatchers, 88 leaf instructions reached by variant specialisation of the "
        "dispatchers), with a spec table written from the property statement and the repository's documentation as oracle. Decided: (R01.1) dispatch wiring - every dispatcher arm performs "
        "exactly its own payload with the state it was given; (R01.2) effect rows - an abstract interpretation of every leaf instruction over the stack primitives (intervals on initial "
        "sizes/rooms, no values) yields its complete outcome table, which is compared on the full boundary grid (each touched stack with 0..3 elements x 0..2 free slots) with the oracle "
        "row: on success it removes exactly its operands and pushes exactly its result, conditionals follow their documented action tables path by path; (R01.3) operand roles and primitive "
        "of every value-computing closure (top-op-second, checked_* with Overflow mapping, zero-divisor guards 1 and 0, saturating neg/abs, min/max/clamp, comparison operators, conversions, "
        "boolean truth tables, float fn items applied as op(top, second)); (R01.4) sign-safe parity; (R01.5) execution order: run_to_completion pops the exec top and performs it, a block "
        "is unfolded by push_many(iter().cloned()) (first element on top by C04 R04.4); (R01.6) input variables perform a clone of the instruction bound to that name; (R01.7) printing writes "
        "the popped value / the constant with write!/writeln!. NOT decided: numeric results beyond primitive identity, float corner values (OrderedFloat), Display formatting, whole-program "
        "composition (induction over per-step rows, argued). (R01.9) the order in which the stack hands out operands (top = last element, top2/top3/pop2/pop3 top first, bulk pushes first supplied on top) - C04's R04.4 re-evaluated here because 'first operand = top' rests on it; R01.8 also pins the literal/print/program constructors (PushValue::new, PrintString::new, PushProgram::from) and the stdout_string accessor."),
    "rules": {
        "R01.8": "construction wiring: every From<T> into an instruction enum wraps T in the variant whose payload type is T; the const constructors build the variant they are named after",
        "R01.9": "operand order of the stack reads/removals the instructions are built on (top = last element, top2/top3/pop2/pop3 top first, push_many first supplied on top): C04's R04.4 re-evaluated",
        "R01.1": "dispatcher arms forward to their own payload (53 arms)",
        "R01.2": "per-leaf effect rows / conditional action tables equal the oracle on the boundary grid",
        "R01.3": "value closures: primitive and operand order",
        "R01.4": "parity idioms are sign-safe",
        "R01.5": "interpreter order and block unfolding; every program taken off the exec stack is performed on every path",
        "R01.6": "input variables",
        "R01.7": "printing",
    },
    "trusted_base": ["std checked_*/saturating_*/Ord::min/max/clamp, OrderedFloat arithmetic and comparisons", "stack primitive summaries (verified by C02 R02.2 / C04)", "uecfacts driver + uecheck rule engine (pushfx)"],
    "assumptions": ["S1: every stack holds at most max_stack_size elements at instruction entry (established by C04 R04.1 and the builder typestate C19)", "S2: HasStack::stack::<T>() and stack_mut::<T>() name the same stack (decided for the derived impls by C19's accessor clause; hand-written impls are the user's)"],
    "not_decided": ["numeric values beyond primitive identity; NaN/-0.0 ordering; Display; whole-program induction"],
}


def opnd(e):
    """name an operand expression of a value closure: 'a' top, 'b' second, 'c' third; ints for constants"""
    x = e
    for _ in range(12):
        if x[0] in ("ref", "deref"):
            x = x[1]
        elif callee_is(x, "Clone::clone", "Deref::deref") and x[3]:
            x = x[3][0]
        else:
            break
    if x[0] == "cparam" and x[1] == 2:
        return "a"
    if x[0] == "field" and isinstance(x[2], int):
        base = x[1]
        while base[0] in ("ref", "deref"):
            base = base[1]
        if base[0] == "cparam" and base[1] == 2 and x[2] < 3:
            return "abc"[x[2]]
        if x[2] == 0:       # OrderedFloat(f).0
            inner = opnd(base)
            if inner in ("a", "b", "c"):
                return inner + ".0"
    if x[0] == "const":
        return x[3]
    if x[0] == "agg" and path_ends(x[2], "OrderedFloat::OrderedFloat") and len(x[3]) == 1:
        return ("OrderedFloat", opnd(x[3][0]))
    return None


def value_closures(ctx, leaf):
    """closures given to Result::map on the result of a stack read, for this leaf"""
    srcs = []
    for p in leaf.paths:
        if p.ret is not None:
            srcs.append(p.ret)
    if leaf.body_fn is not None:
        for p in ctx.paths(leaf.body_fn):
            if p.ret is not None:
                srcs.append(p.ret)
    out = []
    seen = set()
    helper = None
    for r in srcs:
        for x in subexprs(r):
            if callee_is(x, "Result::map") and len(x[3]) == 2:
                src = x[3][0]
                if any(callee_is(y, "Stack::top", "Stack::top2", "Stack::top3", "Stack::pop", "Stack::pop2", "Stack::pop3") for y in subexprs(src)):
                    f = x[3][1]
                    key = (f[0], f[2] if f[0] == "agg" else f[1])
                    if key not in seen:
                        seen.add(key)
                        out.append(f)
            if callee_is(x, "FloatInstruction::binary_arithmetic", "FloatInstruction::binary_predicate"):
                helper = x
    return out, helper


def check_values(ctx, leaves):
    n = 0
    for leaf in leaves:
        spec = pushspec.VALUES.get(leaf.name)
        if spec is None or leaf.outcomes is None:
            continue
        n += 1
        kind = spec[0]
        fs, helper = value_closures(ctx, leaf)
        at = leaf.at
        key = leaf.name + "/value"
        if leaf.name.startswith("Float::") and kind in ("fnitem", "fdiv"):
            if helper is None:
                ctx.bad("R01.3", key, "expected the arm to call binary_arithmetic / binary_predicate with the operator", at)
                continue
            want_helper = "binary_predicate" if leaf.name.split("::")[1] in ("Equal", "NotEqual", "GreaterThan", "LessThan", "GreaterThanOrEqual", "LessThanOrEqual") else "binary_arithmetic"
            okh = callee_is(helper, "FloatInstruction::" + want_helper) and helper[3][0] == ("param", 2)
            op = helper[3][1]
            if kind == "fnitem":
                ok = okh and op[0] == "fnitem" and path_ends(op[1], spec[1])
                ctx.check(ok, "R01.3", key, "%s(state, %s)" % (want_helper, short(op)), at,
                          bad_detail="%s must be %s(state, %s); extracted %s" % (leaf.name, want_helper, spec[1], short(helper, 3)))
            else:
                cps = [q for q in (closure_paths(ctx, op) or []) if q.end == "return"] if op[0] == "agg" and op[1] == "closure" else []
                good = okh and len(cps) == 2
                for q in cps:
                    c = q.conds[0] if len(q.conds) == 1 else None
                    if c is None:
                        good = False
                        continue
                    zero = callee_is(c[0], "PartialEq::eq") and {str(opnd(a)) for a in c[0][3]} >= {"c3"} or (callee_is(c[0], "PartialEq::eq") and is_param(c[0][3][0], 3) and is_zero_float(c[0][3][1]))
                    truth = c[1] != 0
                    if not zero:
                        good = False
                    elif truth:
                        good = good and is_one_float(q.ret)
                    else:
                        good = good and callee_is(q.ret, "Div::div") and is_param(q.ret[3][0], 2) and is_param(q.ret[3][1], 3)
                ctx.check(good, "R01.3", key, "; ".join("[%s] -> %s" % (cond_str(q), short(q.ret, 4)) for q in cps), at,
                          bad_detail="float protected divide must be |x, y| if y == 0.0 { 1.0 } else { x / y }; extracted " + "; ".join("[%s] -> %s" % (cond_str(q), short(q.ret, 5)) for q in cps))
            continue
        if kind == "fnitem1":
            ok = len(fs) == 1 and fs[0][0] == "fnitem" and path_ends(fs[0][1], spec[1])
            ctx.check(ok, "R01.3", key, ", ".join(short(f) for f in fs), at, bad_detail="expected map(%s); extracted %s" % (spec[1], [short(f) for f in fs]))
            continue
        clos = [f for f in fs if f[0] == "agg" and f[1] == "closure"]
        if len(clos) != 1:
            ctx.bad("R01.3", key, "expected exactly one value closure applied to the operands read from the stack, found %d" % len(clos), at)
            continue
        cps = [q for q in closure_paths(ctx, clos[0]) if q.end == "return"]
        desc = "; ".join(("[%s] -> " % cond_str(q) if q.conds else "") + short(q.ret, 5) for q in cps)

        def call_ok(r, name, ops, commutative=False):
            if not (callee_is(r, name) and len(r[3]) == len(ops)):
                return False
            got = [opnd(a) for a in r[3]]
            return got == ops or (commutative and sorted(map(str, got)) == sorted(map(str, ops)))
        good = False
        if kind in ("checked", "call"):
            good = len(cps) == 1 and call_ok(cps[0].ret, spec[1], spec[2], len(spec) > 3 and spec[3] == "commutative")
        elif kind == "guarded":
            good = len(cps) == 2
            for q in cps:
                c = q.conds[0] if len(q.conds) == 1 else None
                zero = c is not None and c[0][0] == "binop" and c[0][1] == "Eq" and {str(opnd(c[0][2])), str(opnd(c[0][3]))} == {"b", "0"}
                if not zero:
                    good = False
                elif c[1] != 0:
                    good = good and match(q.ret, Agg("Option::Some", Const(spec[3])))
                else:
                    good = good and call_ok(q.ret, spec[1], spec[2])
        elif kind == "power":
            okq = [q for q in cps if callee_is(q.ret, spec[1])]
            nq = [q for q in cps if not callee_is(q.ret, spec[1])]
            good = len(okq) == 1 and len(nq) == 1
            if good:
                r = okq[0].ret
                conv = TryOk(Call("Result::ok", Call("TryInto::try_into", lambda e: opnd(e) == "b", nargs=1), nargs=1))
                good = opnd(r[3][0]) == "a" and match(r[3][1], conv)
                term = ctx.F.fns[r[3][1][1][3][0][3][0][4][-2]].blocks[r[3][1][1][3][0][3][0][4][-1]]["term"] if good else None
                good = good and any(t.get("s") == "u32" for t in (term or {}).get("targs", []))
                good = good and callee_is(nq[0].ret, "FromResidual::from_residual")
        elif kind == "cmp":
            good = len(cps) == 1 and cps[0].ret[0] == "binop" and cps[0].ret[1] == spec[1] and [opnd(cps[0].ret[2]), opnd(cps[0].ret[3])] == spec[2]
            if not good and len(cps) == 1 and cps[0].ret[0] == "binop":
                mir = {"Lt": "Gt", "Gt": "Lt", "Le": "Ge", "Ge": "Le", "Eq": "Eq", "Ne": "Ne"}
                r = cps[0].ret
                good = mir.get(r[1]) == spec[1] and [opnd(r[3]), opnd(r[2])] == spec[2]
        elif kind == "parity":
            continue        # R01.4
        elif kind == "cast":
            if len(cps) == 1:
                r = cps[0].ret
                if r[0] == "agg" and path_ends(r[2], "OrderedFloat::OrderedFloat"):
                    r = r[3][0]
                good = r[0] == "cast" and r[1] == spec[1] and opnd(r[2]) in ("a", "a.0")
        elif kind == "clamp" and len(cps) == 1 and not cps[0].conds and callee_is(cps[0].ret, "Ord::clamp") and len(cps[0].ret[3]) == 3:
            # a.clamp(min(b, c), max(b, c)): the ordered bounds taken directly - for either order of b and c the same call as
            # "swap the bounds if b > c, then a.clamp(b, c)"
            x, lo, hi = cps[0].ret[3]
            good = opnd(x) == "a" and callee_is(lo, "Ord::min", "cmp::min") and callee_is(hi, "Ord::max", "cmp::max") and len(lo[3]) == 2 and len(hi[3]) == 2 and \
                sorted(opnd(y) for y in lo[3]) == ["b", "c"] and sorted(opnd(y) for y in hi[3]) == ["b", "c"] and len(cps[0].calls()) == 3
        elif kind == "clamp":
            good = len(cps) == 2
            for q in cps:
                c = q.conds[0] if len(q.conds) == 1 else None
                if c is None or c[0][0] != "binop":
                    good = False
                    continue
                l, r_, op = opnd(c[0][2]), opnd(c[0][3]), c[0][1]
                truth = c[1] != 0
                b_gt_c = (op == "Gt" and [l, r_] == ["b", "c"] and truth) or (op == "Lt" and [l, r_] == ["c", "b"] and truth) or \
                         (op == "Le" and [l, r_] == ["b", "c"] and not truth) or (op == "Ge" and [l, r_] == ["c", "b"] and not truth)
                b_le_c = (op == "Gt" and [l, r_] == ["b", "c"] and not truth) or (op == "Lt" and [l, r_] == ["c", "b"] and not truth) or \
                         (op == "Le" and [l, r_] == ["b", "c"] and truth) or (op == "Ge" and [l, r_] == ["c", "b"] and truth)
                if b_gt_c:
                    good = good and call_ok(q.ret, "Ord::clamp", ["a", "c", "b"])
                elif b_le_c:
                    good = good and call_ok(q.ret, "Ord::clamp", ["a", "b", "c"])
                else:
                    good = False
        elif kind == "bool2":
            tt = truth_table(cps)
            want = {"and": lambda a, b: a and b, "or": lambda a, b: a or b, "xor": lambda a, b: a != b, "implies": lambda a, b: (not a) or b}[spec[1]]
            good = tt is not None and all(tt[(a, b)] == want(a, b) for a in (False, True) for b in (False, True))
            desc += "  truth table " + str({"%d%d" % (a, b): int(v) for (a, b), v in sorted((tt or {}).items())})
        ctx.check(good, "R01.3", key, desc[:400], at,
                  bad_detail="%s must compute %s over (a = top, b = second, c = third); extracted %s" % (leaf.name, spec_text(spec), desc[:500]))
        if kind in ("checked", "guarded", "power"):
            # overflow mapping: and_then(|v| v.ok_or(IntInstructionError::Overflow{..}))
            srcs = [p.ret for p in leaf.paths if p.ret is not None]
            at_ok = False
            for r in srcs:
                for x in subexprs(r):
                    if callee_is(x, "Result::and_then") and x[3][1][0] == "agg" and x[3][1][1] == "closure":
                        qs = [q for q in closure_paths(ctx, x[3][1]) if q.end == "return"]
                        at_ok = len(qs) == 1 and match(qs[0].ret, Through(Call("Option::ok_or", CParam(2), Agg("IntInstructionError::Overflow", ANY), nargs=2), calls=("Result::map_err",)))
            ctx.check(at_ok, "R01.3", leaf.name + "/None->IntInstructionError::Overflow", "and_then(|v| v.ok_or(Overflow{op}))", at)
    ctx.floor("R01.3", n, 41, "value-computing instructions checked")


def is_param(e, i):
    x = e
    while x[0] in ("ref", "deref"):
        x = x[1]
    return x[0] == "cparam" and x[1] == i


def is_zero_float(e):
    for x in subexprs(e):
        if x[0] == "const" and str(x[3]) in ("0.0", "0", "-0.0"):
            return True
    return False


def is_one_float(e):
    for x in subexprs(e):
        if x[0] == "const" and str(x[3]) in ("1.0", "1"):
            return True
    return False


def spec_text(spec):
    k = spec[0]
    if k in ("checked", "call"):
        return "%s(%s)" % (spec[1], ", ".join(map(str, spec[2])))
    if k == "guarded":
        return "if b == 0 { Some(%d) } else { %s(a, b) }" % (spec[3], spec[1])
    if k == "cmp":
        return "%s(%s)" % (spec[1], ", ".join(map(str, spec[2])))
    return str(spec)


def truth_table(cps):
    """evaluate a two-argument boolean closure (paths with conditions) on {0,1}^2"""
    def ev(e, env):
        x = e
        while x[0] in ("ref", "deref"):
            x = x[1]
        o = opnd(x)
        if o in env:
            return env[o]
        if x[0] == "const" and isinstance(x[3], int):
            return bool(x[3])
        if x[0] == "unop" and x[1] == "Not":
            v = ev(x[2], env)
            return None if v is None else (not v)
        if x[0] == "binop":
            a, b = ev(x[2], env), ev(x[3], env)
            if a is None or b is None:
                return None
            return {"Ne": a != b, "Eq": a == b, "BitAnd": a and b, "BitOr": a or b, "BitXor": a != b}.get(x[1])
        return None
    tt = {}
    for a in (False, True):
        for b in (False, True):
            env = {"a": a, "b": b}
            res = []
            for q in cps:
                ok = True
                for c in q.conds:
                    v = ev(c[0], env)
                    if v is None:
                        return None
                    want = (c[1] != 0) if not isinstance(c[1], tuple) else (0 in c[1][1])
                    if v != want:
                        ok = False
                if ok:
                    res.append(ev(q.ret, env))
            if len(res) != 1 or res[0] is None:
                return None
            tt[(a, b)] = res[0]
    return tt


def check_parity(ctx, leaves):
    for leaf in leaves:
        spec = pushspec.VALUES.get(leaf.name)
        if not spec or spec[0] != "parity":
            continue
        odd = spec[1] == 1
        fs, _ = value_closures(ctx, leaf)
        clos = [f for f in fs if f[0] == "agg" and f[1] == "closure"]
        key = leaf.name + "/sign-safe-parity"
        if len(clos) != 1:
            ctx.bad("R01.4", key, "value closure not found", leaf.at)
            continue
        cps = [q for q in closure_paths(ctx, clos[0]) if q.end == "return"]
        r = cps[0].ret if len(cps) == 1 else None
        verdict = None
        if r is not None and r[0] == "binop" and r[1] in ("Eq", "Ne"):
            l, k = r[2], r[3]
            if l[0] == "const":
                l, k = k, l
            kv = k[3] if k[0] == "const" else None
            base = None
            if l[0] == "binop" and l[1] == "Rem" and opnd(l[2]) == "a" and opnd(l[3]) == 2:
                base = "rem"            # a % 2  in {-1, 0, 1}
            elif l[0] == "binop" and l[1] == "BitAnd" and {str(opnd(l[2])), str(opnd(l[3]))} == {"a", "1"}:
                base = "and"            # a & 1  in {0, 1}
            elif callee_is(l, "i64::rem_euclid") and opnd(l[3][0]) == "a" and opnd(l[3][1]) == 2:
                base = "and"
            if base and kv is not None:
                # which parity does the expression denote for every a (negative included)?
                def denotes(parity):       # parity: 0 even, 1 odd
                    vals = {0: [0], 1: ([1, -1] if base == "rem" else [1])}
                    allv = vals[0] + vals[1]
                    truth = {v: ((v == kv) if r[1] == "Eq" else (v != kv)) for v in allv}
                    return all(truth[v] for v in vals[parity]) and not any(truth[v] for v in vals[1 - parity])
                verdict = denotes(1 if odd else 0)
        ctx.check(bool(verdict), "R01.4", key, short(r, 5) if r is not None else "-", leaf.at,
                  bad_detail="%s must answer mathematically for negative numbers too: with a signed remainder, `a %% 2` is -1 for negative odd a, so comparing it with a non-zero constant is wrong; "
                             "accepted idioms: a %% 2 != 0, a %% 2 == 0, a & 1 == 1, a.rem_euclid(2) == 1; extracted %s" % (leaf.name, short(r, 6) if r is not None else "(no single expression)"))


def check(ctx):
    from .common import shadowing_audit
    ctx.floor('R01.2', shadowing_audit(ctx, 'R01.2', ('push::instruction::Instruction', 'push::push_vm::', 'push::error::')), 20, 'Instruction / State / HasStack impls of workspace types (shadowing audit)')
    from .ctors import check_table
    check_table(ctx, "C01", "R01.8")
    F = ctx.F
    fx, leaves, problems = PL.analyse(ctx)
    for kind, msg, at in problems:
        ctx.bad("R01.1", "%s/%s" % (kind, msg.split(":")[0][:80]), msg, at)
    real = [l for l in leaves if l.outcomes is not None]
    ctx.floor("R01.2", len(real), 88, "leaf instructions")
    # ---- R01.1 ------------------------------------------------------------
    n_arms = 0
    for l in leaves:
        if l.dispatch_ok is None:
            continue
        n_arms += 1
        ctx.check(l.dispatch_ok, "R01.1", l.name + "/arm-performs-own-payload", l.detail, l.fn.at(),
                  bad_detail="the arm for %s must be exactly payload.perform(state) on its own payload; extracted %s" % (l.name, l.detail))
    ctx.floor("R01.1", n_arms, 51, "dispatcher arms with a payload (+2 PushProgram arms checked separately)")
    # ---- R01.2 ---------------------------------------------------------------
    pts = 0
    for l in real:
        if l.spec is None:
            ctx.bad("R01.2", l.name + "/unclassified", "instruction %s has no row in the oracle table (fail closed)" % l.name, l.at)
            continue
        for o in l.outcomes:
            if o.run.opaque:
                ctx.bad("R01.2", l.name + "/unclassified-state-access", "; ".join(o.run.opaque)[:300], l.at)
            if o.kind in ("unknown", "loop"):
                ctx.bad("R01.2", l.name + "/unclassified-outcome", "%s: %s" % (o.kind, "; ".join(o.run.notes)[:300]), l.at)
        if l.spec == "input":
            continue
        if l.spec == "conditional":
            bad, n = PL.compare_conditional(l)
        else:
            bad, n = PL.compare_plain(l)
        pts += n
        if not bad:
            ctx.ok("R01.2", l.name + "/effect-row", "; ".join(o.describe() for o in l.outcomes)[:500], l.at)
        for k, msg in bad.items():
            ctx.bad("R01.2", "%s/%s" % (l.name, k), msg, l.at)
    ctx.extra["grid_points_compared"] = pts
    # ---- R01.9: "first operand = top" rests on the order in which the stack hands out elements -------------
    from . import rules_c04
    from .rules_c03 import _Refile
    rules_c04.check(_Refile(ctx, {"R04.4": "R01.9"}))
    for fid, c in fx.unclassified:
        ctx.bad("R01.2", "unclassified-call/%s" % short(c, 1).split("(")[0], "call on the machine state without a primitive summary: %s in %s" % (short(c, 3), fid))
    # ---- R01.3 / R01.4 ---------------------------------------------------------
    check_values(ctx, real)
    check_parity(ctx, real)
    # float helper closures apply op(top, second)
    for name in ("binary_arithmetic", "binary_predicate"):
        f = ctx.fn("push::instruction::float::FloatInstruction::" + name)
        found = False
        for p in ctx.paths(f):
            if p.ret is None:
                continue
            for x in subexprs(p.ret):
                if callee_is(x, "Result::map") and x[3][1][0] == "agg" and x[3][1][1] == "closure" and any(callee_is(y, "Stack::top2") for y in subexprs(x[3][0])):
                    qs = [q for q in closure_paths(ctx, x[3][1]) if q.end == "return"]
                    if len(qs) == 1 and callee_is(qs[0].ret, "FnOnce::call_once", "Fn::call", "FnMut::call_mut"):
                        argt = qs[0].ret[3][1]
                        ok = argt[0] == "agg" and argt[1] == "tuple" and [opnd(a) for a in argt[3]] == ["a", "b"] and peel(qs[0].ret[3][0], ())[0] in ("upvar", "param")
                        found = found or ok
        ctx.check(found, "R01.3", "Float::%s/applies-op(top,second)" % name, "map(|(x, y)| op(x, y)) over top2()", f.at())
    # IfElse (true, two blocks): the block put back is the first component of pop2 (the top = `then` block)
    ie = ctx.trait_fn("push::instruction::Instruction::perform", "push::instruction::exec::ifelse::IfElse")
    kept = []
    for p in ctx.paths(ie):
        for c in p.calls():
            if callee_is(c, "StackPush::with_stack_push", "HasStack::with_push", "Stack::push"):
                kept.append(c[3][-1])
    okk = len(set(kept)) == 1 and kept[0][0] == "field" and kept[0][2] == 0 and kept[0][1][0] == "field" and kept[0][1][3] == "Ok" and callee_is(peel(kept[0][1][1], ()), "Stack::pop2")
    ctx.check(okk, "R01.3", "Exec::IfElse/true-keeps-the-then-block(top)", ", ".join(short(k, 4) for k in set(kept)), ie.at(),
              bad_detail="when the condition is true IfElse must put back the first (top = then) block of the two it popped; extracted " + ", ".join(short(k, 5) for k in set(kept)))
    check_common_values(ctx)
    check_constructors(ctx)
    # ---- R01.5 ---------------------------------------------------------------------
    f = ctx.fn("<push::push_vm::push_state::PushState as push::push_vm::State>::run_to_completion")
    body = [p for p in ctx.paths(f) if p.end.startswith("loop:")]
    ok = False
    detail = "-"
    for p in body:
        pops = [c for c in p.calls() if callee_is(c, "Stack::pop")]
        perf = [c for c in p.calls() if callee_is(c, "State::perform", "Instruction::perform")]
        if len(pops) == 1 and len(perf) == 1:
            tgt = peel(pops[0][3][0], ())
            is_exec = tgt[0] == "field" and tgt[2] == "exec" and peel(tgt[1], ()) == ("param", 1)
            prog = peel(perf[0][3][1], ())
            from_pop = mentions(prog, pops[0])
            ok = is_exec and from_pop and peel(perf[0][3][0], ()) == ("param", 1) and p.calls().index(pops[0]) < p.calls().index(perf[0])
            detail = short(perf[0], 4)
    ctx.check(ok, "R01.5", "run_to_completion/performs-popped-exec-top", detail, f.at(),
              bad_detail="each step must pop the top of the exec stack and perform exactly that program on the state; extracted " + detail)
    # ... on *every* path: a program taken off the exec stack is performed before the loop goes on or the run ends (an added
    # `break` / `continue` between the pop and the perform silently drops an instruction)
    dropped = []
    n_taken = 0
    for p in ctx.paths(f):
        if p.end == "unreachable":
            continue
        pops = [c for c in p.calls() if callee_is(c, "Stack::pop") and (lambda t: t[0] == "field" and t[2] == "exec" and peel(t[1], ()) == ("param", 1))(peel(c[3][0], ()))]
        took = [c for c in pops if any(cc[0][0] == "discr" and peel(cc[0][1], ()) == c and cc[1] == 0 for cc in p.conds)]
        if not took:
            continue
        n_taken += 1
        perf = [c for c in p.calls() if callee_is(c, "State::perform", "Instruction::perform")]
        if not (len(took) == 1 and len(perf) == 1 and mentions(peel(perf[0][3][1], ()), took[0]) and p.calls().index(took[0]) < p.calls().index(perf[0])):
            dropped.append(p)
    ctx.check(n_taken >= 1 and not dropped, "R01.5", "run_to_completion/every-popped-program-is-performed", "%d path(s) take a program off the exec stack, each performs it" % n_taken, f.at(),
              bad_detail="a path takes a program off the exec stack (pop == Ok) and leaves the iteration without performing it: [%s] end=%s" % (
                  "; ".join(str(cc[1]) for cc in (dropped[0].conds if dropped else [])[-6:]), dropped[0].end if dropped else "-"))
    vf = ctx.trait_fn("push::instruction::Instruction::perform", "std::vec::Vec<I>")
    okb = False
    detail = "-"
    for p in ctx.paths(vf):
        for c in p.calls():
            if callee_is(c, "Stack::push_many"):
                src = c[3][1]
                detail = short(c, 5)
                okb = match(src, Call("Iterator::cloned", Call("[T]::iter", Through(Param(1), calls=("Deref::deref",)), nargs=1), nargs=1)) and callee_is(peel(c[3][0], ()), "HasStack::stack_mut")
    ctx.check(okb, "R01.5", "block/unfolds-with-push_many(iter().cloned())", detail, vf.at(),
              bad_detail="a block must be unfolded by push_many(self.iter().cloned()) with no reordering adaptor; extracted " + detail)
    # a block is ONLY unfolded (one step): its effect summary is {push all elements onto exec | fatal overflow}, never "perform an element now"
    bouts = fx.summary(vf.id, {"I": "exec"}) or []
    okk = bool(bouts)
    for o in bouts:
        d, out = o.effects()
        if o.kind == "ok":
            okk = okk and set(d) == {"exec"} and d["exec"]["many"] and not d["exec"]["pops"] and not d["exec"]["pushes"] and not out
        elif o.kind == "err":
            okk = okk and o.severity == "fatal" and o.cause == "overflow" and not o.run.mutated
        else:
            okk = False
    ctx.check(okk and {o.kind for o in bouts} == {"ok", "err"}, "R01.5", "block/performing-a-block-only-unfolds-it", "; ".join(o.describe() for o in bouts), vf.at(),
              bad_detail="performing a block must do nothing but push its elements onto the exec stack (or report overflow); every element is then executed in its own step. Extracted outcomes: " + "; ".join(o.describe() + (" [" + "; ".join(o.run.notes) + "]" if o.run.notes else "") for o in bouts))
    pf = ctx.fn("<push::push_vm::program::PushProgram as push::instruction::Instruction<push::push_vm::push_state::PushState>>::perform")
    n_ok = 0
    for p in return_paths(ctx.paths(pf)):
        d = [c for c in p.conds if c[0] == ("discr", ("deref", ("param", 1)))]
        r = p.ret
        if d and callee_is(r, "Instruction::perform") and len(p.calls()) == 1 and r[3][1] == ("param", 2):
            recv = peel_box(r[3][0])
            vname = {0: "Instruction", 1: "Block"}.get(d[0][1])
            if recv[0] == "field" and recv[3] == vname and peel_box(recv[1]) == ("param", 1):
                n_ok += 1
    ctx.check(n_ok == 2, "R01.1", "PushProgram/arms-perform-own-payload", "%d/2 arms" % n_ok, pf.at())
    sp = ctx.fn("push::push_vm::State::perform")
    check_forwarder(ctx, "R01.5", "State::perform/forwards", sp, "Instruction::perform", [lambda a: a == ("param", 2), lambda a: a == ("param", 1)], wrappers=())
    # ---- R01.6 -------------------------------------------------------------------------
    wi = ctx.fn("push::push_vm::push_state::PushState::with_input")
    okw = False
    detail = "-"
    for p in return_paths(ctx.paths(wi)):
        r = p.ret
        detail = short(r, 6)
        if callee_is(r, "Instruction::perform") and r[3][1] == ("param", 1):
            inst = peel(r[3][0], ())
            okw = match(inst, Call("Clone::clone", Through(Call(("Option::unwrap_or_else", "Option::expect", "Option::unwrap"), Call("Iterator::find_map", Through(Call("HashMap::iter", lambda e: self_field(e, "input_instructions"))), ANY, nargs=2)), calls=()), nargs=1))
            if okw:
                clo = [x for x in subexprs(r) if callee_is(x, "Iterator::find_map")][0][3][1]
                qs = [q for q in closure_paths(ctx, clo) if q.end == "return"]
                okw = len(qs) == 1 and callee_is(qs[0].ret, "bool::then_some") and callee_is(qs[0].ret[3][0], "PartialEq::eq") and \
                    peel(qs[0].ret[3][1], ())[0] == "field" and peel(qs[0].ret[3][1], ())[2] == 1 and mentions(qs[0].ret[3][0], ("param", 2))
    if not okw:
        # the same clause for `iter().find(|(k, _)| *k == name)`: the first entry whose key equals the name (keys are unique), its
        # value cloned and performed; no entry -> the documented panic
        lp = [p for p in ctx.paths(wi) if p.end != "unreachable"]
        rp = [p for p in lp if p.end == "return"]
        if len(rp) == 1 and callee_is(rp[0].ret, "Instruction::perform") and len(rp[0].ret[3]) == 2 and rp[0].ret[3][1] == ("param", 1):
            inst = peel(rp[0].ret[3][0], ())
            b = {}
            okf = match(inst, Call("Clone::clone", Through(Field(Through(Field(Bind("find", Call("Iterator::find", Through(Call("HashMap::iter", lambda e: self_field(e, "input_instructions"))), ANY, nargs=2)), 0, "Some")), 1)), nargs=1), b)
            if okf:
                fc = b["find"]
                qs = [q for q in closure_paths(ctx, fc[3][1]) if q.end != "unreachable"] if fc[3][1][0] == "agg" and fc[3][1][1] == "closure" else []
                okf = len(qs) == 1 and qs[0].end == "return" and callee_is(qs[0].ret, "PartialEq::eq") and len(qs[0].ret[3]) == 2
                if okf:
                    sides = [peel(a, ()) for a in qs[0].ret[3]]
                    is_key = lambda a: a[0] == "field" and a[2] == 0 and peel(a[1], ())[:2] == ("cparam", 2)
                    okf = (is_key(sides[0]) and sides[1] == ("param", 2)) or (is_key(sides[1]) and sides[0] == ("param", 2))
                okf = okf and all(p.end in ("return", "diverge") for p in lp) and len([c for p in lp for c in p.calls() if callee_is(c, "Instruction::perform")]) == 1
            okw = okf
            if okw:
                detail = "perform(clone(input_instructions.iter().find(key == name)?.1), self)"
    if not okw:
        # the same clause for the keyed lookup `self.input_instructions.get(name)`: HashMap::get finds the entry whose key == name
        from . import ckit as K
        lps = K.live(ctx.cpaths(wi))
        gets = {K.strip(c, calls=()) for q in lps for c in q.calls() if callee_is(c, "HashMap::get")}
        g = list(gets)[0] if len(gets) == 1 else None
        okg = g is not None and len(g[3]) == 2 and self_field(K.strip(g[3][0], calls=()), "input_instructions") and K.strip(g[3][1], calls=()) == ("param", 2)
        n_ret = 0
        for q in lps if okg else []:
            if q.end == "return":
                n_ret += 1
                r = q.ret
                okg = okg and K.discr_is(q, lambda o: K.strip(o, calls=()) == g, 1) and callee_is(r, "Instruction::perform") and len(r[3]) == 2 and r[3][1] == ("param", 1) and \
                    callee_is(peel(r[3][0], ()), "Clone::clone") and K.strip(peel(r[3][0], ())[3][0], calls=()) == ("field", g, 0, "Some") and \
                    len([c for c in q.calls() if callee_is(c, "Instruction::perform")]) == 1
            else:
                okg = okg and q.end == "diverge" and K.discr_is(q, lambda o: K.strip(o, calls=()) == g, 0) and not [c for c in q.calls() if callee_is(c, "Instruction::perform")]
        okw = okg and n_ret == 1
        if okw:
            detail = "perform(clone(input_instructions.get(name)?), self)"
    ctx.check(okw, "R01.6", "with_input/performs-clone-of-instruction-bound-to-name", detail[:300], wi.at(),
              bad_detail="with_input must look the name up by key equality, clone that instruction and perform it on self; extracted " + detail[:400])
    # ---- R01.7 ---------------------------------------------------------------------------
    for ty, macro in (("Print<T>", "write"), ("PrintLn<T>", "writeln")):
        pf2 = ctx.trait_fn("push::instruction::Instruction::perform", "push::instruction::printing::" + ty)
        okp = False
        for b in pf2.blocks:
            t = b["term"]
            if t["k"] == "call" and path_ends(t.get("fn") or "", "Write::write_fmt"):
                okp = macro in (t["span"].get("macros") or [])
        val_ok = False
        for p in return_paths(ctx.paths(pf2)):
            for c in p.calls():
                if callee_is(c, "Argument::new_display"):
                    val_ok = val_ok or any(callee_is(x, "Stack::pop") for x in subexprs(c[3][0]))
        ctx.check(okp and val_ok, "R01.7", "%s/%s!-of-the-popped-value" % (ty.split("<")[0], macro), "write_fmt expanded from %s!, argument = popped value" % macro, pf2.at(),
                  bad_detail="%s must print the popped value with %s! (macro found: %s, prints popped value: %s)" % (ty, macro, okp, val_ok))
    pc = ctx.trait_fn("push::instruction::Instruction::perform", "push::instruction::printing::char::PrintChar<CHAR>")
    okc = any(b["term"]["k"] == "call" and path_ends(b["term"].get("fn") or "", "Write::write_fmt") and "write" in (b["term"]["span"].get("macros") or []) for b in pc.blocks)
    shows_char = False
    for p in ctx.paths(pc):
        for c in p.calls():
            if callee_is(c, "Argument::new_display"):
                shows_char = shows_char or any(x[0] == "const" and "CHAR" in x[2] for x in subexprs(c))
    ctx.check(okc and shows_char, "R01.7", "PrintChar/write!-of-its-const-generic", "write!(stdout, \"{CHAR}\")", pc.at())
    psn = ctx.trait_fn("push::instruction::Instruction::perform", "push::instruction::printing::string::PrintString")
    shows = False
    for p in ctx.paths(psn):
        for c in p.calls():
            if callee_is(c, "Argument::new_display"):
                shows = shows or any(x[0] == "field" and x[2] == 0 and peel(x[1], ()) == ("param", 1) for x in subexprs(c))
    okc = any(b["term"]["k"] == "call" and path_ends(b["term"].get("fn") or "", "Write::write_fmt") and "write" in (b["term"]["span"].get("macros") or []) for b in psn.blocks)
    ctx.check(okc and shows, "R01.7", "PrintString/write!-of-self.0", "write!(stdout, \"{}\", self.0)", psn.at())


ENUMS_WITH_CTORS = ("push::instruction::int::IntInstruction", "push::instruction::float::FloatInstruction", "push::instruction::bool::BoolInstruction",
                    "push::instruction::exec::ExecInstruction", "push::instruction::PushInstruction")
CTOR_NAME_EXCEPTIONS = {"push_ordered_float": "Push"}


def check_constructors(ctx):
    F = ctx.F
    n = 0
    for im in F.impls:
        sp = im["self"].get("path")
        if im.get("trait") != "std::convert::From" or sp not in ENUMS_WITH_CTORS:
            continue
        src = (im.get("targs") or [{}])[0].get("s")
        adt = F.adts[sp]
        cands = [v["name"] for v in adt["variants"] if len(v["fields"]) == 1 and v["fields"][0]["ty"]["s"] == src]
        fns = [fn for fn in F.fns.values() if fn.parent == im["id"] and fn.assoc_name == "from" and fn.locals[1]["ty"]["s"] == src]
        key = "%s::from(%s)" % (sp.split("::")[-1], (src or "?").split("::")[-1])
        if len(fns) != 1 or len(cands) != 1:
            ctx.bad("R01.8", key + "/unclassified", "variants with payload %s: %s; from fns: %d" % (src, cands, len(fns)), im["span"]["at"])
            continue
        n += 1
        ctx.fns_analysed.add(fns[0].id)
        ps = return_paths(ctx.paths(fns[0]))
        ok = len(ps) == 1 and match(ps[0].ret, Agg(sp.split("::")[-1] + "::" + cands[0], Param(1))) and not ps[0].calls()
        ctx.check(ok, "R01.8", key + "/wraps-in-" + cands[0], short(ps[0].ret) if ps else "-", fns[0].at(),
                  bad_detail="From<%s> must produce the variant %s (the one whose payload type is %s); extracted %s" % (src, cands[0], src, "; ".join(short(p.ret, 4) for p in ps)))
    ctx.floor("R01.8", n, 26, "From conversions into instruction enums")
    m = 0
    for fn in sorted(F.fns.values(), key=lambda f: f.id):
        if fn.kind != "AssocFn" or fn.trait_item or fn.takes_self or fn.is_closure:
            continue
        rt = fn.locals[0]["ty"]
        if rt.get("path") not in ENUMS_WITH_CTORS or not fn.id.startswith(rt["path"] + "::"):
            continue
        name = fn.assoc_name
        if name in ("binary_arithmetic", "binary_predicate"):
            continue
        ps = return_paths(ctx.paths(fn))
        r = ps[0].ret if len(ps) == 1 else ("unknown",)
        m += 1
        if rt["path"] == "push::instruction::PushInstruction":
            inner = {"push_bool": "BoolInstruction::push", "push_int": "IntInstruction::push", "push_float": "FloatInstruction::push_ordered_float"}.get(name)
            ok = inner is not None and match(r, Call(("Into::into", "From::from"), Call(inner, Param(1), nargs=1), nargs=1))
            ctx.check(ok, "R01.8", "PushInstruction::%s/builds-the-typed-literal" % name, short(r, 4), fn.at())
            continue
        want = CTOR_NAME_EXCEPTIONS.get(name, None)
        vname = r[2].rsplit("::", 1)[-1] if r[0] == "agg" and r[1] == "adt" else None
        ok = vname is not None and r[2].startswith(rt["path"].rsplit("::", 1)[-1] + "::") is not None and \
            ((want is not None and vname == want) or (want is None and vname.lower() == name.replace("_", "").lower()))
        # literal constructors carry their argument
        if ok and fn.argc == 1:
            ok = mentions(r, ("param", 1))
        ctx.check(ok, "R01.8", "%s::%s/builds-variant-%s" % (rt["path"].split("::")[-1], name, vname), short(r, 4), fn.at(),
                  bad_detail="constructor %s::%s must build the variant it is named after; extracted %s" % (rt["path"].split("::")[-1], name, short(r, 5)))
    ctx.floor("R01.8", m, 27, "named constructors of instruction enums")


def check_common_values(ctx):
    """values moved by the type-generic instructions (Push, Dup, Swap, IsEmpty, StackDepth, DupBlock)"""
    I = "push::instruction::Instruction::perform"
    C = "push::instruction::common::"
    stack_of = lambda e: callee_is(peel(e, ()), "HasStack::stack", "HasStack::stack_mut") and peel(peel(e, ())[3][0], ()) == ("param", 2)
    f = ctx.trait_fn(I, C + "push_value::PushValue<T>")
    ps = return_paths(ctx.paths(f))
    ok = len(ps) == 1 and match(ps[0].ret, Through(Call("HasStack::with_push", Param(2), Call("Clone::clone", Through(Field(Through(Param(1)), 0)), nargs=1), nargs=2), calls=("MapInstructionError::map_err_into",)))
    ctx.check(ok, "R01.3", "Push/pushes-a-clone-of-its-literal", short(ps[0].ret, 5) if ps else "-", f.at())
    for ty, key in ((C + "dup::Dup<T>", "Dup"), ("push::instruction::exec::dup_block::DupBlock", "DupBlock")):
        f = ctx.trait_fn(I, ty)
        ps = return_paths(ctx.paths(f))
        ok = len(ps) == 1 and match(ps[0].ret, Call("PushOnto::push_onto", Through(Call(("Result::cloned", "Result::copied"), Through(Call("Stack::top", stack_of, nargs=1), calls=("Result::inspect", "Result::inspect_err")), nargs=1),
                                                                                  calls=("Result::inspect", "Result::inspect_err", "Result::map_err")), Param(2), nargs=2))
        ctx.check(ok, "R01.3", key + "/pushes-a-clone-of-the-top", short(ps[0].ret, 5) if ps else "-", f.at())
    f = ctx.trait_fn(I, C + "swap::Swap<T>")
    okp = [p for p in return_paths(ctx.paths(f)) if not is_err_return(p)]
    ok = len(okp) == 1
    if ok:
        pushes = [c for c in okp[0].calls() if callee_is(c, "HasStack::with_push")]
        pop2 = [c for c in okp[0].calls() if callee_is(c, "Stack::pop2")]
        ok = len(pushes) == 2 and len(pop2) == 1 and pushes[0][3][1] == ("field", ("field", pop2[0], 0, "Ok"), 0, None) and pushes[1][3][1] == ("field", ("field", pop2[0], 0, "Ok"), 1, None)
    ctx.check(ok, "R01.3", "Swap/pushes-old-top-then-old-second(second-ends-on-top)", short(okp[0].ret, 4)[:200] if okp else "-", f.at(),
              bad_detail="Swap must pop (top, second) and push top first, then second, so that the two values change places")
    f = ctx.trait_fn(I, C + "is_empty::IsEmpty<T>")
    ps = return_paths(ctx.paths(f))
    ok = len(ps) == 1 and match(ps[0].ret, Through(Call("HasStack::with_push", Param(2), Call("Stack::is_empty", stack_of, nargs=1), nargs=2), calls=("MapInstructionError::map_err_into",)))
    if ok:
        c = [x for x in ps[0].calls() if callee_is(x, "HasStack::stack")][0]
        t = ctx.F.fns[c[4][-2]].blocks[c[4][-1]]["term"]
        ok = (t.get("targs") or [{}, {}])[1].get("s") == "T"
    ctx.check(ok, "R01.3", "IsEmpty/pushes-is_empty-of-its-own-stack", short(ps[0].ret, 5) if ps else "-", f.at())
    f = ctx.trait_fn(I, C + "stack_depth::StackDepth<T>")
    ps = return_paths(ctx.paths(f))
    ok = len(ps) == 1 and match(ps[0].ret, Through(Call("HasStack::with_push", Param(2), Call("Result::unwrap_or", Call("TryInto::try_into", Call("Stack::size", stack_of, nargs=1), nargs=1), ANY, nargs=2), nargs=2), calls=("MapInstructionError::map_err_into",)))
    if ok:
        c = [x for x in ps[0].calls() if callee_is(x, "HasStack::stack")][0]
        t = ctx.F.fns[c[4][-2]].blocks[c[4][-1]]["term"]
        ok = (t.get("targs") or [{}, {}])[1].get("s") == "T"
    ctx.check(ok, "R01.3", "StackDepth/pushes-size-of-its-own-stack-as-i64", short(ps[0].ret, 6) if ps else "-", f.at())
    so = ctx.trait_fn("push::push_vm::push_io::HasStdout::stdout", "push::push_vm::push_state::PushState")
    ps = return_paths(ctx.paths(so))
    r = peel(ps[0].ret, ()) if len(ps) == 1 else ("unknown",)
    ctx.check(r[0] == "field" and r[2] == "stdout" and peel(r[1], ()) == ("param", 1), "R01.7", "PushState::stdout()-is-the-output-buffer-field", short(ps[0].ret) if ps else "-", so.at())
