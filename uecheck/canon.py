"""Canonical walking mode (sym.Walker with canon=True).

The plain walker records calls of std combinators as opaque call expressions, so
`o.ok_or(E)?`, `match o { Some(x) => x, None => return Err(E) }` and
`let Some(x) = o else { return Err(E) }` give three different expression shapes
for the same behaviour.  In canonical mode the Option / Result / bool algebra of
std is *unfolded into path splits*: every modelled combinator forks the path on
the discriminant of its receiver (the same `discr(o) == k` condition a `match`
produces, with the same `known` bookkeeping) and yields the aggregate the
combinator would build.  Closures handed to combinators are inlined (their
paths, conditions and calls become part of the caller's path), function items
become ordinary calls, `?` becomes a split with `From::from` applied to the
error (dropped when source and target type are the same), `Into::into` between
equal types disappears.  After this, equivalent spellings have identical
canonical paths (conditions + returned aggregate + sequence of non-modelled
calls), and rules can be stated over *outcomes* instead of over spellings.

Nothing is evaluated: the models are the documented definitions of the std
functions (trusted base), applied symbolically.
"""
from .pat import path_ends

OPT = "std::option::Option"
RES = "std::result::Result"
CF = "std::ops::ControlFlow"

TRUE = ("not", (0,))


def agg(path, *ops):
    return ("agg", "adt", path, tuple(ops))


def SOME(x):
    return agg(OPT + "::Some", x)


NONE = agg(OPT + "::None")


def OK(x):
    return agg(RES + "::Ok", x)


def ERR(x):
    return agg(RES + "::Err", x)


def const_bool(b):
    return ("const", "bool", "true" if b else "false", 1 if b else 0)


class Out:
    """one outcome of a modelled call: extra conditions, extra events, the value (or None when diverging), new known facts"""
    __slots__ = ("conds", "events", "value", "known", "end")

    def __init__(self, conds=(), events=(), value=None, known=None, end="return"):
        self.conds = list(conds)
        self.events = list(events)
        self.value = value
        self.known = dict(known or {})
        self.end = end


VARIANTS = {
    OPT: (("None", 0), ("Some", 1)),
    RES: (("Ok", 0), ("Err", 1)),
    CF: (("Continue", 0), ("Break", 1)),
    "polonius_the_crab::PoloniusResult": (("Borrowing", 0), ("Owned", 1)),
}


def _name_of(path):
    return path.rsplit("::", 1)[-1]


def split_enum(o, enum, known):
    """feasible variants of the enum value `o`: [(variant name, conds, known)]"""
    if o[0] == "agg" and o[1] == "adt" and o[2].rsplit("::", 1)[0] == enum:
        return [(_name_of(o[2]), [], {})]
    d = ("discr", o)
    kv = known.get(d)
    out = []
    for name, val in VARIANTS[enum]:
        if kv is not None:
            if kv[0] == "eq" and kv[1] != val:
                continue
            if kv[0] == "ne" and val in kv[1]:
                continue
            if kv[0] == "eq":
                out.append((name, [], {}))
                continue
        out.append((name, [(d, val)], {d: ("eq", val)}))
    return out


def payload(o, variant, idx=0):
    if o[0] == "agg" and o[1] == "adt" and _name_of(o[2]) == variant and idx < len(o[3]):
        return o[3][idx]
    return ("field", o, idx, variant)


def split_bool(b, known):
    if b[0] == "const" and isinstance(b[3], int):
        return [(bool(b[3]), [], {})]
    kv = known.get(b)
    if kv is not None:
        if kv[0] == "eq":
            return [(kv[1] != 0, [], {})]
        if kv[0] == "ne" and 0 in kv[1]:
            return [(True, [], {})]
    return [(False, [(b, 0)], {b: ("eq", 0)}), (True, [(b, TRUE)], {b: ("ne", frozenset({0}))})]


def _split_generic_args(s):
    """top-level comma split of a generic argument list string"""
    out, depth, cur = [], 0, ""
    prev = ""
    for ch in s:
        if ch in "<([":
            depth += 1
        elif ch == ">" and prev == "-":
            pass
        elif ch in ">)]":
            depth -= 1
        prev = ch
        if ch == "," and depth == 0:
            out.append(cur.strip())
            cur = ""
        else:
            cur += ch
    if cur.strip():
        out.append(cur.strip())
    return out


def _as_parts(full):
    """('<A as Tr<B>>::m') -> (A, 'Tr', [B...]) or None"""
    if not full or not full.startswith("<"):
        return None
    depth = 0
    for i, ch in enumerate(full):
        if ch == "<":
            depth += 1
        elif ch == ">" and i > 0 and full[i - 1] == "-":
            continue
        elif ch == ">":
            depth -= 1
            if depth == 0:
                inner = full[1:i]
                break
    else:
        return None
    if " as " not in inner:
        return None
    # split at the top-level " as "
    depth = 0
    k = None
    j = 0
    while j < len(inner):
        ch = inner[j]
        if ch in "<([":
            depth += 1
        elif ch == ">" and j > 0 and inner[j - 1] == "-":
            pass
        elif ch in ">)]":
            depth -= 1
        elif depth == 0 and inner.startswith(" as ", j):
            k = j
            break
        j += 1
    if k is None:
        return None
    a, tr = inner[:k], inner[k + 4:]
    if "<" in tr:
        name, rest = tr.split("<", 1)
        args = _split_generic_args(rest[:-1])
    else:
        name, args = tr, []
    return a.strip(), name.strip(), args


def identity_conversion(full):
    """`<T as Into<T>>::into` / `<T as From<T>>::from`"""
    p = _as_parts(full)
    if not p:
        return False
    a, tr, args = p
    return tr.rsplit("::", 1)[-1] in ("Into", "From") and len(args) == 1 and args[0] == a


def residual_identity(full):
    """`<Result<T, F> as FromResidual<Result<Infallible, E>>>::from_residual` with F == E"""
    p = _as_parts(full)
    if not p:
        return False
    a, tr, args = p
    if not a.startswith("std::result::Result<") or len(args) != 1 or not args[0].startswith("std::result::Result<"):
        return False
    fa = _split_generic_args(a[len("std::result::Result<"):-1])
    ra = _split_generic_args(args[0][len("std::result::Result<"):-1])
    return len(fa) == 2 and len(ra) == 2 and fa[1] == ra[1]


def slice_base(e):
    """the collection behind a slice expression: `&v[..]`, `v.as_slice()`, auto-deref of a Vec all denote v's elements"""
    while isinstance(e, tuple):
        if e[0] in ("ref", "deref"):
            e = e[1]
        elif e[0] == "call" and len(e[3]) == 1 and e[1] in ("std::ops::Deref::deref", "std::ops::DerefMut::deref_mut", "std::vec::Vec::<T, A>::as_slice", "std::vec::Vec::<T, A>::as_mut_slice"):
            e = e[3][0]
        else:
            break
    return e


def len_base(e):
    """the collection whose length `e` is (`v.len()` of a Vec or slice, or a slice-length term), else None"""
    while isinstance(e, tuple) and e[0] in ("ref", "deref"):
        e = e[1]
    if isinstance(e, tuple) and e[0] == "len":
        return slice_base(e[1])
    if isinstance(e, tuple) and e[0] == "call" and len(e[3]) == 1 and e[1] in ("std::vec::Vec::<T, A>::len", "core::slice::<impl [T]>::len"):
        return slice_base(e[3][0])
    return None


def ordering_const(e):
    """-1/0/1 for a constant std::cmp::Ordering value (a unit-variant aggregate or a promoted constant), else None"""
    if e[0] == "agg" and e[1] == "adt" and e[2].startswith("std::cmp::Ordering::"):
        return {"Less": -1, "Equal": 0, "Greater": 1}.get(e[2].rsplit("::", 1)[-1])
    if e[0] == "const" and "Ordering" in str(e[1]):
        for nm, v in (("Less", -1), ("Equal", 0), ("Greater", 1)):
            if str(e[2]).endswith(nm) or str(e[2]).endswith(nm + "}"):
                return v
    return None


def residual_conversion(full):
    """`<Result<T, F> as FromResidual<Result<Infallible, E>>>::from_residual` applies `<F as From<E>>::from` to the error"""
    p = _as_parts(full)
    if not p:
        return None
    a, tr, args = p
    if not a.startswith("std::result::Result<") or len(args) != 1 or not args[0].startswith("std::result::Result<"):
        return None
    fa = _split_generic_args(a[len("std::result::Result<"):-1])
    ra = _split_generic_args(args[0][len("std::result::Result<"):-1])
    if len(fa) != 2 or len(ra) != 2:
        return None
    return "<%s as std::convert::From<%s>>::from" % (fa[1], ra[1])


def from_impl_of(F, full):
    if True:
        """the workspace `impl From<A> for B` behind `<A as Into<B>>::into` / `<B as From<A>>::from`, if there is exactly one"""
        p = _as_parts(full or "")
        if F is None or not p:
            return None
        a, tr, args = p
        t = tr.rsplit("::", 1)[-1]
        if t == "Into" and len(args) == 1:
            src, dst = a, args[0]
        elif t == "From" and len(args) == 1:
            src, dst = args[0], a
        else:
            return None
        head = lambda t: t.strip().lstrip("&").strip().split("<", 1)[0]
        want = (head(dst), head(src))
        idx = getattr(F, "_from_index", None)
        if idx is None:
            idx = {}
            for fid, g in F.fns.items():
                if fid.endswith(">::from") and " as std::convert::From<" in fid and not g.is_closure:
                    q = _as_parts(fid)
                    if q and len(q[2]) == 1:
                        idx.setdefault((head(q[0]), head(q[2][0])), []).append(fid)
            F._from_index = idx
        if not want[0] or not want[1] or want[0][:1].isupper() or want[1][:1].isupper():
            return None          # a bare type parameter on either side: no particular impl
        c = [x for x in (idx.get(want) or []) if x not in getattr(F, "noinline", ())]
        return c[0] if len(c) == 1 else None


class Models:
    """call models; `w` is the walker (for closure inlining), every model returns a list of Out or None"""

    def __init__(self, walker):
        self.w = walker

    # -- applying a function value ----------------------------------------------------------------
    def apply(self, f, args, site, known):
        """outcomes of calling the function value `f` with `args` (a tuple of expressions)"""
        from .sym import strip_refs, subst_path
        g = strip_refs(f)
        F = self.w.facts
        if g[0] == "agg" and g[1] == "closure" and F is not None and g[2] in F.fns and g[2] != self.w.fn.id:
            cf = F.fns[g[2]]
            qs = F.inline_paths(cf.id, self.w.depth, canon=True, inline_all=getattr(self.w, 'inline_all', False))
            if qs is not None:
                mapping = {}
                for i, cap in enumerate(cf.captures):
                    if i < len(g[3]):
                        mapping[("upvar", cap["var"], i)] = g[3][i]
                for i, a in enumerate(args):
                    mapping[("param", i + 2)] = a
                outs = []
                from .sym import expand_deferred
                for q2 in [x for q in qs for x in expand_deferred(subst_path(q, mapping, site[1], site=site), F, True, getattr(self.w, 'inline_all', False), self.w.depth)]:
                    q2 = simplify_path(q2, known, F.adts)
                    if q2 is None:
                        continue
                    kn = {}
                    for c in q2.conds:
                        kn.update(known_of(c))
                    outs.append(Out([(c[0], c[1]) for c in q2.conds], [("inlined", cf.id, tuple(args), site[1])] + q2.events,
                                    q2.ret if q2.end == "return" else None, kn, q2.end))
                return outs
        if g[0] == "fnitem":
            fid = g[3] or g[1]
            if getattr(self.w, "inline_all", False) and F is not None and fid in F.fns and fid != self.w.fn.id and not F.fns[fid].is_closure and fid not in getattr(F, "noinline", ()):
                qs = F.inline_paths(fid, self.w.depth, canon=True, inline_all=True)
                if qs is not None:
                    mapping = {("param", i + 1): x for i, x in enumerate(args)}
                    outs = []
                    # what the body's generic parameter names stand for where this function item was named
                    gmap = None
                    names = F.fns[fid].j.get("generics")
                    ta = g[4] if len(g) > 4 else None
                    if names is not None and ta is not None and len(names) == len(ta) and all(isinstance(x, str) for x in ta):
                        gmap = {n: x for n, x in zip(names, ta) if n != x}
                    from .sym import expand_deferred, subst_generics_path
                    for q2 in [x for q in qs for x in expand_deferred(subst_path(subst_generics_path(q, gmap) if gmap else q, mapping, site[1], site=site), F, True, True, self.w.depth)]:
                        q2 = simplify_path(q2, known, F.adts)
                        if q2 is None:
                            continue
                        kn = {}
                        for c in q2.conds:
                            kn.update(known_of(c))
                        from .canonsum import concrete_instantiation
                        outs.append(Out([(c[0], c[1]) for c in q2.conds], [("inlined", fid, tuple(args), site[1], None if gmap is not None else concrete_instantiation(g[2], fid))] + q2.events,
                                        q2.ret if q2.end == "return" else None, kn, q2.end))
                    return outs
            ce = ("call", g[1], g[2], tuple(args), site)
            m = self.model(g[1], g[2], tuple(args), ce, site, known)
            if m is not None:
                return m
            return [Out([], [("call", ce)], ce)]
        ce = ("call", "std::ops::FnOnce::call_once", "FnOnce::call_once", (f, ("agg", "tuple", "tuple", tuple(args))), site)
        return [Out([], [("call", ce)], ce)]

    def _inlinable(self, fid):
        return self.w.facts.inline_paths(fid, self.w.depth, canon=True, inline_all=True) is not None

    def _then(self, first_conds, first_known, outs, wrap):
        res = []
        for o in outs:
            kn = dict(first_known)
            kn.update(o.known)
            res.append(Out(list(first_conds) + o.conds, o.events, wrap(o.value) if (o.value is not None and o.end == "return") else None, kn, o.end))
        return res

    # -- the table -----------------------------------------------------------------------------------
    def ctor(self, path, a):
        """`Variant(x)` / `TupleStruct(x)` used as a function (e.g. map_err(SelectionError::Selector)) is the aggregate"""
        F = self.w.facts
        if F is None or "::" not in path:
            return None
        head, last = path.rsplit("::", 1)
        for adt_path, std in ((head, False),):
            adt = F.adts.get(adt_path)
            if adt is not None:
                for v in adt["variants"]:
                    if v["name"] == last and len(v["fields"]) == len(a):
                        return agg(adt_path + "::" + last, *a)
        if head in VARIANTS and any(nm == last for nm, _ in VARIANTS[head]) and len(a) == 1:
            return agg(head + "::" + last, *a)
        st = F.adts.get(path)
        if st is not None and st.get("kind") == "struct" and len(st.get("variants", ())) == 1 and len(st["variants"][0]["fields"]) == len(a) and \
                all(str(fl.get("name", "")).isdigit() for fl in st["variants"][0]["fields"]):
            return agg(path + "::" + last, *a)          # a tuple struct's name used as a function: `.map(Wrapper)`
        return None

    def from_impl(self, full):
        return from_impl_of(self.w.facts, full)



    def model(self, path, full, a, ce, site, known):
        n = path.rsplit("::", 1)[-1]
        c = self.ctor(path, a)
        if c is not None:
            return [Out([], [], c)]
        is_opt = path.startswith("std::option::Option::<") or path.startswith("core::option::Option::<")
        is_res = path.startswith("std::result::Result::<") or path.startswith("core::result::Result::<")
        if is_opt:
            return self.option(n, a, site, known)
        if is_res:
            return self.result(n, a, site, known)
        if path in ("std::ops::Try::branch", "core::ops::Try::branch", "core::ops::try_trait::Try::branch") and len(a) == 1:
            f = full or ""
            if f.startswith("<std::result::Result<"):
                outs = []
                for v, c, k in split_enum(a[0], RES, known):
                    if v == "Ok":
                        outs.append(Out(c, [], agg(CF + "::Continue", payload(a[0], "Ok")), k))
                    else:
                        outs.append(Out(c, [], agg(CF + "::Break", ERR(payload(a[0], "Err"))), k))
                return outs
            if f.startswith("<std::option::Option<"):
                outs = []
                for v, c, k in split_enum(a[0], OPT, known):
                    if v == "Some":
                        outs.append(Out(c, [], agg(CF + "::Continue", payload(a[0], "Some")), k))
                    else:
                        outs.append(Out(c, [], agg(CF + "::Break", NONE), k))
                return outs
            return None
        if path in ("std::ops::FromResidual::from_residual", "core::ops::FromResidual::from_residual", "core::ops::try_trait::FromResidual::from_residual") and len(a) == 1:
            r = a[0]
            if r[0] == "agg" and r[1] == "adt" and r[2] == RES + "::Err":
                e = r[3][0]
                if residual_identity(full or ""):
                    return [Out([], [], ERR(e))]
                cfull = residual_conversion(full or "") or "From::from"
                if getattr(self.w, "inline_all", False):
                    fid = self.from_impl(cfull)
                    if fid is not None and fid != self.w.fn.id and self._inlinable(fid):
                        return self._then([], {}, self.apply(("fnitem", fid, fid, fid), (e,), site, known), ERR)
                conv = ("call", "std::convert::From::from", cfull, (e,), site)
                return [Out([], [("call", conv)], ERR(conv))]
            if r[0] == "agg" and r[1] == "adt" and r[2] == OPT + "::None":
                return [Out([], [], NONE)]
            return None
        std_conv = path in ("std::convert::Into::into", "std::convert::From::from", "core::convert::Into::into", "core::convert::From::from")
        if std_conv and len(a) == 1 and identity_conversion(full or ""):
            return [Out([], [], a[0])]
        if std_conv and len(a) == 1 and getattr(self.w, "inline_all", False):
            fid = self.from_impl(full)
            if fid is not None and fid != self.w.fn.id:
                return self.apply(("fnitem", fid, fid, fid), (a[0],), site, known) if self._inlinable(fid) else None
        # ---- polonius-the-crab 0.4 (src/try.rs): Try::branch(r) = r.map_err(|e| Err(e.into())), Residual::with_output(res) = res? ----
        if path == "polonius_the_crab::ඞ::Try::branch" and len(a) == 1 and (full or "").startswith("<std::result::Result<"):
            pp = _as_parts(full or "")
            ident = False
            if pp and len(pp[2]) == 1 and pp[2][0].startswith("std::result::Result<"):
                fa = _split_generic_args(pp[0][len("std::result::Result<"):-1])
                ra = _split_generic_args(pp[2][0][len("std::result::Result<"):-1])
                ident = len(fa) == 2 and len(ra) == 2 and fa[1] == ra[1]
            outs = []
            for v, c, k in split_enum(a[0], RES, known):
                if v == "Ok":
                    outs.append(Out(c, [], OK(payload(a[0], "Ok")), k))
                else:
                    e = payload(a[0], "Err")
                    if not ident:
                        e = ("call", "std::convert::Into::into", "Into::into", (e,), site)
                    outs.append(Out(c, [] if ident else [("call", e)], ERR(ERR(e)), k))
            return outs
        if path == "polonius_the_crab::ඞ::Residual::with_output" and len(a) == 1:
            r = a[0]
            if r[0] == "agg" and r[1] == "adt" and r[2] == RES + "::Err":
                return [Out([], [], ERR(r[3][0]))]
            if r[0] == "agg" and r[1] == "adt" and r[2] == OPT + "::None":
                return [Out([], [], NONE)]
        # ---- polonius_the_crab::polonius(input, branch): the branch closure is called once with the reborrowed input; its
        # Borrowing(x) is the result, its Owned(value) becomes Owned { value, input_borrow: input } (src/lib.rs of 0.4) ----
        if path == "polonius_the_crab::polonius" and len(a) == 2 and getattr(self.w, "inline_all", False):
            from .sym import strip_refs
            clo = strip_refs(a[1])
            if clo[0] == "agg" and clo[1] == "closure":
                outs = []
                for o in self.apply(a[1], (a[0],), site, known):
                    v = strip_refs(o.value) if o.value is not None else None
                    if o.end != "return" or v is None:
                        outs.append(o)
                    elif v[0] == "call" and v[1] and v[1].startswith("polonius_the_crab::PoloniusResult::<") and v[1].endswith(">::Owned") and len(v[3]) == 1:
                        evs = [e for e in o.events if not (e[0] == "call" and e[1] == v)]
                        outs.append(Out(o.conds, evs, agg("polonius_the_crab::PoloniusResult::Owned", v[3][0], a[0]), o.known, o.end))
                    elif v[0] == "agg" and v[1] == "adt" and v[2] == "polonius_the_crab::PoloniusResult::Borrowing":
                        outs.append(o)
                    else:
                        return None
                return outs
        # ---- unsigned checked_sub: None exactly when a < b, else Some(a - b) ----
        if path.startswith("core::num::<impl u") and n == "checked_sub" and len(a) == 2:
            lt = ("binop", "Lt", a[0], a[1])
            return [Out(c, [], NONE if v else SOME(("binop", "Sub", a[0], a[1])), k) for v, c, k in split_bool(lt, known)]
        # ---- slices: the accessors are defined by the length of the slice (the same conditions a slice pattern tests) ----
        if path.startswith("core::slice::<impl [T]>::") and a:
            sl = slice_base(a[0])
            LEN = ("len", sl)
            def ge(k):
                return ("binop", "Ge", LEN, ("const", "usize", "%d_usize" % k, k))
            if n == "split_first" and len(a) == 1:
                outs = []
                for v, c, k in split_bool(ge(1), known):
                    outs.append(Out(c, [], SOME(("agg", "tuple", "tuple", (("ref", ("index", deref(sl), ("const", "usize", "0", 0)), False),
                                                                           ("ref", ("subslice", deref(sl), 1, 0, True), False)))) if v else NONE, k))
                return outs
            if n == "first" and len(a) == 1:
                return [Out(c, [], SOME(("ref", ("index", deref(sl), ("const", "usize", "0", 0)), False)) if v else NONE, k) for v, c, k in split_bool(ge(1), known)]
            if n == "last" and len(a) == 1:
                return [Out(c, [], SOME(("ref", ("index", deref(sl), ("const", "usize", "-1", -1)), False)) if v else NONE, k) for v, c, k in split_bool(ge(1), known)]
            if n == "is_empty" and len(a) == 1:
                return [Out([], [], ("binop", "Eq", LEN, ("const", "usize", "0_usize", 0)))]
            if n == "get" and len(a) == 2 and "::get::<usize>" in (full or ""):
                ix = a[1]
                if ix[0] == "binop" and ix[1] == "Sub" and len_base(ix[2]) == sl and ix[3][0] == "const" and isinstance(ix[3][3], int) and ix[3][3] >= 1 and \
                        known.get(("binop", "Lt", ix[2], ix[3])) == ("eq", 0):
                    # v.get(v.len() - k) where v.len() >= k is established: the k-th element from the end
                    return [Out([], [], SOME(("ref", ("index", deref(sl), ("const", "usize", "-%d" % ix[3][3], -ix[3][3])), False)))]
                lt = ("binop", "Lt", a[1], LEN)
                return [Out(c, [], SOME(("ref", ("index", deref(sl), a[1]), False)) if v else NONE, k) for v, c, k in split_bool(lt, known)]
        # ---- comparing an Ordering with a constant Ordering is a test of its discriminant ----
        if path in ("std::cmp::PartialEq::eq", "std::cmp::PartialEq::ne", "core::cmp::PartialEq::eq", "core::cmp::PartialEq::ne") and len(a) == 2 and "std::cmp::Ordering as" in (full or ""):
            x, y = deref(a[0]) if a[0][0] == "ref" else a[0], deref(a[1]) if a[1][0] == "ref" else a[1]
            for u, w in ((x, y), (y, x)):
                cv = ordering_const(w)
                if cv is not None:
                    return [Out([], [], ("binop", "Eq" if n == "eq" else "Ne", ("discr", u), ("const", "isize", str(cv), cv)))]
        if path == "core::bool::<impl bool>::then_some" or path_ends(path, "bool::then_some"):
            outs = []
            for v, c, k in split_bool(a[0], known):
                outs.append(Out(c, [], SOME(a[1]) if v else NONE, k))
            return outs
        if path == "core::bool::<impl bool>::then" or path_ends(path, "bool::then"):
            outs = []
            for v, c, k in split_bool(a[0], known):
                if v:
                    outs += self._then(c, k, self.apply(a[1], (), site, known), SOME)
                else:
                    outs.append(Out(c, [], NONE, k))
            return outs
        return None

    def option(self, n, a, site, known):
        o = a[0] if a else None
        if o is None:
            return None
        sp = lambda: split_enum(o, OPT, known)
        P = lambda: payload(o, "Some")
        outs = []
        if n == "ok_or" and len(a) == 2:
            for v, c, k in sp():
                outs.append(Out(c, [], OK(P()) if v == "Some" else ERR(a[1]), k))
        elif n == "ok_or_else" and len(a) == 2:
            for v, c, k in sp():
                if v == "Some":
                    outs.append(Out(c, [], OK(P()), k))
                else:
                    outs += self._then(c, k, self.apply(a[1], (), site, known), ERR)
        elif n == "map" and len(a) == 2:
            for v, c, k in sp():
                if v == "Some":
                    outs += self._then(c, k, self.apply(a[1], (P(),), site, known), SOME)
                else:
                    outs.append(Out(c, [], NONE, k))
        elif n == "and_then" and len(a) == 2:
            for v, c, k in sp():
                if v == "Some":
                    outs += self._then(c, k, self.apply(a[1], (P(),), site, known), lambda x: x)
                else:
                    outs.append(Out(c, [], NONE, k))
        elif n == "or" and len(a) == 2:
            for v, c, k in sp():
                outs.append(Out(c, [], SOME(P()) if v == "Some" else a[1], k))
        elif n == "unwrap_or" and len(a) == 2:
            for v, c, k in sp():
                outs.append(Out(c, [], P() if v == "Some" else a[1], k))
        elif n == "unwrap_or_else" and len(a) == 2:
            for v, c, k in sp():
                if v == "Some":
                    outs.append(Out(c, [], P(), k))
                else:
                    outs += self._then(c, k, self.apply(a[1], (), site, known), lambda x: x)
        elif n in ("is_some", "is_none") and len(a) == 1:
            for v, c, k in sp():
                outs.append(Out(c, [], const_bool((v == "Some") == (n == "is_some")), k))
        elif n in ("is_none_or", "is_some_and") and len(a) == 2:
            for v, c, k in sp():
                if v == "Some":
                    outs += self._then(c, k, self.apply(a[1], (P(),), site, known), lambda x: x)
                else:
                    outs.append(Out(c, [], const_bool(n == "is_none_or"), k))
        elif n == "copied" and len(a) == 1:
            for v, c, k in sp():
                outs.append(Out(c, [], SOME(deref(P())) if v == "Some" else NONE, k))
        elif n == "cloned" and len(a) == 1:
            for v, c, k in sp():
                if v == "Some":
                    ce = ("call", "std::clone::Clone::clone", "<_ as std::clone::Clone>::clone", (P(),), site)
                    outs.append(Out(c, [("call", ce)], SOME(ce), k))
                else:
                    outs.append(Out(c, [], NONE, k))
        elif n == "as_ref" and len(a) == 1:
            for v, c, k in split_enum(deref(o), OPT, known):
                outs.append(Out(c, [], SOME(("ref", payload(deref(o), "Some"), False)) if v == "Some" else NONE, k))
        elif n == "zip" and len(a) == 2:
            for v, c, k in sp():
                if v == "None":
                    outs.append(Out(c, [], NONE, k))
                    continue
                kn = dict(known)
                kn.update(k)
                for v2, c2, k2 in split_enum(a[1], OPT, kn):
                    kk = dict(k)
                    kk.update(k2)
                    outs.append(Out(c + c2, [], SOME(("agg", "tuple", "tuple", (P(), payload(a[1], "Some")))) if v2 == "Some" else NONE, kk))
        else:
            return None
        return outs

    def result(self, n, a, site, known):
        r = a[0] if a else None
        if r is None:
            return None
        sp = lambda: split_enum(r, RES, known)
        PO = lambda: payload(r, "Ok")
        PE = lambda: payload(r, "Err")
        outs = []
        if n == "map_err" and len(a) == 2:
            for v, c, k in sp():
                if v == "Ok":
                    outs.append(Out(c, [], OK(PO()), k))
                else:
                    outs += self._then(c, k, self.apply(a[1], (PE(),), site, known), ERR)
        elif n == "map" and len(a) == 2:
            for v, c, k in sp():
                if v == "Ok":
                    outs += self._then(c, k, self.apply(a[1], (PO(),), site, known), OK)
                else:
                    outs.append(Out(c, [], ERR(PE()), k))
        elif n == "and_then" and len(a) == 2:
            for v, c, k in sp():
                if v == "Ok":
                    outs += self._then(c, k, self.apply(a[1], (PO(),), site, known), lambda x: x)
                else:
                    outs.append(Out(c, [], ERR(PE()), k))
        elif n == "or_else" and len(a) == 2:
            for v, c, k in sp():
                if v == "Ok":
                    outs.append(Out(c, [], OK(PO()), k))
                else:
                    outs += self._then(c, k, self.apply(a[1], (PE(),), site, known), lambda x: x)
        elif n == "unwrap_or_else" and len(a) == 2:
            for v, c, k in sp():
                if v == "Ok":
                    outs.append(Out(c, [], PO(), k))
                else:
                    outs += self._then(c, k, self.apply(a[1], (PE(),), site, known), lambda x: x)
        elif n == "unwrap_or" and len(a) == 2:
            for v, c, k in sp():
                outs.append(Out(c, [], PO() if v == "Ok" else a[1], k))
        elif n == "ok" and len(a) == 1:
            for v, c, k in sp():
                outs.append(Out(c, [], SOME(PO()) if v == "Ok" else NONE, k))
        elif n == "err" and len(a) == 1:
            for v, c, k in sp():
                outs.append(Out(c, [], SOME(PE()) if v == "Err" else NONE, k))
        elif n in ("is_ok", "is_err") and len(a) == 1:
            for v, c, k in sp():
                outs.append(Out(c, [], const_bool((v == "Ok") == (n == "is_ok")), k))
        elif n == "copied" and len(a) == 1:
            for v, c, k in sp():
                outs.append(Out(c, [], OK(deref(PO())) if v == "Ok" else ERR(PE()), k))
        elif n == "or" and len(a) == 2:
            for v, c, k in sp():
                outs.append(Out(c, [], OK(PO()) if v == "Ok" else a[1], k))
        elif n == "and" and len(a) == 2:
            for v, c, k in sp():
                outs.append(Out(c, [], a[1] if v == "Ok" else ERR(PE()), k))
        elif n == "as_ref" and len(a) == 1:
            ro = deref(r)
            for v, c, k in split_enum(ro, RES, known):
                outs.append(Out(c, [], OK(("ref", payload(ro, "Ok"), False)) if v == "Ok" else ERR(("ref", payload(ro, "Err"), False)), k))
        else:
            return None
        return outs


def deref(e):
    if e[0] == "ref":
        return e[1]
    return ("deref", e)


def known_of(c):
    d, v = c[0], c[1]
    if isinstance(v, tuple) and v and v[0] == "not":
        return {d: ("ne", frozenset(v[1]))}
    return {d: ("eq", v)}


def simplify_path(p, known, adts=None):
    """after substitution: drop a path whose conditions contradict aggregates built by the caller or facts already
    known; remove conditions that are decided"""
    from .sym import Path
    conds = []
    kn = dict(known)
    for c in p.conds:
        d, v = c[0], c[1]
        val = None
        if d[0] == "discr" and d[1][0] == "agg" and d[1][1] == "adt":
            enum, vname = d[1][2].rsplit("::", 1)
            for nm, dv in VARIANTS.get(enum, ()):
                if nm == vname:
                    val = dv
            if val is None and adts and enum in adts:           # a workspace enum built by the caller
                for vv in adts[enum].get("variants", ()):
                    if vv.get("name") == vname and isinstance(vv.get("discr"), int):
                        val = vv["discr"]
        elif d[0] == "const" and isinstance(d[3], int):
            val = d[3]
        if val is None and d in kn:
            k = kn[d]
            if k[0] == "eq":
                val = k[1]
            elif isinstance(v, tuple) and v and v[0] == "not":
                pass
            elif k[0] == "ne" and v in k[1]:
                return None
        if val is not None:
            if isinstance(v, tuple) and v and v[0] == "not":
                if val in v[1]:
                    return None
            elif v != val:
                return None
            continue
        conds.append(c)
        kn.update(known_of(c))
    return Path(conds, p.events, p.ret, p.end, p.blocks)
