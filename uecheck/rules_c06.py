"""C06 - Selectors return a member of the given population or a documented error."""
from .pat import ANY, Bind, Call, Param, Field, Through, BinOp, Const, match, find, callee_is, path_ends
from .sym import short, subexprs
from .common import (TryOk, is_err_return, return_paths, ctor_names, peel, self_field, mentions, cond_str,
                     audit_panics, check_forwarder, derives_from_self, rng_passthrough, CallGraph, fn_uses)
from . import rules_c07

META = {
    "level": "other",
    "explanation": (
        "Static rule conformance over all 37 Selector::select bodies and Select::apply (MIR, resolved callees). Decided: "
        "(R06.1) every non-error return of a concrete selector is data-derived from the `population` argument and every "
        "element pushed into Lexicase's working vectors derives from it; delegating selectors (&S, Weighted, WeightedPair, "
        "DynWeighted, the 28 type-erased pointer impls, Select) forward population and rng unchanged to exactly one inner "
        "select; no leak/transmute/static/unsafe escape hatch exists in ec_core (with the rustc-enforced signature "
        "Result<&'pop P::Individual, _> this leaves only elements of the given population). (R06.2) each documented guard "
        "precedes sampling/delegation and maps to the documented error. (R06.3) panic-site audit over the call-graph closure "
        "of all selectors: every may-panic site is listed with a verified discharge guard. (R06.4) the error constructors each "
        "selector can build are within its documented set. NOT decided: that rand's choose/choose_multiple/choose_weighted "
        "return elements of the slice they are given (rand contract)."),
    "rules": {
        "R06.1": "Ok results derive from the population parameter; delegating selectors are single forwarders; no escape hatches (Box::leak, transmute, from_raw_parts, statics, unsafe) in ec_core",
        "R06.2": "guards: Weighted weight==0 -> ZeroWeight before delegation; WeightedPair distr==None -> ZeroWeight; Lexicase slice accesses (split_first/get/first) only flow into ok_or(<documented error>); Best/Worst/Random end in ok_or(EmptyPopulation); Tournament size guard (shared with C07)",
        "R06.3": "panic-site audit (A8) over the call-graph closure of every Selector::select impl and Select::apply",
        "R06.4": "error constructor sets per selector are subsets of the documented sets",
    },
    "trusted_base": ["rustc type/borrow checker (lifetime 'pop on the result)", "rand 0.9 choose/choose_multiple/choose_weighted/shuffle return/permute elements of the given slice",
                     "std Iterator::max/min/collect, slice::first/get/split_first", "uecfacts driver + uecheck rule engine"],
    "assumptions": ["user-supplied inner selectors (generic parameters, boxed dyn selectors) themselves satisfy the property"],
    "not_decided": ["rand's sampling functions returning members of the slice"],
}

T_SELECT = "ec_core::operator::selector::Selector::select"
SEL = "<ec_core::operator::selector::%s as ec_core::operator::selector::Selector<P>>::select"
POP = ("param", 2)
RNG = ("param", 3)

CONCRETE = {
    "best::Best": {"errors": {"EmptyPopulation"}},
    "worst::Worst": {"errors": {"EmptyPopulation"}},
    "random::Random": {"errors": {"EmptyPopulation"}},
    "tournament::Tournament": {"errors": {"TournamentSizeError"}},
    "lexicase::Lexicase": {"errors": {"EmptyPopulation", "MissingTestCase"}},
}

ESCAPES = ("Box::leak", "mem::transmute", "mem::transmute_copy", "slice::from_raw_parts", "slice::from_raw_parts_mut",
           "Vec::leak", "String::leak", "ptr::read", "mem::zeroed", "MaybeUninit::assume_init")


def err_adts(e):
    out = set()
    for n in ctor_names(e):
        seg = n.split("::")
        out.add(seg[-1])
    return out


def check_weighted_select(ctx, R1="R06.1", R2="R06.2"):
    """Weighted<T>::select: a member of weight zero is never used (ZeroWeight error instead), otherwise exactly one
    delegation to the item with (population, rng) and its selection returned; shared with C13 (R13.3)"""
    # Weighted<T>
    f = ctx.fn("<ec_core::weighted::Weighted<T> as ec_core::operator::selector::Selector<P>>::select")
    paths = return_paths(ctx.paths(f))
    for p in paths:
        zero = [c for c in p.conds if match(c[0], BinOp("Eq", lambda e: self_field(e, "weight"), Const(0), commutative=True))]
        ne0 = [c for c in p.conds if match(c[0], BinOp("Ne", lambda e: self_field(e, "weight"), Const(0), commutative=True))]
        is_zero_branch = (zero and zero[0][1] != 0) or (ne0 and ne0[0][1] == 0)
        guarded = bool(zero or ne0)
        if is_err_return(p) and not any(callee_is(c, "Selector::select") for c in p.calls()):
            ctx.check(guarded and is_zero_branch and "ZeroWeight" in err_adts(p.ret), R2, "Weighted/zero-weight-error",
                      cond_str(p) + " -> " + short(p.ret, 5), f.at())
        else:
            sel = [c for c in p.calls() if callee_is(c, "Selector::select")]
            ok = guarded and not is_zero_branch and len(sel) == 1 and derives_from_self(sel[0][3][0], field="item") \
                and sel[0][3][1] == POP and sel[0][3][2] == RNG
            ctx.check(ok, R2, "Weighted/delegates-only-when-weight-nonzero", cond_str(p) + " -> " + short(p.ret, 5), f.at(),
                      bad_detail="delegation is not guarded by weight != 0 or does not forward (population, rng): conds [%s], ret %s" % (cond_str(p), short(p.ret, 6)))
            r = peel(p.ret, ("Result::map_err",), casts=False)
            ctx.check(sel and r == sel[0], R1, "Weighted/returns-inner-selection", short(p.ret, 5), f.at())
    ctx.floor(R2, len(paths), 2, "Weighted::select paths")


def check(ctx):
    from .common import shadowing_audit
    ctx.floor('R06.1', shadowing_audit(ctx, 'R06.1', ('ec_core::operator::selector::',)), 4, 'Selector impls of workspace types (shadowing audit)')
    from .ctors import check_table
    check_table(ctx, "C06", "R06.4")
    F = ctx.F
    sel_fns = ctx.trait_impl_fns(T_SELECT)
    ctx.floor("R06", len(sel_fns), 37, "Selector::select impls")

    # ---- R06.1 provenance for concrete selectors ----------------------
    for name, spec in CONCRETE.items():
        fn = ctx.fn(SEL % name)
        paths = ctx.paths(fn)
        rets = return_paths(paths)
        okp = [p for p in rets if not is_err_return(p)]
        short_name = name.split("::")[-1]
        ctx.check(len(okp) >= 1, "R06.1", short_name + "/has-ok-path", "%d non-error return paths" % len(okp), fn.at())
        for i, p in enumerate(okp):
            ctx.check(mentions(p.ret, POP), "R06.1", "%s/result-from-population/%d" % (short_name, i),
                      short(p.ret, 8), fn.at(),
                      bad_detail="returned value does not derive from the population argument: " + short(p.ret, 10))
        # everything pushed into a working Vec must come from the population
        pushes = []
        for p in paths:
            for c in p.calls():
                if callee_is(c, "Vec::push", "Vec::insert", "Vec::extend", "Extend::extend"):
                    pushes.append(c)
        seen = set()
        for c in pushes:
            if c[4] in seen:
                continue
            seen.add(c[4])
            val = c[3][-1]
            ctx.check(mentions(val, POP), "R06.1", "%s/pushed-from-population/bb%d" % (short_name, c[4][1]),
                      "pushed " + short(val, 5), fn.at(),
                      bad_detail="a value that does not derive from the population is stored in a working vector: " + short(val, 8))
        # R06.4 error constructors
        errs = set()
        for p in rets:
            if is_err_return(p):
                errs |= err_adts(p.ret)
            else:
                # constructors inside ok_or(..)/ok_or_else on the success expression
                for x in subexprs(p.ret):
                    if callee_is(x, "Option::ok_or") and len(x[3]) == 2:
                        errs |= err_adts(x[3][1])
        errs -= {"Err", "Ok", "Some", "None", "Range", "from", "into"}
        errs = {e for e in errs if e[:1].isupper()}
        extra = errs - spec["errors"] - {"LexicaseError"}
        ctx.check(not extra, "R06.4", short_name + "/error-set", "constructs %s" % sorted(errs), fn.at(),
                  bad_detail="constructs undocumented error(s) %s (documented: %s)" % (sorted(extra), sorted(spec["errors"])))

    # Best / Worst / Random: Ok(x) iff the reduction / choice is Some(x), Err(EmptyPopulation) iff it is None
    from . import ckit as K
    for name, inner in (("best::Best", "Iterator::max"), ("worst::Worst", "Iterator::min"), ("random::Random", "IndexedRandom::choose")):
        def legacy(c, name=name, inner=inner):
            fn = c.fn(SEL % name)
            for p in return_paths(c.paths(fn)):
                b = {}
                good = match(p.ret, Call("Option::ok_or", Call(inner, bind="inner"), lambda e: "EmptyPopulation" in err_adts(e)), b)
                c.check(good, "R06.2", name.split("::")[-1] + "/empty-guard", short(p.ret, 6), fn.at(),
                        bad_detail="expected ok_or(%s(..), EmptyPopulation), got %s" % (inner, short(p.ret, 8)))

        def canonical(c, name=name, inner=inner):
            fn = c.fn(SEL % name)
            paths = K.live(c.cpaths(fn))
            good = bool(paths) and all(p.end == "return" for p in paths)
            kinds = set()
            for p in paths:
                ic = K.calls_of(p, inner)
                kind, pay = K.outcome(p)
                kinds.add(kind)
                if len(ic) != 1:
                    good = False
                elif kind == "ok":
                    good = good and pay == ("field", ic[0], 0, "Some") and K.discr_is(p, lambda o: o == ic[0], 1)
                elif kind == "err":
                    good = good and "EmptyPopulation" in err_adts(K.conv_free(pay)) and K.discr_is(p, lambda o: o == ic[0], 0)
                else:
                    good = False
            c.check(good and kinds == {"ok", "err"}, "R06.2", name.split("::")[-1] + "/empty-guard", "Ok(x) iff %s(..) = Some(x); Err(EmptyPopulation) iff None" % inner, fn.at(),
                    bad_detail="expected Ok(x) iff %s(..) is Some(x) and Err(EmptyPopulation) iff it is None; canonical outcomes: %s" % (
                        inner, "; ".join("[%s] -> %s" % (cond_str(p), short(p.ret, 5) if p.ret else p.end) for p in paths)))
        K.either(ctx, legacy, canonical)
    fn = ctx.fn(SEL % "random::Random")
    for p in return_paths(ctx.paths(fn)):
        ch = [c for c in p.calls() if callee_is(c, "IndexedRandom::choose")]
        ok = len(ch) == 1 and match(ch[0][3][0], Through(Call("AsRef::as_ref", Through(Param(2))))) and ch[0][3][1] == RNG
        ctx.check(ok, "R06.1", "Random/choose-from-population", ", ".join(short(c, 4) for c in ch), fn.at())

    # Tournament guard: reuse C07's rules into this context
    rules_c07.check_tournament(ctx, "R06.2")

    # Lexicase: slice accesses flow only into ok_or(...)
    fn = ctx.fn(SEL % "lexicase::Lexicase")
    access_sites = {}
    consumers = {}
    for p in ctx.paths(fn):
        for c in p.calls():
            if callee_is(c, "[T]::split_first", "[T]::get", "[T]::first", "[T]::last", "[T]::get_mut", "Vec::pop", "[T]::split_last"):
                access_sites[c[4]] = c
        for c in p.calls():
            for a in c[3]:
                a2 = peel(a, ("Option::copied", "Option::cloned"), casts=False)
                if a2[0] == "call" and a2[4] in access_sites and a2 is not c:
                    if not callee_is(c, "Option::copied", "Option::cloned"):
                        consumers.setdefault(a2[4], set()).add((c[1], c[4]))
    ctx.floor("R06.2", len(access_sites), 2, "Lexicase slice accesses (get of the two compared results; split_first / first unless spelled as slice patterns)")
    def matched_to_error(c):
        """the access is consumed by a `match`: its None arm returns Err(<the documented error for this access>), never continues"""
        want = "MissingTestCase" if callee_is(c, "[T]::get") else "EmptyPopulation"
        seen_none = False
        for p in ctx.paths(fn):
            if c not in p.calls():
                continue
            d = [x for x in p.conds if x[0] == ("discr", c)]
            if not d:
                return False
            if d[0][1] == 0 or d[0][1] == ("not", (1,)):       # the None arm (a let-else tests `== Some`, the rest is None)
                seen_none = True
                if not (p.end == "return" and is_err_return(p) and want in err_adts(p.ret)):
                    return False
        return seen_none
    for site, c in sorted(access_sites.items()):
        cons = consumers.get(site, set())
        names = sorted({n for n, _ in cons})
        ok = bool(cons) and all(path_ends(n, "Option::ok_or") or path_ends(n, "Option::ok_or_else") for n in names)
        if not cons and matched_to_error(c):
            ok, names = True, ["match .. { None => return Err(documented error) }"]
        ctx.check(ok, "R06.2", "Lexicase/%s/bb%d->ok_or" % (short(c, 1).split("(")[0], site[1]),
                  "consumed by " + ", ".join(short_n(n) for n in names), fn.at(),
                  bad_detail="the Option returned by %s is consumed by %s, not by ok_or(<documented error>)" % (short(c, 2), names or "nothing"))
    # which errors guard which access
    for p in ctx.paths(fn):
        for c in p.calls():
            if callee_is(c, "Option::ok_or") and len(c[3]) == 2:
                src = peel(c[3][0], ("Option::copied", "Option::cloned"), casts=False)
                if src[0] == "call" and src[4] in access_sites:
                    want = "MissingTestCase" if callee_is(src, "[T]::get") else "EmptyPopulation"
                    got = err_adts(c[3][1])
                    ctx.check(want in got, "R06.2", "Lexicase/%s/bb%d/error=%s" % (short(src, 1).split("(")[0], src[4][1], want),
                              "ok_or(.., %s)" % short(c[3][1], 3), fn.at())

    # ---- delegating selectors ------------------------------------------
    is_pop = lambda a: a == POP
    is_rng = lambda a: rng_passthrough(a, 3)
    # &S
    f = ctx.fn("<&S as ec_core::operator::selector::Selector<P>>::select")
    check_forwarder(ctx, "R06.1", "ref-S/forwarder", f, "Selector::select", [lambda a: derives_from_self(a), is_pop, is_rng], wrappers=())
    # Select::apply
    f = ctx.fn("<ec_core::operator::selector::Select<S> as ec_core::operator::Operator<&'pop P>>::apply")
    check_forwarder(ctx, "R06.1", "Select/forwarder", f, "Selector::select", [lambda a: derives_from_self(a, field="selector"), is_pop, is_rng], wrappers=())
    # blanket DynSelector
    f = ctx.fn("<T as ec_core::operator::selector::erased::DynSelector<P, E>>::dyn_select")
    check_forwarder(ctx, "R06.1", "DynSelector-blanket/forwarder", f, "Selector::select", [lambda a: derives_from_self(a), is_pop, is_rng])
    # 28 erased pointer impls
    n = 0
    for f in sel_fns:
        if "DynSelector<P, E>" in f.id and f.id != "<T as ec_core::operator::selector::erased::DynSelector<P, E>>::dyn_select":
            n += 1
            head = f.id.split(" for ")[-1] if " for " in f.id else f.id.split(" as ")[0]
            check_forwarder(ctx, "R06.1", "erased/%s" % head[:90], f, "DynSelector::dyn_select",
                            [lambda a: derives_from_self(a), is_pop, is_rng], wrappers=())
    ctx.floor("R06.1", n, 28, "type-erased pointer Selector impls")

    check_weighted_select(ctx)

    # WeightedPair<A,B>
    f = ctx.fn("<ec_core::weighted::weighted_pair::WeightedPair<A, B> as ec_core::operator::selector::Selector<P>>::select")
    paths = return_paths(ctx.paths(f))
    for p in paths:
        sel = [c for c in p.calls() if callee_is(c, "Selector::select")]
        dcond = [c for c in p.conds if c[0][0] == "discr" and self_field(c[0][1], "distr")]
        if not sel:
            none_branch = dcond and (dcond[0][1] == 0 or (isinstance(dcond[0][1], tuple) and 1 in dcond[0][1][1]))
            ctx.check(is_err_return(p) and none_branch and "ZeroWeight" in err_adts(p.ret), "R06.2", "WeightedPair/zero-weight-error",
                      cond_str(p) + " -> " + short(p.ret, 5), f.at())
        else:
            some_branch = dcond and dcond[0][1] == 1
            ok = some_branch and len(sel) == 1 and sel[0][3][1] == POP and sel[0][3][2] == RNG and \
                (derives_from_self(sel[0][3][0], field="a") or derives_from_self(sel[0][3][0], field="b"))
            ctx.check(ok, "R06.2", "WeightedPair/delegates-only-with-distribution", cond_str(p), f.at())
            r = peel(p.ret, ("Result::map_err",), casts=False)
            ctx.check(r == sel[0], "R06.1", "WeightedPair/returns-inner-selection/%s" % short(sel[0][3][0], 3), short(p.ret, 5), f.at())
    ctx.floor("R06.2", len(paths), 3, "WeightedPair::select paths")

    # DynWeighted
    f = ctx.fn("<ec_core::operator::selector::dyn_weighted::DynWeighted<P> as ec_core::operator::selector::Selector<P>>::select")
    paths = return_paths(ctx.paths(f))
    for p in paths:
        sel = [c for c in p.calls() if callee_is(c, "Selector::select", "DynSelector::dyn_select")]
        cw = [c for c in p.calls() if callee_is(c, "IndexedRandom::choose_weighted")]
        if not sel:
            ctx.check(is_err_return(p) and len(cw) == 1 and match(p.ret, Call("FromResidual::from_residual", Field(Call("Try::branch", Call("IndexedRandom::choose_weighted")), 0, "Break"))),
                      "R06.2", "DynWeighted/weight-error-propagated", short(p.ret, 5), f.at())
        else:
            chosen = sel[0][3][0]
            ok = len(sel) == 1 and len(cw) == 1 and mentions(chosen, cw[0]) and sel[0][3][1] == POP and sel[0][3][2] == RNG
            ctx.check(ok, "R06.1", "DynWeighted/delegates-to-chosen", short(sel[0], 4), f.at())
            r = peel(p.ret, ("Result::map_err",), casts=False)
            ctx.check(r == sel[0], "R06.1", "DynWeighted/returns-inner-selection", short(p.ret, 4), f.at())
            src = cw[0][3][0] if cw else ("unknown", "no choose_weighted call")
            ctx.check(bool(cw) and derives_from_self(src, field="selectors") and cw[0][3][1] == RNG, "R06.1", "DynWeighted/chooses-among-own-selectors", short(cw[0], 3) if cw else "no choose_weighted on this path", f.at())

    # zero-weight members are never used and a non-zero total never yields ZeroWeight: this rests on the exact
    # Bernoulli::from_ratio(a_weight, checked sum) built by WeightedPair::new (C13 R13.1, re-evaluated here)
    from . import rules_c13
    from .rules_c12 import _Only
    # ... and, for the dynamic form, on the configured weights being the weights choose_weighted sees (R13.4: the
    # constructors store (selector, weight) unchanged, the projection is the weight field)
    rules_c13.check(_Only(ctx, {"R13.1": "R06.2", "R13.3": "R06.2", "R13.4": "R06.2"}))
    # ---- escape hatches in ec_core ---------------------------------------
    bad = []
    n_uses = 0
    for fnx in F.fns.values():
        if fnx.crate != "ec_core":
            continue
        for kind, path, full, rdef, rlocal, bi, span, t in fn_uses(fnx):
            n_uses += 1
            if any(path_ends(path, e) for e in ESCAPES):
                bad.append((fnx.id, path, span))
    for fid, path, span in bad:
        ctx.bad("R06.1", "escape-hatch/%s/%s" % (fid, path), "call to %s in %s" % (path, fid), (span or {}).get("at"))
    ctx.check(not [u for u in F.unsafe if u["crate"] == "ec_core"], "R06.1", "no-unsafe-in-ec_core",
              "%d unsafe blocks/fns/impls in ec_core" % len([u for u in F.unsafe if u["crate"] == "ec_core"]))
    ctx.check(not [s for s in F.statics if s["crate"] == "ec_core"], "R06.1", "no-statics-in-ec_core",
              "%d static items in ec_core" % len([s for s in F.statics if s["crate"] == "ec_core"]))
    if not bad:
        ctx.ok("R06.1", "no-escape-hatch-calls", "none of %s among %d function uses in ec_core" % (", ".join(ESCAPES[:4]) + ", ..", n_uses))

    # ---- R06.3 panic audit ------------------------------------------------
    cg = CallGraph(F)
    roots = [f.id for f in sel_fns] + ["<ec_core::operator::selector::Select<S> as ec_core::operator::Operator<&'pop P>>::apply"]
    scope = cg.reach(roots)
    discharge = [
        {"fn": "tournament::Tournament as ec_core::operator::selector::Selector<P>>::select::{closure#0}",
         "what": "panicking::panic_fmt",
         "reason": "unreachable!: choose_multiple(k>=1 of n>=k).max() is Some; guard = strict size check dominates the sample (R07.3) and Tournament.size is NonZero<usize>",
         "guard": tournament_unreachable_guard},
        {"fn": "tournament::Tournament as ec_core::operator::selector::Selector<P>>::select", "exact": SEL % "tournament::Tournament",
         "what": "panicking::panic_fmt",
         "reason": "the None arm of choose_multiple(k>=1 of n>=k).max(), spelled as an explicit match: dead for the same reason",
         "guard": tournament_unreachable_guard},
    ]
    audit_panics(ctx, "R06.3", scope, discharge, floor=1)
    ctx.extra["scope_functions_R06.3"] = len(scope)


def short_n(n):
    from .sym import last_seg
    return last_seg(n, 2)


def tournament_unreachable_guard(ctx, site):
    adt = ctx.F.adts.get("ec_core::operator::selector::tournament::Tournament")
    if not adt:
        return False, "Tournament ADT missing"
    fld = [f for f in adt["variants"][0]["fields"] if f["name"] == "size"]
    nz = bool(fld) and fld[0]["ty"]["s"].startswith("std::num::NonZero<usize>")
    fn = ctx.F.fns.get(SEL % "tournament::Tournament")
    guard_ok = False
    if fn:
        # every way into the panic goes through "max() of the sample is None", the sample being choose_multiple(.., self.size)
        # taken under population.size() >= self.size (canonical paths: the ok_or_else(|| unreachable!()) closure and an
        # explicit `None => unreachable!()` arm are the same outcome)
        from . import ckit as K
        div = [p for p in ctx.cpaths(fn) if p.end == "diverge"]
        guard_ok = bool(div)
        for p in div:
            cm = K.calls_of(p, "IndexedRandom::choose_multiple")
            mx = K.calls_of(p, "Iterator::max")
            if not mx:
                # max() spelled as "first entrant, then fold": the panic sits on next() == None of the same non-empty sample
                mx = [c for c in K.calls_of(p, "Iterator::next") if len(cm) == 1 and K.strip(c[3][0], calls=()) == cm[0]]
            ok1 = len(cm) == 1 and len(mx) == 1 and K.strip(mx[0][3][0], calls=()) == cm[0] and rules_c07._size_val(cm[0][3][2]) and K.discr_is(p, lambda o: K.strip(o, calls=()) == mx[0], 0)
            ok2 = K.holds(K.rels(p), rules_c07._pop_size, "Ge", rules_c07._size_val)
            guard_ok = guard_ok and ok1 and ok2
    return nz and guard_ok, "size: NonZero<usize> = %s, panic only under max(sample of self.size from >= self.size) == None: %s" % (nz, guard_ok)
