"""C03 - Program evaluation is total and bounded; only stack overflow aborts it."""
from .pat import ANY, Bind, Call, Param, CParam, Field, Through, Agg, Const, BinOp, match, find, callee_is, path_ends
from .sym import short, subexprs
from .common import (is_err_return, return_paths, peel, peel_box, mentions, closure_paths, cond_str, audit_panics, CallGraph)
from . import pushleaves as PL
from . import cfg
from . import rules_c04

META = {
    "level": "other",
    "explanation": (
        "Static rule conformance on MIR + call graph. Decided: (R03.1) run_to_completion has exactly one loop; its header tests counter < max_instruction_steps(); the counter is only ever set "
        "to 0 before the loop and to the Some payload of checked_add(counter, 1) inside it (the None arm leaves the loop); perform is called once per iteration => at most max steps; "
        "(R03.2) every growth of a stack is behind an inequality capacity guard and nobody else can write the vector (C04 R04.1/R04.2 re-evaluated here); (R03.3) on every feasible abstract "
        "run of all 88 instructions and of block unfolding that ends in a *fatal* error the cause is a stack overflow - fatal underflows ('should never happen' arms) are proven infeasible by "
        "the interval bounds - and recoverable errors never leave the interpreter (C02 R02.4); (R03.4) panic-site audit over the call-graph closure of run_to_completion and all perform impls: "
        "every may-panic site is listed with a verified discharge guard (dead unreachable! arms proven by variant specialisation, writes to a Cursor<Vec<u8>>, constant divisors, the documented "
        "proviso of unbound input variables); (R03.5) loop audit: every natural loop in that scope is the bounded interpreter loop, an iterator-driven for, or Flush's while-pop loop. "
        "NOT decided: native stack exhaustion from deeply nested programs (recursive Clone/Drop/PartialEq) and memory exhaustion of the output buffer - resource limits are runtime quantities."),
    "rules": {
        "R03.1": "bounded interpreter loop with checked step counter",
        "R03.2": "capacity guards / field ownership of Stack (shared with C04)",
        "R03.3": "fatal errors are overflows; fatal underflow arms infeasible",
        "R03.4": "panic-site audit over the evaluation call graph",
        "R03.5": "loop audit over the evaluation call graph",
    },
    "trusted_base": ["std Vec/Option/Result, usize::checked_add", "Cursor<Vec<u8>> as Write never fails", "uecfacts driver + uecheck rule engine (pushfx, cfg)"],
    "assumptions": ["S1 (size <= max at instruction entry)", "every input variable the program mentions has been bound (property proviso)", "S2: HasStack::stack::<T>() and stack_mut::<T>() name the same stack (decided for the derived impls by C19's accessor clause; hand-written impls are the user's)"],
    "not_decided": ["native stack depth; output buffer memory"],
}

RTC = "<push::push_vm::push_state::PushState as push::push_vm::State>::run_to_completion"


def check_step_loop(ctx):
    f = ctx.fn(RTC)
    be = cfg.back_edges(f)
    heads = sorted({h for _, h in be})
    ctx.check(len(heads) == 1, "R03.1", "exactly-one-loop", "loop headers: %s" % heads, f.at())
    if len(heads) != 1:
        return
    h = heads[0]
    body = set()
    for t, hh in be:
        body |= cfg.loop_body(f, t, hh)
    if _range_bounded_loop(ctx, f, body):
        return
    # header condition: switch on Lt(counter, max_instruction_steps(&self))
    hb = f.blocks[h]
    cur = h
    sw = None
    for _ in range(6):
        t = f.blocks[cur]["term"]
        if t["k"] == "switch":
            sw = (cur, t)
            break
        nxt = f.succ(cur)
        if len(nxt) != 1:
            break
        cur = nxt[0]
    counter = None
    ok = False
    detail = "-"
    if sw:
        d = cfg.chase(f, sw[1]["discr"])
        if d[0] == "call":
            d = _compare_behind_new_helper(ctx, d)
        if d[0] == "rv" and d[1]["k"] == "binop" and d[1]["op"] in ("Lt", "Gt", "Le", "Ge", "Ne"):
            a, b = d[1]["a"], d[1]["b"]
            ca, cb = cfg.chase(f, a), cfg.chase(f, b)
            lim = None
            cnt = None
            for side, other in ((ca, cb), (cb, ca)):
                if side[0] == "call" and path_ends(side[1].get("fn") or "", "PushState::max_instruction_steps"):
                    lim = side
                    cnt = other
            strict = (d[1]["op"] == "Lt" and cb == lim) or (d[1]["op"] == "Gt" and ca == lim)
            if lim and cnt and cnt[0] == "local":
                counter = cnt[1]
                # inside the loop must be the true-branch of counter < max
                inside = [tgt for v, tgt in sw[1]["arms"] if tgt in body] + ([sw[1]["otherwise"]] if sw[1]["otherwise"] in body else [])
                truth_in = sw[1]["otherwise"] in body and all(v == 0 for v, _ in sw[1]["arms"])
                ok = strict and truth_in
                detail = "%s(counter _%d, max_instruction_steps()) - loop continues on true: %s" % (d[1]["op"], counter, truth_in)
    ctx.check(ok, "R03.1", "header-tests-counter<max_instruction_steps", detail, f.at(),
              bad_detail="the loop header must be `counter < self.max_instruction_steps()` (strict) with the body on the true edge; extracted " + detail)
    if counter is None:
        return
    defs = cfg.defs_of_local(f, counter)
    inits = [x for x in defs if x[1] == "assign" and x[2]["k"] == "use" and x[2]["a"].get("k") == "const" and x[2]["a"].get("v") == 0 and x[0] not in body]
    incs = []
    others = []
    for bi, kind, x in defs:
        if (bi, kind, x) in inits:
            continue
        good = False
        if kind == "assign" and x["k"] == "use" and bi in body:
            src = x["a"]
            # copy of a local that is  (checked_add(counter,1) as Some).0
            c2 = cfg.chase(f, src)
            pl = None
            if c2[0] == "place":
                pl = c2[1]
            if pl and len(pl["p"]) == 2 and isinstance(pl["p"][0], dict) and pl["p"][0].get("name") == "Some" and isinstance(pl["p"][1], dict) and pl["p"][1].get("f") == 0:
                dd = cfg.defs_of_local(f, pl["l"])
                if len(dd) == 1 and dd[0][1] == "call" and path_ends(dd[0][2].get("fn") or "", "usize::checked_add"):
                    args = dd[0][2]["args"]
                    a0 = cfg.chase(f, args[0])
                    good = a0 == ("local", counter) and args[1].get("k") == "const" and args[1].get("v") == 1
        (incs if good else others).append((bi, kind))
    ctx.check(len(inits) == 1 and len(incs) == 1 and not others, "R03.1", "counter-only-0-then-checked_add(counter,1)", "init %s, increment %s, other writes %s" % (inits and inits[0][0], incs, others), f.at(),
              bad_detail="the step counter (_%d) must be written exactly twice: `= 0` before the loop and `= checked_add(counter, 1)?Some` inside it; other writes: %s, increments found: %d" % (counter, others, len(incs)))
    # None arm of checked_add leaves the loop; perform once per iteration
    paths = [p for p in ctx.paths(f) if p.end != "unreachable"]
    loopp = [p for p in paths if p.end.startswith("loop:")]
    okn = True
    for p in paths:
        ca = [c for c in p.conds if c[0][0] == "discr" and callee_is(c[0][1], "usize::checked_add")]
        if ca and ca[0][1] == 0:      # None
            okn = okn and p.end == "return"
    ctx.check(okn and len(loopp) >= 1, "R03.1", "counter-overflow-leaves-the-loop", "%d continuing path(s)" % len(loopp), f.at())
    for i, p in enumerate(loopp):
        perf = [c for c in p.calls() if callee_is(c, "State::perform", "Instruction::perform")]
        ctx.check(len(perf) == 1, "R03.1", "one-perform-per-iteration/%d" % i, "%d perform call(s) on the iteration path" % len(perf), f.at())
        inc = [c for c in p.conds if c[0][0] == "discr" and callee_is(c[0][1], "usize::checked_add") and c[1] == 1]
        ctx.check(len(inc) == 1, "R03.1", "every-iteration-counts-a-step/%d" % i, "iteration path passes through checked_add(counter, 1) == Some", f.at(),
                  bad_detail="there is a way around the loop that performs an instruction without advancing the step counter: [%s]" % cond_str(p)[:400])
    # every perform in the function is inside the loop body
    for bi, t in f.calls():
        if path_ends(t.get("fn") or "", "State::perform") or path_ends(t.get("fn") or "", "Instruction::perform"):
            ctx.check(bi in body, "R03.1", "perform-only-inside-the-counted-loop/bb%d" % bi, "bb%d in loop body" % bi, f.at())


def _range_bounded_loop(ctx, f, body):
    """the other spelling of the step bound: `for _ in 0..self.max_instruction_steps() { .. }` - one range element is
    consumed per iteration, so at most max iterations by construction.  Accepted only if every way round the loop goes
    through `next() == Some` of that one range and performs exactly one instruction."""
    paths = [p for p in ctx.paths(f) if p.end != "unreachable"]
    is_range_next = lambda c: callee_is(c, "Iterator::next") and len(c[3]) == 1 and match(
        c[3][0], Through(Call("IntoIterator::into_iter", Agg("Range::Range", Const(0), Call("PushState::max_instruction_steps", Through(Param(1)), nargs=1)), nargs=1)))
    loopp = [p for p in paths if p.end.startswith("loop:")]
    if not loopp:
        return False
    for p in loopp:
        nx = [c for c in p.conds if c[0][0] == "discr" and is_range_next(c[0][1]) and c[1] == 1]
        if len(nx) != 1:
            return False
    ctx.ok("R03.1", "header-tests-counter<max_instruction_steps", "for _ in 0..self.max_instruction_steps(): one range element per iteration", f.at())
    ctx.ok("R03.1", "counter-only-0-then-checked_add(counter,1)", "the range is the counter: nothing else can advance or reset it", f.at())
    ctx.ok("R03.1", "counter-overflow-leaves-the-loop", "range exhaustion leaves the loop", f.at())
    for i, p in enumerate(loopp):
        perf = [c for c in p.calls() if callee_is(c, "State::perform", "Instruction::perform")]
        ctx.check(len(perf) == 1, "R03.1", "one-perform-per-iteration/%d" % i, "%d perform call(s) on the iteration path" % len(perf), f.at())
        ctx.ok("R03.1", "every-iteration-counts-a-step/%d" % i, "each iteration consumes one element of 0..max", f.at())
    for p in paths:
        if p in loopp:
            continue
        perf = [c for c in p.calls() if callee_is(c, "State::perform", "Instruction::perform")]
        some = [c for c in p.conds if c[0][0] == "discr" and is_range_next(c[0][1]) and c[1] == 1]
        ctx.check(not perf or len(some) >= 1, "R03.1", "perform-only-inside-the-counted-loop/path", "perform only after next() == Some", f.at())
    return True


def _compare_behind_new_helper(ctx, d):
    """`while helper(counter, limit)` where helper is a function unknown to the rule base whose only path returns
    one comparison of two of its parameters: hand back that comparison over the call's own operands"""
    t = d[1]
    fid = (t.get("res") or {}).get("def") or t.get("fn")
    if not fid or not ctx.F.is_new_fn(fid):
        return d
    qs = ctx.F.inline_paths(fid, 0)
    rets = [q for q in (qs or []) if q.end == "return"]
    if len(rets) != 1 or len(qs) != 1 or rets[0].conds:
        return d
    r = rets[0].ret
    if r[0] == "binop" and r[2][0] == "param" and r[3][0] == "param" and r[2][1] <= len(t["args"]) and r[3][1] <= len(t["args"]):
        return ("rv", {"k": "binop", "op": r[1], "a": t["args"][r[2][1] - 1], "b": t["args"][r[3][1] - 1]})
    return d


def check(ctx):
    F = ctx.F
    check_step_loop(ctx)
    acc = ctx.fn("push::push_vm::push_state::PushState::max_instruction_steps")
    ps = return_paths(ctx.paths(acc))
    r = peel(ps[0].ret, ()) if len(ps) == 1 else ("unknown",)
    ctx.check(r[0] == "field" and r[2] == "max_instruction_steps" and peel(r[1], ()) == ("param", 1) and not ps[0].calls() and not [e for e in ps[0].events if e[0] == "assert"],
              "R03.1", "max_instruction_steps()-returns-the-configured-limit", short(ps[0].ret) if ps else "-", acc.at(),
              bad_detail="the limit the loop compares against must be exactly the configured field; extracted " + (short(ps[0].ret, 5) if ps else "-"))
    # ---- R03.2 (C04 rules, filed here) ---------------------------------------------
    sub = _Refile(ctx, {"R04.1": "R03.2", "R04.2": "R03.2"})
    rules_c04.check(sub)
    # ---- R03.3 ------------------------------------------------------------------------
    fx, leaves, problems = PL.analyse(ctx)
    real = [l for l in leaves if l.outcomes is not None]
    ctx.floor("R03.3", len(real), 88, "leaf instructions")
    n_fatal = 0
    for l in real:
        bad = []
        fat = [o for o in l.outcomes if o.kind == "err" and o.severity == "fatal"]
        for o in fat:
            n_fatal += 1
            if o.cause != "overflow":
                bad.append(o)
        pan = [o for o in l.outcomes if o.kind == "panic"]
        for o in bad:
            ctx.bad("R03.3", "%s/fatal(%s)" % (l.name, o.cause), "%s can abort the whole program with a fatal %s error: %s" % (l.name, o.cause, o.describe()), l.at)
        for o in pan:
            ctx.bad("R03.3", "%s/feasible-panic-path" % l.name, "%s has a feasible path that ends in a panic: %s" % (l.name, o.describe()), l.at)
        if not bad and not pan:
            ctx.ok("R03.3", l.name + "/fatal=>overflow", "%d fatal outcome(s), all overflow" % len(fat), l.at, nontrivial=bool(fat))
    ctx.floor("R03.3", n_fatal, 38, "fatal outcomes examined")
    vf = ctx.trait_fn("push::instruction::Instruction::perform", "std::vec::Vec<I>")
    outs = fx.summary(vf.id, {"I": "exec"})
    ctx.check(bool(outs) and all(o.kind == "ok" or (o.kind == "err" and o.severity == "fatal" and o.cause == "overflow") for o in outs), "R03.3", "Block/fatal=>overflow", "; ".join(o.describe() for o in outs or []), vf.at())
    # ---- R03.4 panic audit -----------------------------------------------------------------
    cg = CallGraph(F)
    roots = [RTC, "push::push_vm::State::perform"] + [f.id for f in ctx.trait_impl_fns("push::instruction::Instruction::perform")]
    scope = cg.reach(roots)
    ctx.extra["evaluation_scope_functions"] = len(scope)
    discharge = [
        {"fn": "IntInstruction as push::instruction::Instruction<S>>::perform", "what": "panicking::panic_fmt",
         "reason": "unreachable!() in the inner `_` arm: every variant of the outer or-pattern has an explicit inner arm (variant specialisation leaves no feasible path)", "guard": guard_dead_arm},
        {"fn": "exec::ifelse::IfElse as push::instruction::Instruction<S>>::perform", "what": "panicking::panic_fmt",
         "reason": "unreachable!(): an `else` block without a `then` block is impossible (top2 Ok => top Ok); no feasible abstract run reaches it", "guard": guard_dead_arm},
        {"fn": "printing::Print<T> as", "what": "Result::unwrap", "reason": "write! to HasStdout::Stdout = Cursor<Vec<u8>> cannot fail", "guard": guard_cursor},
        {"fn": "printing::PrintLn<T> as", "what": "Result::unwrap", "reason": "write! to Cursor<Vec<u8>> cannot fail", "guard": guard_cursor},
        {"fn": "printing::char::PrintChar<CHAR> as", "what": "Result::unwrap", "reason": "write! to Cursor<Vec<u8>> cannot fail", "guard": guard_cursor},
        {"fn": "printing::string::PrintString as", "what": "Result::unwrap", "reason": "write! to Cursor<Vec<u8>> cannot fail", "guard": guard_cursor},
        {"fn": "IntInstruction as push::instruction::Instruction<S>>::perform::{closure#", "what": "RemainderByZero", "reason": "constant divisor 2", "guard": guard_const_divisor},
        {"fn": "IntInstruction as push::instruction::Instruction<S>>::perform::{closure#", "what": "Overflow:Rem", "reason": "constant divisor 2 (overflow only for -1)", "guard": guard_const_divisor},
        {"fn": "FloatInstruction as push::instruction::Instruction<S>>::perform::{closure#", "what": "Div::div", "reason": "OrderedFloat<f64> division is IEEE float division and never panics", "guard": guard_float_div},
        {"fn": "int::clamp::Clamp as push::instruction::Instruction<S>>::perform::{closure#", "what": "Ord::clamp",
         "reason": "i64::clamp panics only when min > max; the bounds are swapped into order first", "guard": guard_clamp_ordered},
        {"fn": "push_state::PushState::with_input", "what": "panicking::panic_fmt",
         "reason": "documented proviso of the property: an input variable that was never bound", "guard": None},
    ] + rules_c04.stack_discharge()
    audit_panics(ctx, "R03.4", scope, discharge, floor=13)
    # ---- R03.5 loop audit ---------------------------------------------------------------------
    n_loops = 0
    for fid in sorted(scope):
        fn = F.fns.get(fid)
        if fn is None:
            continue
        for tail, head in cfg.back_edges(fn):
            n_loops += 1
            body = cfg.loop_body(fn, tail, head)
            kind = classify_loop(fn, head, body)
            key = "loop/%s/bb%d" % (fid, head)
            if fid == RTC:
                kind = kind or "bounded-interpreter-loop (R03.1)"
            ctx.check(kind is not None, "R03.5", key, kind or "-", fn.at(),
                      bad_detail="unrecognised loop shape in %s (header bb%d): not an iterator-driven for, not Flush's while-pop, not the counted interpreter loop" % (fid, head))
    ctx.floor("R03.5", n_loops, 1, "natural loops in the evaluation scope (the interpreter loop itself must be seen; other loops may legitimately disappear)")
    # recursion: record (not asserted)
    ctx.extra["recursive_functions_in_scope_note"] = "PushProgram Clone/Drop/PartialEq and block performs recurse over program nesting depth: resource limit, not decided"


def classify_loop(fn, head, body):
    calls = []
    for b in sorted(body):
        t = fn.blocks[b]["term"]
        if t["k"] == "call" and t.get("fn"):
            calls.append(t)
    names = [t["fn"] for t in calls]
    if any(path_ends(n, "Iterator::next") for n in names):
        return "iterator-driven for loop"
    if any(path_ends(n, "Stack::pop") or path_ends(n, "Vec::pop") for n in names) and any(path_ends(n, "Result::is_ok") or path_ends(n, "Option::is_some") for n in names):
        return "while-pop loop (each iteration removes one element)"
    if any(path_ends(n, "Stack::pop") or path_ends(n, "Vec::pop") for n in names) and any(path_ends(n, "Stack::size") or path_ends(n, "Vec::len") for n in names):
        cmp_ = False
        for b in sorted(body):
            for st in fn.blocks[b]["stmts"]:
                if st["k"] == "assign" and st["rv"]["k"] == "binop" and st["rv"]["op"] in ("Gt", "Lt", "Ge", "Le", "Ne"):
                    cmp_ = True
        if cmp_:
            return "shrinking loop (runs while size() compares against a bound; each iteration removes one element, so it ends)"
    return None


def guard_dead_arm(ctx, s):
    """the diverging call is on no feasible abstract run of any leaf"""
    fx, leaves, problems = PL.analyse(ctx)
    fid = s["fn"]
    # 1) variant specialisation: is the block reachable on any walker path at all?
    fn = ctx.F.fns[fid]
    on_paths = [p for p in ctx.paths(fn) if s["block"] in p.blocks]
    if not on_paths:
        return True, "no CFG path consistent with the discriminant reaches bb%d" % s["block"]
    # 2) abstract interpretation: all such paths infeasible
    feas = 0
    for l in leaves:
        if l.outcomes is None:
            continue
        for o in l.outcomes:
            if o.kind == "panic" and (l.fn.id == fid or (l.body_fn is not None and l.body_fn.id == fid)):
                feas += 1
    outs = fx.summary(fid, {})
    feas += sum(1 for o in (outs or []) if o.kind == "panic")
    return feas == 0, "%d syntactic path(s) reach it, %d feasible after interval pruning" % (len(on_paths), feas)


def guard_cursor(ctx, s):
    ims = [im for im in ctx.F.impls if im.get("trait") == "push::push_vm::push_io::HasStdout"]
    tys = []
    for im in ims:
        for it in im["items"]:
            if it["kind"] == "AssocTy" and it["name"] == "Stdout":
                tys.append(it["ty"]["s"])
    ok = len(ims) >= 1 and all(t == "std::io::Cursor<std::vec::Vec<u8>>" for t in tys)
    fn = ctx.F.fns[s["fn"]]
    t = fn.blocks[s["block"]]["term"]
    # the unwrapped value is the result of write_fmt
    src = cfg.chase(fn, t["args"][0]) if t.get("args") else None
    from_write = src is not None and src[0] == "call" and path_ends(src[1].get("fn") or "", "Write::write_fmt")
    return ok and from_write, "HasStdout impls: %s; unwraps write_fmt: %s" % (tys, from_write)


def guard_const_divisor(ctx, s):
    t = ctx.F.fns[s["fn"]].blocks[s["block"]]["term"]
    ops = t.get("ops") or []
    if s["what"] == "RemainderByZero":
        ok = len(ops) == 1
    else:
        ok = len(ops) == 2
    consts = [o for o in ops if o.get("k") == "const"]
    # the divisor operand of the Rem itself
    fn = ctx.F.fns[s["fn"]]
    div_ok = False
    for b in fn.blocks:
        for st in b["stmts"]:
            if st["k"] == "assign" and st["rv"]["k"] == "binop" and st["rv"]["op"] == "Rem":
                d = st["rv"]["b"]
                div_ok = d.get("k") == "const" and d.get("v") not in (0, -1, None)
    return div_ok, "divisor constant not in {0,-1}: %s" % div_ok


def _nonzero(v):
    return v == 1 or (isinstance(v, tuple) and v and v[0] == "not" and 0 in v[1])


def guard_clamp_ordered(ctx, s):
    """`v.clamp(lo, hi)` panics iff lo > hi: on every path to the call the branch conditions must establish lo <= hi
    (or both bounds are constants in order)"""
    fn = ctx.F.fns[s["fn"]]
    n = 0
    for p in ctx.paths(fn):
        for c in p.calls():
            if not callee_is(c, "Ord::clamp") or len(c[3]) != 3:
                continue
            n += 1
            lo, hi = c[3][1], c[3][2]
            if lo[0] == "const" and hi[0] == "const" and isinstance(lo[3], int) and isinstance(hi[3], int) and lo[3] <= hi[3]:
                continue
            if callee_is(lo, "Ord::min", "cmp::min") and callee_is(hi, "Ord::max", "cmp::max") and len(lo[3]) == 2 and len(hi[3]) == 2 and set(lo[3]) == set(hi[3]):
                continue            # min(x, y) <= max(x, y) for any total order
            ok = False
            for cnd in p.conds:
                e, v = cnd[0], cnd[1]
                if e[0] != "binop":
                    continue
                op, a, b = e[1], e[2], e[3]
                if (a, b) == (lo, hi):
                    ok = ok or (op in ("Gt", "Ge") and v == 0) or (op in ("Le", "Lt") and _nonzero(v))
                elif (a, b) == (hi, lo):
                    ok = ok or (op in ("Lt", "Le") and v == 0) or (op in ("Ge", "Gt") and _nonzero(v))
            if not ok:
                return False, "a path reaches clamp(%s, %s, %s) without having established min <= max: [%s]" % (short(c[3][0]), short(lo), short(hi), cond_str(p)[:200])
    return n > 0, "%d clamp call path(s), each preceded by a branch that orders the bounds" % n


def guard_float_div(ctx, s):
    t = ctx.F.fns[s["fn"]].blocks[s["block"]]["term"]
    tys = [a.get("s") for a in t.get("targs", [])]
    return bool(tys) and tys[0] == "ordered_float::OrderedFloat<f64>", "Div::div on %s" % tys[:1]


class _Refile:
    def __init__(self, ctx, mapping):
        self._c = ctx
        self._m = mapping

    def __getattr__(self, n):
        return getattr(self._c, n)

    def ok(self, rule, *a, **k):
        if rule in self._m:
            return self._c.ok(self._m[rule], *a, **k)

    def bad(self, rule, *a, **k):
        if rule in self._m:
            return self._c.bad(self._m[rule], *a, **k)

    def check(self, cond, rule, *a, **k):
        if rule in self._m:
            return self._c.check(cond, self._m[rule], *a, **k)
        return bool(cond)

    def floor(self, rule, *a, **k):
        if rule in self._m:
            return self._c.floor(self._m[rule], *a, **k)
