"""C08 - Lexicase filters by randomly ordered cases; winners are never dominated."""
from .pat import ANY, Bind, Call, Param, Field, Through, BinOp, Const, Agg, match, find, callee_is, path_ends
from .sym import short, subexprs, walk
from .common import (TryOk, is_err_return, return_paths, peel, self_field, mentions, cond_str)
from . import rules_c15

META = {
    "level": "other",
    "explanation": (
        "Static rule conformance on the MIR of Lexicase::select (path-sensitive def-use). Decided: (R08.1) the case order is a vector "
        "collected from 0..self.num_test_cases that is shuffled with the supplied rng before the filtering loop iterates exactly that vector; "
        "(R08.2) inside the loop every candidate's result is fetched with the *current* case index and compared as Ord::cmp(this, best); the "
        "three Ordering arms have exactly the effects Less -> nothing, Equal -> push candidate, Greater -> clear, push candidate, best := this; "
        "winners start as [first candidate] and replace the candidates by mem::swap after each case; (R08.3) the loop is left only by "
        "exhausting the cases, by the break that is control-dependent on `remaining.is_empty()`, or by an error return; (R08.4) the survivors are "
        "shuffled with the supplied rng before first() is returned; (R08.5) result polarity: Error<T>'s reversed Ord (rules shared with C15). "
        "NOT decided: the selection probabilities over all case permutations (a statement about runtime distributions). (R08.6) Lexicase::new stores the configured number of test cases. The head/tail roles of the per-case filter are recognised in their equivalent spellings (split_first; first() with iter().skip(1) or [1..]; tail.is_empty() or len() == 1)."),
    "rules": {
        "R08.1": "case indices = collect(0..self.num_test_cases); SliceRandom::shuffle(cases, rng) precedes into_iter(cases) of the filtering loop",
        "R08.2": "per-case filter: get(results, current case) for both sides; Ord::cmp(this, best); Less/Equal/Greater arm effects; winners seeded with the first candidate; mem::swap(candidates, winners) at the end of each case; the candidate loop is left only when its iterator is exhausted",
        "R08.3": "loop exits: cases exhausted | break iff remaining.is_empty() | error return; no success exit while several candidates and further cases remain",
        "R08.4": "SliceRandom::shuffle(candidates, rng) precedes first() on every non-error return",
        "R08.6": "the configured number of test cases is the number used: Lexicase::new stores its argument in num_test_cases",
        "R08.5": "Error<T>::cmp / partial_cmp reverse exactly once (C15 R15.2)",
    },
    "trusted_base": ["rustc MIR construction", "rand 0.9 SliceRandom::shuffle is a uniform permutation driven only by the given rng", "std Vec/slice/mem::swap", "uecfacts driver + uecheck rule engine"],
    "assumptions": ["Ord on the result type is a lawful total order"],
    "not_decided": ["selection law over all case permutations; Pareto non-domination as a runtime statement (follows from R08.2 by induction, argued not mechanised)"],
}

FN = "<ec_core::operator::selector::lexicase::Lexicase as ec_core::operator::selector::Selector<P>>::select"
RNG = ("param", 3)
POP = ("param", 2)
LESS = (255, -1)


def is_cases(e):
    e = peel(e, ("DerefMut::deref_mut", "Deref::deref"), casts=False)
    return match(e, Call("Iterator::collect", Agg("Range::Range", Const(0), lambda x: self_field(x, "num_test_cases")), nargs=1))


def is_cands(e):
    e = peel(e, ("DerefMut::deref_mut", "Deref::deref", "Vec::as_slice", "Vec::as_mut_slice"), casts=False)
    return match(e, Call("Iterator::collect", Call("IntoIterator::into_iter", Param(2), nargs=1), nargs=1))


# --- head / tail of the candidate list ----------------------------------------------------------------------
# The per-case filter treats the first candidate as the provisional best and compares every *other* candidate
# with it.  Accepted spellings: `let (&head, tail) = candidates.split_first().ok_or(..)?`;
# `candidates.first().ok_or(..)?` / `candidates[0]` with the others taken as `candidates.iter().skip(1)` /
# `&candidates[1..]`; "no other candidate" is `tail.is_empty()` or `candidates.len() == 1 / < 2 / <= 1`.
def _split(x):
    return match(x, TryOk(Call("Option::ok_or", Call("[T]::split_first", is_cands, nargs=1)))) or \
        match(x, Field(Call("[T]::split_first", is_cands, nargs=1), 0, "Some"))          # `let Some((head, tail)) = c.split_first() else { return Err(..) }`


def is_head_expr(x):
    if x[0] == "field" and x[2] == 0 and _split(x[1]):
        return True
    if match(x, TryOk(Call("Option::ok_or", Call("[T]::first", is_cands, nargs=1)))):
        return True
    return x[0] == "index" and is_cands(x[1]) and x[2][0] == "const" and x[2][3] == 0


def is_tail_expr(x):
    if x[0] == "field" and x[2] == 1 and _split(x[1]):
        return True
    if x[0] == "subslice" and len(x) >= 5 and is_cands(x[1]) and x[2] == 1 and x[3] == 0 and x[4] is True:
        return True          # the `rest @ ..` of a slice pattern [first, rest @ ..]
    if callee_is(x, "Index::index") and is_cands(x[3][0]) and match(x[3][1], Agg("RangeFrom::RangeFrom", Const(1))):
        return True
    if callee_is(x, "Iterator::skip") and len(x[3]) == 2 and x[3][1][0] == "const" and x[3][1][3] == 1:
        b = peel(x[3][0], (), casts=False)
        return callee_is(b, "[T]::iter", "IntoIterator::into_iter") and is_cands(b[3][0])
    return False


def mentions_head(e):
    return any(is_head_expr(x) for x in subexprs(e))


def mentions_tail(e):
    return any(is_tail_expr(x) for x in subexprs(e))


def single_candidate_cond(c):
    """truth value (True/False) with which the path condition `c` says "there is no candidate besides the head", or None"""
    e, v = c[0], c[1]
    truth = (v != 0) if not isinstance(v, tuple) else True
    if callee_is(e, "[T]::is_empty") and is_tail_expr(peel(e[3][0], (), casts=False)):
        return truth
    if e[0] == "binop" and e[3][0] == "const":
        a = peel(e[2], ())
        is_len = (callee_is(a, "Vec::len", "[T]::len") and is_cands(a[3][0])) or (a[0] == "len" and is_cands(a[1]))
        if is_len:
            k = e[3][3]
            if (e[1], k) in (("Eq", 1), ("Lt", 2), ("Le", 1)):
                return truth
            if (e[1], k) in (("Ne", 1), ("Ge", 2), ("Gt", 1)):
                return not truth
    return None


def ordering_tests_as_arms(paths):
    """`if ord == Ordering::Less { .. } if ord == Ordering::Greater { .. }` tests the same discriminant a `match ord` tests:
    conditions PartialEq::eq/ne(ord, <constant Ordering>) are rewritten to discr(ord) == k / not k, and the tests of one
    ordering value on a path are replaced by the single value they leave (not Less and not Greater = Equal); a path whose
    tests contradict each other is dropped"""
    from .canon import ordering_const
    from .sym import Path, strip_refs
    out = []
    for p in paths:
        tests = {}
        rest = []
        for c in p.conds:
            e = c[0]
            hit = None
            if e[0] == "call" and e[1] in ("std::cmp::PartialEq::eq", "std::cmp::PartialEq::ne") and len(e[3]) == 2 and "std::cmp::Ordering as" in (e[2] or ""):
                x, y = strip_refs(e[3][0]), strip_refs(e[3][1])
                for u, w in ((x, y), (y, x)):
                    k = ordering_const(w)
                    if k is not None and ordering_const(u) is None:
                        truth = (c[1] != 0) if not isinstance(c[1], tuple) else True
                        if e[1].endswith("::ne"):
                            truth = not truth
                        hit = (u, k, truth, c[2])
                        break
            if hit is None:
                if e[0] == "discr" and callee_is(e[1], "Ord::cmp") and not isinstance(c[1], tuple):
                    tests.setdefault(e[1], {"eq": set(), "ne": set(), "blk": c[2]})["eq"].add(-1 if c[1] in LESS else c[1])
                    continue
                rest.append(c)
                continue
            t = tests.setdefault(hit[0], {"eq": set(), "ne": set(), "blk": hit[3]})
            (t["eq"] if hit[2] else t["ne"]).add(hit[1])
        feasible = True
        for u, t in tests.items():
            left = ({-1, 0, 1} - t["ne"]) & (t["eq"] or {-1, 0, 1})
            if len(t["eq"]) > 1 or not left:
                feasible = False
                break
            if len(left) == 1:
                v = next(iter(left))
                rest.append((("discr", u), 255 if v == -1 else v, t["blk"]))
            else:
                rest.append((("discr", u), ("not", tuple(sorted(255 if x == -1 else x for x in t["ne"]))), t["blk"]))
        if feasible:
            out.append(Path(rest, p.events, p.ret, p.end, p.blocks, p.env, p.fieldenv))
    return out


def check(ctx):
    from .ctors import check_table
    check_table(ctx, "C08", "R08.6")
    fn = ctx.fn(FN)
    paths = ordering_tests_as_arms([p for p in ctx.paths(fn) if p.end != "unreachable"])
    at = fn.at()

    # ---- R08.1 ------------------------------------------------------------
    n = 0
    for p in paths:
        cs = p.calls()
        loops = [c for c in cs if callee_is(c, "IntoIterator::into_iter") and is_cases(c[3][0])]
        shuf = [c for c in cs if callee_is(c, "SliceRandom::shuffle") and is_cases(c[3][0])]
        if not loops:
            continue
        n += 1
        ok = len(loops) == 1 and len(shuf) == 1 and shuf[0][3][1] == RNG and cs.index(shuf[0]) < cs.index(loops[0])
        if not ok:
            ctx.bad("R08.1", "case-order-shuffled-before-loop",
                    "on a path the loop over the case vector is not preceded by exactly one shuffle(cases, rng): shuffles=%s loops=%s" % (
                        [short(c, 4) for c in shuf], [short(c, 3) for c in loops]), at)
            break
    else:
        ctx.check(n > 0, "R08.1", "case-order-shuffled-before-loop", "%d paths iterate the shuffled case vector collect(0..self.num_test_cases)" % n, at)
    # the loop must iterate nothing else for cases: the index used for get() is the payload of next() on that iterator
    # ---- R08.2 ------------------------------------------------------------
    cmp_paths = []
    for p in paths:
        cm = [c for c in p.conds if c[0][0] == "discr" and callee_is(c[0][1], "Ord::cmp")]
        if cm:
            cmp_paths.append((p, cm[0]))
    ctx.floor("R08.2", len(cmp_paths), 3, "paths through the three Ordering arms")
    arms = {}
    for p, c in cmp_paths:
        v = c[1]
        name = "Less" if v in LESS else "Equal" if v == 0 else "Greater" if v == 1 else str(v)
        arms[name] = (p, c)
    for name in ("Less", "Equal", "Greater"):
        if name not in arms:
            ctx.bad("R08.2", "arm/" + name + "/missing", "no path takes the Ordering::%s arm of the comparison" % name, at)
    idx_ok = None
    for name, (p, c) in sorted(arms.items()):
        cmpcall = c[0][1]
        this, best = cmpcall[3][0], cmpcall[3][1]
        # both operands: get(results(x), IDX) with IDX = payload of next() over the case vector
        gets = []
        for side, e in (("this", this), ("best", best)):
            g = [x for x in subexprs(e) if callee_is(x, "[T]::get")]
            good = False
            if len(g) == 1:
                idx = g[0][3][1]
                good = match(idx, Field(Call("Iterator::next", lambda it: match(peel(it, (), casts=False), Call("IntoIterator::into_iter", is_cases))), 0, "Some"))
                res_ok = any(x[0] == "field" and x[2] == "results" for x in subexprs(g[0][3][0])) and \
                    any(callee_is(x, "Individual::test_results") for x in subexprs(g[0][3][0]))
                good = good and res_ok
            gets.append(good)
            ctx.check(good, "R08.2", "arm/%s/%s-result-at-current-case" % (name, side), short(e, 5)[:300], at,
                      bad_detail="%s operand of cmp is not results.get(<current case index>): %s" % (side, short(e, 7)[:500]))
        # operand roles: `this` comes from the inner iteration over `remaining`, `best` initially from the first candidate
        inner_next = [x for x in subexprs(this) if callee_is(x, "Iterator::next") and mentions_tail(x)]
        ctx.check(bool(inner_next), "R08.2", "arm/%s/this-is-loop-candidate" % name, "first cmp operand derives from the iteration over the remaining candidates", at)
        best_first = mentions_head(best) and not mentions_tail(best)
        ctx.check(best_first, "R08.2", "arm/%s/best-is-current-best" % name, "second cmp operand derives from the first candidate (current best)", at)
        # effects after the comparison
        ev = p.events
        k = None
        for i, e in enumerate(ev):
            if e[0] == "call" and e[1] == cmpcall:
                k = i
        after = [e[1] for e in ev[k + 1:] if e[0] == "call"] if k is not None else []
        eff = [("clear" if callee_is(c2, "Vec::clear") else "push") for c2 in after if callee_is(c2, "Vec::clear", "Vec::push")]
        want = {"Less": [], "Equal": ["push"], "Greater": ["clear", "push"]}.get(name)
        if want is None:
            ctx.bad("R08.2", "arm/%s/unclassified" % name, "a path through the comparison that is not one of the three Ordering arms", at)
            continue
        ctx.check(eff == want, "R08.2", "arm/%s/effects" % name, "effects on winners: %s" % eff, at,
                  bad_detail="Ordering::%s arm performs %s on the winners vector, expected %s" % (name, eff, want))
        # pushed value is the loop candidate
        cand = None
        if inner_next:
            for c2 in after:
                if callee_is(c2, "Vec::push"):
                    pushed = c2[3][1]
                    ok = mentions(pushed, inner_next[0])
                    ctx.check(ok, "R08.2", "arm/%s/pushes-candidate" % name, "pushes " + short(pushed, 4), at)
        other_calls = [c2 for c2 in after if not callee_is(c2, "Vec::clear", "Vec::push") and
                       not (c2[1] in ("std::cmp::PartialEq::eq", "std::cmp::PartialEq::ne") and "std::cmp::Ordering as" in (c2[2] or ""))]     # tests of the ordering itself
        ctx.check(not other_calls, "R08.2", "arm/%s/no-other-effects" % name, "no other call between the comparison and the next candidate", at,
                  bad_detail="unexpected calls in the arm: " + ", ".join(short(c2, 3) for c2 in other_calls))
        # arm paths all go back to the inner loop header
        ctx.check(p.end.startswith("loop:"), "R08.2", "arm/%s/continues-inner-loop" % name, p.end, at)

    # best := this only on Greater (uses end-of-path environments)
    envp = ordering_tests_as_arms([p for p in walk(fn, ctx.F, keep_env=True) if p.end != "unreachable"])
    by = {}
    for p in envp:
        cm = [c for c in p.conds if c[0][0] == "discr" and callee_is(c[0][1], "Ord::cmp")]
        if cm:
            v = cm[0][1]
            name = "Less" if v in LESS else "Equal" if v == 0 else "Greater" if v == 1 else str(v)
            by[name] = (p, cm[0][0][1])
    if len(by) == 3:
        pg, cg = by["Greater"]
        this_g, best_g = cg[3][0], cg[3][1]
        locs = [l for l, v in pg.env.items() if v == this_g and all(by[n][0].env.get(l) == by[n][1][3][1] for n in ("Less", "Equal"))]
        ctx.check(len(locs) >= 1, "R08.2", "arm/Greater/best-updated-only-there",
                  "local(s) %s hold `best` after Less/Equal and `this` after Greater" % locs, at,
                  bad_detail="no local holds the current best such that it is replaced by the candidate's result exactly on the Greater arm")

    # winners seeded with the first candidate: on the path into the inner loop: clear, push(first)
    seeded = False
    for p in paths:
        cs = p.calls()
        eff = [c for c in cs if callee_is(c, "Vec::clear", "Vec::push")]
        if len(eff) >= 2 and callee_is(eff[0], "Vec::clear") and callee_is(eff[1], "Vec::push"):
            first = eff[1][3][1]
            # must be the head itself, not an element of the tail
            seeded = mentions_head(first) and not mentions_tail(first) and not any(callee_is(x, "Iterator::next") for x in subexprs(first))
            break
    ctx.check(seeded, "R08.2", "winners-seeded-with-first-candidate", "per case: winners.clear(); winners.push(first candidate)", at,
              bad_detail="per case the winners must be reset to exactly the first candidate (winners.clear(); winners.push(head)) before the others are compared with it")
    swaps = [p for p in paths if p.end.startswith("loop:") and any(callee_is(c, "mem::swap") for c in p.calls())]
    ok = False
    for p in swaps:
        sw = [c for c in p.calls() if callee_is(c, "mem::swap")][0]
        a, b = sw[3][0], sw[3][1]
        ok = (is_cands(a) and callee_is(peel(b, ()), "Vec::with_capacity")) or (is_cands(b) and callee_is(peel(a, ()), "Vec::with_capacity"))
        last_calls = p.calls()
        ok = ok and last_calls[-1] == sw
    ctx.check(ok, "R08.2", "survivors-replace-candidates", "mem::swap(candidates, winners) is the last action of a case iteration", at)
    # every remaining candidate is compared: a case iteration is finished (the swap is reached) only by the candidate
    # iterator running out, never from inside an iteration (an added `break` would leave later candidates uncompared and dropped)
    cut = []
    for p in swaps:
        inner = [c for c in p.conds if c[0][0] == "discr" and callee_is(c[0][1], "Iterator::next") and mentions_tail(c[0][1])]
        if not inner or any(c[1] != 0 for c in inner):
            cut.append(p)
    ctx.check(bool(swaps) and not cut, "R08.2", "candidate-loop-left-only-when-exhausted", "%d path(s) reach the swap, each through next() == None of the candidate iteration" % len(swaps), at,
              bad_detail="a case iteration is finished from inside the candidate loop (not by its iterator running out): [%s]" % "; ".join(cond_str(p)[-260:] for p in cut[:2]))

    # ---- R08.3 loop exits ---------------------------------------------------
    def single(p):
        vs = [single_candidate_cond(c) for c in p.conds]
        vs = [v for v in vs if v is not None]
        return vs[0] if vs else None
    brk = [p for p in paths if single(p) is True]
    cont = [p for p in paths if single(p) is False]
    okb = bool(brk) and all(p.end == "return" and not any(callee_is(c, "Vec::push", "Vec::clear", "mem::swap") for c in p.calls()) for p in brk)
    ctx.check(okb, "R08.3", "break-iff-remaining-empty", "%d break paths, all guarded by `no candidate besides the first` and effect-free" % len(brk), at)
    ctx.check(len(cont) >= 4, "R08.3", "filtering-continues-when-remaining-nonempty", "%d paths continue filtering with is_empty == false" % len(cont), at)
    # ... and none of them leaves the case loop: with two or more candidates left and cases left, the only ways out are the
    # `?` exits checked below (an added "they are all tied anyway" / "good enough" break is a success exit that skips cases)
    early = [p for p in cont if p.end == "return" and not is_err_return(p)]
    ctx.check(not early, "R08.3", "no-success-exit-while-candidates-and-cases-remain", "0 of %d continuing paths return" % len(cont), at,
              bad_detail="a path returns a selection although more than one candidate and further cases remain: [%s]" % "; ".join(cond_str(p)[-260:] for p in early[:2]))
    exh = [p for p in paths if p.end == "return" and not is_err_return(p) and single(p) is None]
    ok_exh = bool(exh)
    for p in exh:
        nx = [c for c in p.conds if c[0][0] == "discr" and callee_is(c[0][1], "Iterator::next")]
        ok_exh = ok_exh and bool(nx) and nx[-1][1] == 0
    ctx.check(ok_exh, "R08.3", "exit-when-cases-exhausted", "%d paths leave the loop through next() == None" % len(exh), at)
    errs = [p for p in paths if p.end == "return" and is_err_return(p)]
    def err_exit_ok(p):
        """`?` on a checked accessor, or an explicit `return Err(<one of the selector's documented errors>)`"""
        if callee_is(p.ret, "FromResidual::from_residual"):
            return True
        r = p.ret
        if r is not None and r[0] == "agg" and r[1] == "adt" and path_ends(r[2], "Result::Err") and len(r[3]) == 1:
            e = r[3][0]
            while callee_is(e, "Into::into", "From::from") and len(e[3]) == 1:
                e = e[3][0]
            return e[0] == "agg" and e[1] == "adt" and (path_ends(e[2], "EmptyPopulation::EmptyPopulation") or "LexicaseError::" in e[2])
        return False
    ctx.check(all(err_exit_ok(p) for p in errs), "R08.3", "error-exits-are-?-propagations",
              "%d error return paths" % len(errs), at)

    # ---- R08.4 ----------------------------------------------------------------
    okr = [p for p in paths if p.end == "return" and not is_err_return(p)]
    ctx.floor("R08.4", len(okr), 2, "non-error return paths")
    for i, p in enumerate(okr):
        cs = p.calls()
        sh = [c for c in cs if callee_is(c, "SliceRandom::shuffle") and is_cands(c[3][0])]
        # the first() whose value is returned (a first() inside the loop only names the provisional best)
        fi = [c for c in cs if callee_is(c, "[T]::first") and is_cands(c[3][0]) and p.ret is not None and mentions(p.ret, c)][-1:]
        ok = len(sh) == 1 and len(fi) == 1 and sh[0][3][1] == RNG and cs.index(sh[0]) < max(i for i, c in enumerate(cs) if c == fi[0])
        ret_ok = match(p.ret, Through(Call("Option::ok_or", Through(Bind("f", Call("[T]::first")), calls=("Option::copied",))), calls=("Result::map_err",))) and fi and mentions(p.ret, fi[0])
        if not ret_ok and fi:
            # the same spelled as a match: Some(x) => Ok(*x) on the path where first() is Some
            some = any(c[0] == ("discr", fi[0]) and c[1] == 1 for c in p.conds)
            ret_ok = some and match(p.ret, Agg("Result::Ok", lambda e: peel(e, ("Clone::clone",)) == ("field", fi[0], 0, "Some")))
        ctx.check(ok and ret_ok, "R08.4", "final-shuffle-before-first/%d" % i, short(p.ret, 6), at,
                  bad_detail="non-error return is not first() of the survivors after shuffle(survivors, rng): shuffles=%d firsts=%d ret=%s" % (len(sh), len(fi), short(p.ret, 8)))

    # ---- R08.5 ------------------------------------------------------------------
    rules_c15.check_error_ord(ctx, "R08.5")
