"""C09 - A generation step atomically replaces the population with as many fresh children."""
from .pat import ANY, Bind, Call, Param, CParam, Field, Through, Agg, Const, match, find, callee_is, path_ends
from .sym import short, subexprs
from .common import (is_err_return, return_paths, peel, mentions, derives_from_self, rng_passthrough, closure_paths, cond_str, fn_uses, ty_mentions)
from .rules_c16 import INTERIOR

META = {
    "level": "other",
    "explanation": (
        "Static rule conformance on the MIR of Generation::{serial_next, par_next} and their closures (function families; the user code sits inside the polonius! closure). "
        "Decided: (R09.1) the child iterator is repeat_n / rayon repeatn over a shared borrow of self.population with count Population::size of that same field, mapped once and "
        "collected once into a Result; (R09.2) the only write to Generation.population outside `new` is the assignment on the success edge of that collect (the Owned arm of the "
        "polonius result carrying the collect's Ok payload); the error edge returns the residual without any write; (R09.3) the child maker receives the repeated shared "
        "reference, closures capture population/child_maker by shared reference only, Generation has no interior mutability and no unsafe; (R09.4) the rng handed to every apply "
        "is a live generator: rand::rng() called once per serial step and mutably borrowed into the map closure, or - per rayon worker - the value produced by map_init's init "
        "function rand::rng, passed on by &mut; no seeding or cloning; (R09.5) for par_next the impl requires P: Send + Sync and C: Send + Sync and the worker closure's captures "
        "are shared references, so there is no shared mutable state and (with rayon's all-or-nothing collect::<Result<_,_>>, trusted) the guarantees are schedule independent. "
        "NOT decided: rayon's internals; statistical independence of the children."),
    "rules": {
        "R09.1": "children = repeat_n/repeatn(&population, population.size()).map(child_maker.apply).collect::<Result<P,_>>() - once",
        "R09.2": "population is written only on the collect's Ok edge; who-may-write: only Generation::new and the *_next success arms",
        "R09.3": "source population only shared-borrowed; no interior mutability in Generation",
        "R09.4": "live rng: rand::rng() per serial step / per rayon worker via map_init(rand::rng, ..); passed by &mut",
        "R09.5": "par_next: Send + Sync bounds on P and C; worker closure captures shared references only",
    },
    "trusted_base": ["rayon: repeatn(x, n) yields n items; map_init calls init once per worker split and hands &mut to the map fn; collect::<Result<C,E>> is all-or-nothing", "std repeat_n/map/collect::<Result<_,_>>",
                     "polonius_the_crab::polonius! only routes the closure's Owned/Borrowing result", "rand::rng() returns a live thread-local generator handle", "uecfacts driver + uecheck rule engine"],
    "assumptions": [],
    "not_decided": ["rayon scheduling internals; independence of children as a statistical statement"],
}

G = "ec_core::generation::Generation::<P, C>::"
GADT = "ec_core::generation::Generation"


def check_step(ctx, name, par):
    F = ctx.F
    f = ctx.fn(G + name)
    at = f.at()
    paths = [p for p in ctx.paths(f) if p.end != "unreachable"]
    pol = None
    for p in paths:
        for c in p.calls():
            if callee_is(c, "polonius_the_crab::polonius"):
                pol = c
    if pol is None:
        ctx.bad("R09.2", name + "/polonius-call-missing", "expected the polonius! workaround call", at)
        return
    # ---- R09.2 outer function ------------------------------------------------
    wrote = 0
    for p in paths:
        d = [c for c in p.conds if c[0] == ("discr", pol)]
        writes = [e for e in p.events if e[0] == "write"]
        popw = [e for e in writes if any(x[0] == "field" and x[2] == "population" for x in subexprs(e[1]))]
        if d and d[0][1] == 1:      # Owned
            ok = len(popw) == 1 and len(writes) == 1 and popw[0][2] == ("field", pol, "value", "Owned") and \
                match(popw[0][1], Field(Through(Field(lambda e: e == pol, "input_borrow", "Owned")), "population")) and match(p.ret, Agg("Result::Ok", ANY))
            wrote += 1 if ok else 0
            ctx.check(ok, "R09.2", name + "/success-arm-assigns-collected-population", "write %s := %s" % (short(popw[0][1], 4), short(popw[0][2], 3)) if popw else "no write", at,
                      bad_detail="on the success (Owned) arm the population must be replaced exactly once by the collected value; writes: " + "; ".join("%s := %s" % (short(e[1], 4), short(e[2], 4)) for e in writes))
        else:
            ok = not writes and callee_is(p.ret, "return_no_break") and d and d[0][1] == 0
            ctx.check(ok, "R09.2", name + "/error-arm-returns-without-write", short(p.ret, 4), at,
                      bad_detail="on the error (Borrowing) arm nothing may be written and the residual must be returned; writes %d, ret %s" % (len(writes), short(p.ret, 5)))
    ctx.check(wrote == 1, "R09.2", name + "/exactly-one-success-arm", "%d" % wrote, at)
    # ---- the polonius closure ---------------------------------------------------
    clo = pol[3][1]
    ctx.check(peel(pol[3][0], ()) == ("param", 1), "R09.2", name + "/polonius-on-self", short(pol[3][0]), at)
    cps = [q for q in closure_paths(ctx, clo) if q.end != "unreachable"] if clo[0] == "agg" else []
    pop = lambda e: match(e, Through(Field(Through(CParam(2)), "population")))
    if par:
        src = Call("iter::repeatn", pop, Call("Population::size", pop, nargs=1), nargs=2)
        mapped = Call("ParallelIterator::map_init", src, lambda e: e[0] == "fnitem" and path_ends(e[1], "rand::rng"), Bind("worker"), nargs=3)
        coll = Bind("coll", Call("ParallelIterator::collect", mapped, nargs=1))
    else:
        src = Call("iter::repeat_n", pop, Call("Population::size", pop, nargs=1), nargs=2)
        mapped = Call("Iterator::map", src, Bind("worker"), nargs=2)
        coll = Bind("coll", Call("Iterator::collect", mapped, nargs=1))
    okc = [q for q in cps if callee_is(q.ret, "PoloniusResult::Owned")]
    erc = [q for q in cps if not callee_is(q.ret, "PoloniusResult::Owned")]
    b = {}
    good = len(okc) == 1 and match(okc[0].ret, Call("PoloniusResult::Owned", Field(Call("Try::branch", coll, nargs=1), 0, "Ok"), nargs=1), b)
    ctx.check(good, "R09.1", name + "/children=repeat(&population,size(population)).map.collect", short(okc[0].ret, 7)[:300] if okc else "-", at,
              bad_detail="expected Owned(ok(collect(map(repeat_n(&self.population, self.population.size()), worker)))); extracted " + "; ".join(short(q.ret, 9) for q in cps))
    if good:
        q = okc[0]
        n_coll = len([c for c in q.calls() if callee_is(c, "Iterator::collect", "ParallelIterator::collect")])
        n_map = len([c for c in q.calls() if callee_is(c, "Iterator::map", "ParallelIterator::map_init", "ParallelIterator::map")])
        extra = [c for c in q.calls() if not callee_is(c, "Population::size", "iter::repeat_n", "iter::repeatn", "Iterator::map", "ParallelIterator::map_init", "Iterator::collect", "ParallelIterator::collect", "Try::branch", "PoloniusResult::Owned")]
        ctx.check(n_coll == 1 and n_map == 1 and not extra, "R09.1", name + "/mapped-once-collected-once-no-other-adaptor", "collect x%d, map x%d" % (n_coll, n_map), at,
                  bad_detail="extra calls: " + ", ".join(short(c, 3) for c in extra))
        cond_ok = len(q.conds) == 1 and q.conds[0][1] == 0
        ctx.check(cond_ok, "R09.2", name + "/Owned-only-on-collect-Ok-edge", cond_str(q)[:200], at)
        # result type of the collect
        term = F.fns[b["coll"][4][-2]].blocks[b["coll"][4][-1]]["term"]
        tys = [a.get("s", "") for a in term.get("targs", [])]
        ctx.check(any(s.startswith("std::result::Result<") for s in tys), "R09.2", name + "/collect-into-Result", "; ".join(tys)[:160], at)
        # worker closure
        w = b["worker"]
        wps = closure_paths(ctx, w) if w[0] == "agg" and w[1] == "closure" else None
        wfn = F.fns.get(w[2]) if w[0] == "agg" else None
        if wps and wfn and len(wps) == 1:
            r = wps[0].ret
            if par:
                # |rng, p| child_maker.apply(p, rng)
                okw = match(r, Call("Operator::apply", ANY, CParam(3), CParam(2), nargs=3)) and mentions(r[3][0], ("cparam", 2, clo[2]))
                cm = r[3][0] if r[0] == "call" else None
            else:
                okw = match(r, Call("Operator::apply", ANY, CParam(2), ANY, nargs=3))
                cm = r[3][0] if r[0] == "call" else None
            cm_ok = cm is not None and match(cm, Through(Field(Through(CParam(2)), "child_maker")))
            ctx.check(okw and cm_ok and len(wps[0].calls()) == 1, "R09.3", name + "/worker=child_maker.apply(repeated-&population,rng)", short(r, 5), at,
                      bad_detail="worker closure must be exactly self.child_maker.apply(p, rng) with p its own (repeated) argument; extracted " + short(r, 7))
            # R09.4 rng provenance
            if par:
                rarg = r[3][2] if r[0] == "call" else None
                ctx.check(rarg is not None and rarg[:2] == ("cparam", 2) and rarg[2] == w[2], "R09.4", name + "/worker-rng=map_init-state", short(rarg) if rarg else "-", at)
                ctx.check(wfn.locals[2]["ty"].get("k") == "refmut", "R09.4", name + "/rng-passed-by-&mut", wfn.locals[2]["ty"]["s"], at)
            else:
                rarg = r[3][2] if r[0] == "call" else None
                live = rarg is not None and match(rarg, Through(Call("rand::rng", nargs=0)))
                ctx.check(live, "R09.4", name + "/rng=rand::rng()-of-this-step-by-&mut", short(rarg, 4) if rarg else "-", at,
                          bad_detail="the rng given to apply must be a mutable borrow of the rand::rng() created in this step; extracted " + (short(rarg, 6) if rarg else "-"))
                n_rng = len({c[4] for p in paths for c in p.calls() if callee_is(c, "rand::rng")})
                ctx.check(n_rng == 1, "R09.4", name + "/one-rand::rng()-per-step", "%d call site(s)" % n_rng, at)
                caps = [c for c in wfn.captures if c["var"].startswith("rng")]
                ctx.check(len(caps) == 1 and caps[0]["by_ref"], "R09.4", name + "/rng-captured-by-reference", str([(c["var"], c["by_ref"]) for c in wfn.captures]), at)
            # captures are shared refs (besides the rng)
            bad_caps = [c for c in wfn.captures if not c["var"].startswith("rng") and not (c["by_ref"] or c["ty"].get("k") == "ref")]
            ctx.check(not bad_caps, "R09.3", name + "/worker-captures-shared-refs-only", str([(c["var"], c["ty"]["s"], c["by_ref"]) for c in wfn.captures]), at)
        else:
            ctx.bad("R09.3", name + "/worker-closure-not-analysable", "map argument is not a single-path closure", at)
    for q in erc:
        ok = any(callee_is(x, "Residual::with_output") for x in subexprs(q.ret)) and q.conds and q.conds[0][1] == 1
        ctx.check(ok, "R09.2", name + "/closure-error-returns-residual", short(q.ret, 4), at)


def check(ctx):
    F = ctx.F
    check_step(ctx, "serial_next", False)
    check_step(ctx, "par_next", True)
    from .common import check_population_size
    check_population_size(ctx, "R09.1")
    for name in ("population", "into_population"):
        g = ctx.fn(G + name)
        ps = return_paths(ctx.paths(g))
        r = peel(ps[0].ret, ()) if len(ps) == 1 else ("unknown",)
        ctx.check(r[0] == "field" and r[2] == "population" and peel(r[1], ()) == ("param", 1) and not ps[0].calls(), "R09.2", "Generation::%s-returns-the-population-field" % name, short(ps[0].ret) if ps else "-", g.at())
    # ---- who may write Generation.population -------------------------------------
    writers = set()
    for fn in F.fns.values():
        for bb in fn.blocks:
            for st in bb["stmts"]:
                if st["k"] != "assign":
                    continue
                for e in st["lhs"]["p"]:
                    if isinstance(e, dict) and e.get("adt") == GADT and e.get("name") == "population":
                        writers.add(fn.id)
                rv = st["rv"]
                if rv["k"] == "ref" and rv["mut"]:
                    for e in rv["place"]["p"]:
                        if isinstance(e, dict) and e.get("adt") == GADT and e.get("name") == "population":
                            writers.add(fn.id + " (&mut borrow)")
                if rv["k"] == "agg" and rv.get("adt") == GADT:
                    writers.add(fn.id + " (constructs)")
    allowed = {G + "serial_next", G + "par_next", "ec_core::generation::Generation::<P, C>::new (constructs)"}
    # a private setter (not `pub`, an inherent method of Generation) that only the two step functions call is part of them: the
    # walker sees through it, so the step rules above judge the write at the call (value written, success arm only)
    from .graph import CallGraph as _CG
    cg = _CG(F)
    steps = {G + "serial_next", G + "par_next"}
    for w in sorted(writers - allowed):
        fnw = F.fns.get(w)
        if fnw is None or fnw.j.get("pub") or fnw.j.get("parent") != "ec_core::generation::Generation<P, C>":
            continue
        callers = {fid for fid in F.fns if fid != w and w in cg.edges(fid)}
        roots = set()
        for c in callers:
            r = F.fns[c]
            while r.is_closure and r.parent in F.fns:
                r = F.fns[r.parent]
            roots.add(r.id)
        # (no caller at all: the step functions that called it were shown equivalent to their reference bodies and are analysed
        # through those - the setter is then unreachable in the analysed program)
        if roots <= steps and F.inline_paths(w, 0) is not None:
            allowed = allowed | {w}
    ctx.check(writers <= allowed and len(writers & {G + "serial_next", G + "par_next", "ec_core::generation::Generation::<P, C>::new (constructs)"} | (writers - steps)) >= 1 and
              "ec_core::generation::Generation::<P, C>::new (constructs)" in writers, "R09.2", "who-may-write/population", str(sorted(writers)), None,
              bad_detail="Generation.population may be written only by new, serial_next, par_next; writers found: %s" % sorted(writers - allowed))
    # ---- R09.3 no interior mutability --------------------------------------------
    adt = F.adts.get(GADT)
    bad = [fld["name"] for fld in adt["variants"][0]["fields"] if ty_mentions(fld["ty"], INTERIOR)] if adt else ["<missing>"]
    ctx.check(adt is not None and not bad and [x["name"] for x in adt["variants"][0]["fields"]] == ["population", "child_maker"] and all(not x["pub"] for x in adt["variants"][0]["fields"]),
              "R09.3", "Generation/private-plain-fields", str([(x["name"], x["ty"]["s"]) for x in adt["variants"][0]["fields"]]) if adt else "-")
    f = ctx.fn("ec_core::generation::Generation::<P, C>::new")
    ps = return_paths(ctx.paths(f))
    ctx.check(len(ps) == 1 and match(ps[0].ret, Agg("Generation::Generation", Param(2), Param(1))), "R09.3", "Generation::new-stores-(population,child_maker)", short(ps[0].ret), f.at())
    # ---- R09.5 bounds ---------------------------------------------------------------
    f = ctx.fn(G + "par_next")
    preds = f.preds      # includes the predicates of the enclosing impl block

    def has(param, trait):
        return any(p.get("trait") == trait and p.get("self", {}).get("k") == "param" and p["self"].get("name") == param for p in preds)
    for param in ("P", "C"):
        ctx.check(has(param, "std::marker::Sync") and has(param, "std::marker::Send"), "R09.5", "par_next/%s:Send+Sync" % param, "impl where-clause", f.at(),
                  bad_detail="the impl providing par_next must bound %s by Send + Sync" % param)
    # no unsafe in ec_core
    ctx.check(not [u for u in F.unsafe if u["crate"] == "ec_core"], "R09.3", "no-unsafe-in-ec_core", "0 unsafe uses")
