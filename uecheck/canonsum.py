"""Canonical summaries of function bodies and the reference-equivalence step.

`summary(fn, F)` turns the canonical paths of a function (canon.py: std Option/Result/bool combinators unfolded,
closures and small workspace helpers inlined) into a value that does not depend on how the body is spelled:

  * per path: the *set* of normalised branch conditions, the *sequence* of effectful events (calls that may draw
    randomness, mutate through a `&mut`, or are not known to be pure; writes; may-panic asserts), the normalised
    result expression and the way the path ends (return / diverge / loop back);
  * expressions are normalised by sound rewrites only: references and auto-derefs dropped, identity conversions
    dropped, comparisons oriented (`a >= b`, `!(a < b)` and `b <= a` are one relation), `x.len()` of a Vec and of
    its slice identified, numeric NonZero/Into conversions identified, call sites replaced by the ordinal of the
    call among the path's effectful events (two draws stay two draws, in order), closures replaced by the
    summary of their body;
  * the summary is the set of such paths.

Two bodies with equal summaries perform the same effectful calls with the same arguments in the same order under
the same conditions and produce the same results: they are the same function for every rule in this framework.

Reference equivalence.  /verif/reference holds the fact files of the tree on which every rule was confirmed by
hand (the pinned tree plus the six `fix:` commits).  When a function of the tree under analysis differs textually
from its reference version but has the *same canonical summary*, the rules are evaluated on the reference body
instead: a behaviour-preserving respelling (combinator chain vs `match`, `?` vs `let else`, helper or closure
extracted or inlined, flipped comparison, early return vs nesting) cannot raise an alarm.  The step only ever
*replaces a body by an equivalent one*; whenever the summaries differ - any change in conditions, effects, their
order, arguments or results - the current body is analysed as before.  Nothing is ever accepted because of its
text, and nothing is reported by this step.
"""
import gzip
import hashlib
import json
import os

from . import sym
from .pat import callee_is, path_ends

import re
_CLO = re.compile(r"\{closure@[^}]*\}")
_BARE = re.compile(r"(?<![:\w'])[A-Z]\w*(?:::\w+)*")
_PROJ = re.compile(r"<_ as [\w:]+(?:<[^<>]*>)?>::\w+(?=[,>\]\)\s;+])")
_LIFE = re.compile(r"'\w+\s*")
_NF = {}


def normfull(full):
    """callee path with its generic arguments, made independent of where it was written: closure types lose their source
    position, lifetimes are dropped, bare type-parameter names (`R`, `P`, `Input`, `Self`) become `_` (a helper's own
    parameter names differ from its caller's); concrete arguments (`::<i64>`, `::<2>`, `OrderedFloat<f64>`) stay"""
    r = _NF.get(full)
    if r is None:
        r = _CLO.sub("{closure}", full)
        r = _LIFE.sub("", r)
        _NF[full] = r
    return r

REFDIR = os.path.join(os.path.dirname(os.path.dirname(os.path.abspath(__file__))), "reference")

# calls whose result depends only on their arguments and that change nothing (std accessors, conversions, comparisons,
# checked arithmetic, constructors of empty collections).  Everything else is treated as effectful (order kept).
PURE = (
    "Vec::len", "[T]::len", "Vec::is_empty", "[T]::is_empty", "[T]::get", "[T]::first", "[T]::last", "[T]::split_first", "[T]::split_last", "[T]::iter",
    "Vec::as_slice", "Deref::deref", "AsRef::as_ref", "Borrow::borrow", "Clone::clone", "ToOwned::to_owned", "Option::copied", "Option::cloned",
    "Ord::cmp", "PartialOrd::partial_cmp", "PartialEq::eq", "PartialEq::ne", "PartialOrd::lt", "PartialOrd::le", "PartialOrd::gt", "PartialOrd::ge",
    "Ordering::reverse", "Ordering::then", "Ord::min", "Ord::max", "Ord::clamp",
    "Into::into", "From::from", "TryInto::try_into", "TryFrom::try_from", "NonZero::get", "NonZero::new",
    "usize::checked_add", "usize::checked_sub", "usize::checked_mul", "usize::saturating_add", "usize::saturating_sub", "u32::checked_add",
    "i64::checked_add", "i64::checked_sub", "i64::checked_mul", "i64::checked_div", "i64::checked_rem", "i64::checked_pow", "i64::saturating_neg", "i64::saturating_abs",
    "i64::checked_neg", "i64::checked_abs", "i64::wrapping_add", "i64::min", "i64::max",
    "Vec::new", "Vec::with_capacity", "any::type_name", "PhantomData", "Default::default",
    "IntoIterator::into_iter", "Iterator::rev", "Iterator::map", "Iterator::take", "Iterator::skip", "Iterator::enumerate", "Iterator::zip", "Iterator::cloned", "Iterator::copied",
    "Iterator::filter", "Iterator::flat_map", "Iterator::flatten", "Iterator::chain", "iter::repeat_n", "iter::repeat_with", "iter::repeatn",
    "Iterator::max", "Iterator::min", "Iterator::collect", "Iterator::sum", "Iterator::count", "ExactSizeIterator::len",
    "Population::size", "Linear::size", "Stack::size", "Stack::is_full", "Stack::is_empty", "Stack::max_stack_size", "Stack::top", "Stack::top2", "Stack::top3",
    "Individual::test_results", "Individual::genome", "WithWeight::weight", "NumOpens::num_opens", "HasStack::stack", "ChoicesDistribution::num_choices",
    "Bernoulli::from_ratio", "Uniform::new", "Uniform::new_inclusive", "Choose::new", "Range", "RangeInclusive::new", "Arguments::new", "Arguments::new_const",
)
COMMUTATIVE = ("usize::checked_add", "usize::checked_mul", "usize::saturating_add", "usize::wrapping_add", "u32::checked_add", "u32::saturating_add",
               "i64::checked_add", "i64::checked_mul", "i64::wrapping_add", "i64::saturating_add", "Ord::min", "Ord::max", "i64::min", "i64::max")
LAZY = ("IntoIterator::into_iter", "[T]::iter", "Iterator::rev", "Iterator::map", "Iterator::take", "Iterator::skip", "Iterator::enumerate", "Iterator::zip", "Iterator::cloned",
        "Iterator::copied", "Iterator::filter", "Iterator::flat_map", "Iterator::flatten", "Iterator::chain", "iter::repeat_n", "iter::repeat_with", "iter::repeatn",
        "IntoParallelIterator::into_par_iter", "ParallelIterator::map_init", "ParallelIterator::map", "Distribution::sample_iter")
CONSUMERS = ("Iterator::collect", "Iterator::sum", "Iterator::count", "Iterator::max", "Iterator::min", "Iterator::last", "Iterator::fold", "Iterator::for_each",
             "Iterator::try_for_each", "Iterator::all", "Iterator::any", "Iterator::find", "Iterator::position", "ParallelIterator::collect", "FromIterator::from_iter")
# (Extend::extend / Vec::extend consume an iterator too, but they change their receiver: always an effect)
TRANSPARENT = ("Deref::deref", "DerefMut::deref_mut", "Vec::as_slice", "Vec::as_mut_slice", "Borrow::borrow", "BorrowMut::borrow_mut")
NUMCONV = ("NonZero::get",)
SWAP = {"Gt": "Lt", "Ge": "Le"}
NEG = {"Lt": "Ge", "Ge": "Lt", "Gt": "Le", "Le": "Gt", "Eq": "Ne", "Ne": "Eq"}
TWO_VARIANT = {("std::option::Option", 0): 1, ("std::option::Option", 1): 0}


# field names of the few external enum variants the canonical models build (their ADTs are not in the workspace facts)
EXTERNAL_FIELDS = {"polonius_the_crab::PoloniusResult::Owned": ["value", "input_borrow"]}


def raw_sig(fn):
    """hash of the MIR body without source positions (equal => textually the same body)"""
    def scrub(o):
        if isinstance(o, dict):
            return {k: scrub(v) for k, v in o.items() if k not in ("span", "fn_span", "at")}
        if isinstance(o, list):
            return [scrub(x) for x in o]
        return o
    j = fn.j
    core = {"blocks": scrub(j["blocks"]), "locals": [l.get("ty", {}).get("s") for l in j["locals"]], "argc": j["argc"], "promoted": scrub(j.get("promoted"))}
    return hashlib.sha1(json.dumps(core, sort_keys=True).encode()).hexdigest()


class Summariser:
    def __init__(self, F):
        self.F = F
        self.cache = {}
        self.busy = set()
        self.upenv = None
        self.order = {}
        self.clo_cache = {}
        self.cur_fn = None
        self.cparams = None
        self._mentions_ignored = False

    def of(self, fn):
        if fn.id in self.cache:
            return self.cache[fn.id]
        if fn.id in self.busy:
            return ("recursive", fn.id)
        self.busy.add(fn.id)
        saved_fn = self.cur_fn
        self.cur_fn = fn
        try:
            w = sym.Walker(fn, self.F, canon=True, keep_env=True)
            w.inline_all = True
            paths = w.run()
        except sym.PathLimit:
            self.cur_fn = saved_fn
            self.busy.discard(fn.id)
            self.cache[fn.id] = ("too-many-paths", fn.id, raw_sig(fn))
            return self.cache[fn.id]
        out = set()
        for p in paths:
            if p.end == "unreachable":
                continue
            out.add(self.path_key(p))
        out.discard(("infeasible",))
        out = merge_dont_care(out)
        self.busy.discard(fn.id)
        self.cur_fn = saved_fn
        res = (fn.argc, frozenset(out))
        self.cache[fn.id] = res
        return res

    def closure_body(self, cf, caps, params=None, gmap=None):
        """digest of a closure body with its captured variables replaced by the (canonical) captured values (and, when
        given, its parameters by `params`)"""
        key = (cf.id, repr(caps), repr(params), repr(gmap))
        if key in self.clo_cache:
            return self.clo_cache[key]
        if key in self.busy:
            return ("recursive", cf.id)
        self.busy.add(key)
        saved = (self.upenv, self.order)
        saved_params = self.cparams
        self._mentions_ignored = False
        try:
            self.cparams = {i + 2: v for i, v in enumerate(params)} if params is not None else None
            w = sym.Walker(cf, self.F, canon=True, keep_env=True)
            w.inline_all = True
            saved_fn = self.cur_fn
            self.cur_fn = cf
            try:
                paths = w.run()
            except sym.PathLimit:
                return ("too-many-paths", cf.id, raw_sig(cf))
            out = set()
            for p in paths:
                if p.end == "unreachable":
                    continue
                if gmap:
                    p = sym.subst_generics_path(p, dict(gmap))
                self.upenv = caps
                out.add(self.path_key(p))
            out.discard(("infeasible",))
            out = merge_dont_care(out)
            txt = repr(sorted(map(repr, out)))
            self._mentions_ignored = "ignored-element" in txt
            r = hashlib.sha1(txt.encode()).hexdigest()
        finally:
            self.upenv, self.order = saved
            self.cparams = saved_params
            self.cur_fn = saved_fn if 'saved_fn' in dir() else self.cur_fn
            self.busy.discard(key)
        self.clo_cache[key] = r
        return r

    def digest(self, fn):
        return hashlib.sha1(repr(sorted(map(repr, self.of(fn)[1])) if isinstance(self.of(fn)[1], frozenset) else self.of(fn)).encode()).hexdigest()

    # ---- paths ------------------------------------------------------------------------------------------
    def path_key(self, p):
        upenv = self.upenv
        # 1. effectful events in program order
        raw = []
        for e in p.events:
            if e[0] == "call":
                if self.is_pure(devirt(e[1])):
                    continue
                raw.append(e)
            elif e[0] in ("write", "assert", "setdiscr"):
                raw.append(e)
        # 2. adjacent calls that provably commute (disjoint &mut places, no data dependency) are put in a canonical order
        self.order = {}
        self.upenv = upenv
        keys = [repr(self.ex(e[1])) if e[0] == "call" else None for e in raw]
        changed = True
        rounds = 0
        while changed and rounds < 50:
            changed = False
            rounds += 1
            for i in range(len(raw) - 1):
                a, b = raw[i], raw[i + 1]
                if a[0] == "call" and b[0] == "call" and keys[i] > keys[i + 1] and commute(a[1], b[1], self.mut_root):
                    raw[i], raw[i + 1] = b, a
                    keys[i], keys[i + 1] = keys[i + 1], keys[i]
                    changed = True
        # 3. number the effectful calls in that order and normalise
        self.order = {}
        for e in raw:
            if e[0] == "call":
                self.order[e[1][4]] = len(self.order)
        evs = []
        for e in raw:
            self.upenv = upenv
            if e[0] == "call":
                evs.append(("call", self.ex(e[1])))
            elif e[0] == "write":
                evs.append(("write", self.ex(e[1]), self.ex(e[2])))
            elif e[0] == "assert":
                evs.append(("assert", e[1], tuple(self.ex(o) for o in e[4])))
            elif e[0] == "setdiscr":
                evs.append(("setdiscr", self.ex(e[1]), e[2]))
        conds = set()
        for c in p.conds:
            self.upenv = upenv
            k = self.cond(c)
            if k is not None:
                conds.add(k)
        # when, relative to the effects of this path, each condition was evaluated (two tests of `v.len()` separated by a
        # push are tests of different values and must not be combined)
        rawset = {id(e) for e in raw}
        epoch_of = {}
        before = []          # root sets of the effects seen so far (None: relevant to everything)
        for e in p.events:
            if id(e) in rawset:
                self.upenv = upenv
                if e[0] != "call":
                    before.append(None)
                elif callee_is(e[1], "DerefMut::deref_mut", "Deref::deref", "Vec::as_mut_slice", "Vec::as_slice", "AsMut::as_mut", "AsRef::as_ref", "BorrowMut::borrow_mut", "Borrow::borrow") and \
                        (e[1][2] or "").startswith(("<std::vec::Vec<", "std::vec::Vec::<", "<std::boxed::Box<", "<[", "<&")):
                    pass          # handing out a reference to a std container changes nothing; what is done through it is an effect of its own
                elif isinstance(e[1][2], str) and (e[1][2].startswith("<[") or e[1][2].startswith("core::slice::<impl [") or e[1][2].startswith("std::slice::<impl [")) and not e[1][2].startswith("<[closure"):
                    before.append(("slice", roots_of(self.ex(e[1]))))      # a method of a slice `[T]`: cannot change any length, only elements
                else:
                    before.append(roots_of(self.ex(e[1])))
            elif e[0] == "cond":
                self.upenv = upenv
                k = self.cond((e[1], e[2], None))
                if k is not None:
                    tr = roots_of(k)
                    only_len = k[0] == "rel" and all(stable_term(t) or (isinstance(t, tuple) and t and t[0] == "len") for t in k[2:4])
                    ep = 0
                    for b in before:
                        if b is None:
                            ep += 1
                        elif isinstance(b, tuple) and b and b[0] == "slice":
                            if not only_len and (b[1] & tr):
                                ep += 1
                        elif b & tr:
                            ep += 1
                    epoch_of.setdefault(k, set()).add(ep)
        conds = consolidate_discr(conds)
        if conds is not None:
            conds = int_bounds(conds, epoch_of)
        if conds is None or contradictory(conds, epoch_of):
            return ("infeasible",)
        end = "loop" if p.end.startswith("loop:") else p.end
        self.upenv = upenv
        carried = ()
        if end == "loop" and p.env is not None and self.cur_fn is not None:
            # loop-carried state: what the user-visible variables that are live at the loop header hold when control
            # goes round again (per-iteration temporaries are not live there)
            from . import cfg
            fn = self.cur_fn
            try:
                hdr = int(p.end.split(":", 1)[1])
                key = ("live", fn.id, hdr)
                lv = self.clo_cache.get(key)
                if lv is None:
                    lv = cfg.live_in(fn, hdr)
                    self.clo_cache[key] = lv
            except Exception:
                lv = None
            names = {}
            for d in fn.debug:
                pl = d["place"]
                if not pl["p"]:
                    names[pl["l"]] = d["name"]
            vs = []
            for l, v in p.env.items():
                if isinstance(l, int) and l in names and (lv is None or l in lv):
                    vs.append((names[l], repr(self.ex(v))))
            carried = tuple(sorted(vs))
        # generic instantiations that were seen through: a helper called as helper::<i64>() / of_size::<2>() is not the
        # same as helper::<bool>() / of_size::<3>() although the inlined bodies look alike
        insts = []
        for e in p.events:
            if e[0] == "inlined" and len(e) > 4 and e[4]:
                insts.append(e[4])
        return (tuple(sorted(map(repr, conds))), tuple(map(repr, evs)), repr(self.ex(p.ret)) if p.ret is not None else None, end, carried, tuple(sorted(insts)))

    def mut_root(self, root):
        """may the bare parameter `root` be a `&mut` (so that passing it on lets the callee mutate through it)?"""
        fn = self.cur_fn
        if fn is None or root[0] != "param" or not isinstance(root[1], int) or root[1] >= len(fn.locals):
            return True
        ty = fn.locals[root[1]]["ty"].get("s", "")
        return ty.startswith("&mut") or not ty or ty[:1].isupper()      # a generic T may itself be a &mut

    def closure_effectful(self, a):
        cf = self.F.fns.get(a[2])
        if cf is None:
            return True
        s = self.of(cf)
        if not isinstance(s[1], frozenset):
            return True
        return any(pk[1] for pk in s[1])

    def has_effectful_closure(self, e):
        for x in sym.subexprs(e):
            if isinstance(x, tuple) and x and x[0] == "call" and x[1] in ("rand::distr::Distribution::sample_iter", "rand::Rng::sample_iter", "rand::Rng::random_iter"):
                return True          # an iterator that draws from a generator each time it is advanced
            if isinstance(x, tuple) and x and x[0] == "agg" and x[1] == "closure" and self.closure_effectful(x):
                return True
            if isinstance(x, tuple) and x and x[0] == "fnitem":
                return True          # a function item handed to an adaptor: not known to be pure
        return False

    def is_pure(self, c):
        if c[1] is None:
            return False
        if callee_is(c, *LAZY):
            return True              # building a lazy iterator does nothing; what it does happens where it is consumed
        if callee_is(c, *CONSUMERS):
            return not self.has_effectful_closure(c)
        if callee_is(c, *PURE):
            return not any(isinstance(a, tuple) and sym.strip_refs(a)[:2] == ("agg", "closure") and self.closure_effectful(sym.strip_refs(a)) for a in c[3])
        return False

    def rep(self, e):
        """n-fold repetition of one computation, however the iterator is spelled: repeat_n(x, n).map(f), repeat_with(f).take(n),
        (0..n).map(|_| f) and the rayon forms repeatn(x, n).map_init(i, f), (0..n).into_par_iter().map_init(i, f)"""
        IGN = ("ignored-element",)
        def clo(a):
            a = sym.strip_refs(a)
            return a if (isinstance(a, tuple) and a[:2] == ("agg", "closure") and a[2] in self.F.fns) else None
        def body(c, params):
            return self.closure_body(self.F.fns[c[2]], tuple(self.ex(x) for x in c[3]), params, c[4] if len(c) > 4 else None)
        def range0(a):
            a = sym.strip_refs(a)
            if callee_is(a, "IntoIterator::into_iter", "IntoParallelIterator::into_par_iter") and len(a[3]) == 1:
                a = sym.strip_refs(a[3][0])
            if a[0] == "agg" and a[2].endswith("Range::Range") and len(a[3]) == 2 and a[3][0][0] == "const" and a[3][0][3] == 0:
                return a[3][1]
            return None
        if callee_is(e, "Iterator::map") and len(e[3]) == 2 and clo(e[3][1]):
            src = sym.strip_refs(e[3][0])
            if callee_is(src, "iter::repeat_n") and len(src[3]) == 2:
                return ("rep", self.ex(src[3][1]), body(clo(e[3][1]), (self.ex(src[3][0]),)))
            n = range0(src)
            if n is not None:
                b = body(clo(e[3][1]), (IGN,))
                if b is not None and not self._mentions_ignored:
                    return ("rep", self.ex(n), b)
        if callee_is(e, "Iterator::take") and len(e[3]) == 2:
            src = sym.strip_refs(e[3][0])
            if src[0] == "call" and src[1] == "rand::distr::Distribution::sample_iter" and len(src[3]) == 2:
                # distr.sample_iter(rng).take(n): n times distr.sample(rng) - the body a closure `|| distr.sample(rng)` has
                from .canon import _as_parts
                pp = _as_parts(src[2] or "")
                if not (pp and len(pp[2]) == 1):
                    return None
                call = ("call", "rand::distr::Distribution::sample->" + normfull(pp[2][0]), (self.ex(src[3][0]), self.ex(src[3][1])), 0)
                key = ((), (repr(("call", call)),), repr(call), "return", (), ())
                return ("rep", self.ex(e[3][1]), hashlib.sha1(repr(sorted([repr(key)])).encode()).hexdigest())
            if callee_is(src, "iter::repeat_with") and len(src[3]) == 1 and clo(src[3][0]):
                return ("rep", self.ex(e[3][1]), body(clo(src[3][0]), ()))
        if callee_is(e, "ParallelIterator::map_init") and len(e[3]) == 3 and clo(e[3][2]):
            src = sym.strip_refs(e[3][0])
            init = self.ex(e[3][1])
            if callee_is(src, "iter::repeatn", "iter::repeat_n") and len(src[3]) == 2:
                return ("prep", self.ex(src[3][1]), init, body(clo(e[3][2]), (("worker-state",), self.ex(src[3][0]))))
            n = range0(src)
            if n is not None:
                b = body(clo(e[3][2]), (("worker-state",), IGN))
                if b is not None and not self._mentions_ignored:
                    return ("prep", self.ex(n), init, b)
        return None

    def cond(self, c):
        e, v = c[0], c[1]
        if e[0] == "const":
            return None
        truth = None
        if isinstance(v, tuple) and v and v[0] == "not":
            if set(v[1]) == {0}:
                truth = True
        elif v == 0:
            truth = False
        if e[0] == "discr":
            o = self.ex(e[1])
            if isinstance(v, tuple) and v and v[0] == "not":
                return ("discr-not", o, tuple(sorted(v[1])))
            return ("discr", o, v)
        # boolean-valued conditions: orient comparisons
        t = truth if truth is not None else (v != 0 if not isinstance(v, tuple) else None)
        while e[0] == "unop" and e[1] == "Not" and t is not None:
            e = e[2]
            t = not t
        if e[0] == "binop" and e[1] in NEG and t is not None:
            op, a, b = e[1], self.ex(e[2]), self.ex(e[3])
            if not t:
                op = NEG[op]
            if op in SWAP:
                op, a, b = SWAP[op], b, a
            if op in ("Eq", "Ne") and repr(a) > repr(b):
                a, b = b, a
            if op in ("Eq", "Ne") and a == ("int", 0) and isinstance(b, tuple) and b and b[0] == "rel?":
                pass
            return ("rel", op, a, b)
        def eqne(op, a, b):
            if repr(a) > repr(b):
                a, b = b, a
            return ("rel", op, a, b)
        if t is not None:
            return eqne("Ne" if t else "Eq", ("int", 0), self.ex(e))
        if isinstance(v, int):
            return eqne("Eq", ("int", v), self.ex(e))
        if isinstance(v, tuple) and v and v[0] == "not" and len(v[1]) == 1:
            return eqne("Ne", ("int", v[1][0]), self.ex(e))
        return ("switch", self.ex(e), repr(v))

    # ---- expressions ----------------------------------------------------------------------------------------
    def ex(self, e):
        if not isinstance(e, tuple) or not e:
            return e
        t = e[0]
        if t in ("ref", "deref"):
            return self.ex(e[1])
        if t == "upvar":
            if self.upenv is not None and isinstance(e[2], int) and e[2] < len(self.upenv):
                return self.upenv[e[2]]
            return ("upvar", e[1])
        if t == "param" and self.cparams is not None and self.upenv is not None and e[1] in self.cparams:
            return self.cparams[e[1]]
        if t == "param" or t == "cparam":
            return e[:2]
        if t == "const":
            if isinstance(e[3], int) and not isinstance(e[3], bool):
                return ("int", e[3])
            return ("const", e[1], e[2])
        if t == "fnitem":
            return ("fnitem", e[3] or e[1])
        if t == "call":
            e = devirt(e)
            if e[1] is None:
                return ("callv", tuple(self.ex(a) for a in e[3]), self.order.get(e[4]))
            r = self.rep(e)
            if r is not None:
                return r
            if len(e[3]) == 1 and callee_is(e, *TRANSPARENT):
                return self.ex(e[3][0])
            if len(e[3]) == 1 and callee_is(e, "Clone::clone") and (e[2] or "").startswith(("<std::ops::Range", "<usize as", "<u32 as", "<i64 as", "<bool as", "<f64 as", "<f32 as")):
                return self.ex(e[3][0])      # a copy of a plain value is that value
            if len(e[3]) == 1 and callee_is(e, "Vec::len", "[T]::len"):
                return ("len", self.ex(e[3][0]))
            if len(e[3]) == 1 and e[1] in ("std::convert::Into::into", "std::convert::From::from"):
                from .canon import identity_conversion
                if identity_conversion(e[2] or ""):
                    return self.ex(e[3][0])       # <A as Into<A>>::into (known only once a generic helper's parameters are instantiated)
                # a conversion between concrete workspace types (known only once a generic helper is instantiated): what the
                # one `impl From` builds, when that is a plain value (a thiserror-style wrapper)
                from .canon import from_impl_of
                fid = from_impl_of(self.F, e[2] or "")
                if fid is not None and (self.cur_fn is None or fid != self.cur_fn.id):
                    qs = self.F.inline_paths(fid, 0, canon=True, inline_all=True)
                    live = [q for q in (qs or []) if q.end != "unreachable"]
                    if len(live) == 1 and live[0].end == "return" and not live[0].conds and live[0].ret is not None and \
                            not [ev for ev in live[0].events if ev[0] in ("call", "write", "assert", "setdiscr")]:
                        return self.ex(sym.subst_params(live[0].ret, {("param", 1): e[3][0]}))
            if len(e[3]) == 1 and (callee_is(e, *NUMCONV) or callee_is(e, "Into::into", "From::from")):
                return ("conv", self.ex(e[3][0]))
            args = tuple(self.ex(a) for a in e[3])
            if len(args) == 1 and callee_is(e, "TryInto::try_into"):
                from .canon import _as_parts
                pp = _as_parts(e[2] or "")
                if pp and len(pp[2]) == 1:           # <A as TryInto<B>>::try_into(x) is <B as TryFrom<A>>::try_from(x)
                    return ("call", normfull("<%s as std::convert::TryFrom<%s>>::try_from" % (pp[2][0], pp[0])), args, self.order.get(e[4]))
            if callee_is(e, *(LAZY + CONSUMERS)) and (e[2] or "").startswith("<"):
                # the receiver type of an iterator method spells out the whole pipeline: keep trait::method::<generic args>
                from .canon import _as_parts
                pp = _as_parts(e[2])
                depth, close = 0, None
                for i, ch in enumerate(e[2]):
                    if ch == "<":
                        depth += 1
                    elif ch == ">" and i > 0 and e[2][i - 1] == "-":
                        continue          # the arrow of a fn() -> T type
                    elif ch == ">":
                        depth -= 1
                        if depth == 0:
                            close = i
                            break
                if pp and close is not None and e[2][close + 1:close + 3] == "::":
                    return ("call", normfull("%s::%s" % (pp[1], e[2][close + 3:])), args, self.order.get(e[4]))
            if len(args) == 2 and e[1] in ("rand::Rng::sample", "rand::distr::Distribution::sample"):
                # rng.sample(distr) is by definition distr.sample(rng); what identifies the call is the distribution value
                # and the type it yields (one value can implement Distribution<T> for several T)
                from .canon import _as_parts, _split_generic_args
                out_ty = None
                f_ = e[2] or ""
                if e[1] == "rand::distr::Distribution::sample":
                    pp = _as_parts(f_)
                    if pp and len(pp[2]) == 1:
                        out_ty = pp[2][0]
                    d_, r_ = args
                else:
                    k = f_.rfind("::sample::<")
                    if k >= 0:
                        ga = _split_generic_args(f_[k + len("::sample::<"):-1])
                        if ga:
                            out_ty = ga[0]
                    d_, r_ = args[1], args[0]
                if out_ty is not None:
                    return ("call", "rand::distr::Distribution::sample->" + normfull(out_ty), (d_, r_), self.order.get(e[4]))
            if len(args) == 2 and callee_is(e, *COMMUTATIVE):
                args = tuple(sorted(args, key=repr))
            return ("call", normfull(e[2] or e[1]), args, self.order.get(e[4]))
        if t == "len":
            return ("len", self.ex(e[1]))
        if t == "field":
            b = e[1]
            # (a +ovf b).0 in builds with overflow checks is a + b
            if b[0] == "binop" and b[1].endswith("WithOverflow") and e[2] == 0:
                return ("binop", b[1][:-len("WithOverflow")], self.ex(b[2]), self.ex(b[3]))
            sb = sym.strip_refs(b)
            if isinstance(sb, tuple) and sb[:2] == ("agg", "adt") and isinstance(e[2], int) and e[3] is not None and sb[2].rsplit("::", 1)[-1] == e[3] and e[2] < len(sb[3]):
                return self.ex(sb[3][e[2]])          # the payload of an enum value built on this path
            if isinstance(sb, tuple) and sb[:2] in (("agg", "tuple"), ("agg", "array")) and isinstance(e[2], int) and e[2] < len(sb[3]):
                return self.ex(sb[3][e[2]])
            if isinstance(sb, tuple) and sb[:2] == ("agg", "adt") and isinstance(e[2], str) and sb[2] in EXTERNAL_FIELDS and e[2] in EXTERNAL_FIELDS[sb[2]] and \
                    len(sb[3]) == len(EXTERNAL_FIELDS[sb[2]]):
                return self.ex(sb[3][EXTERNAL_FIELDS[sb[2]].index(e[2])])
            if isinstance(sb, tuple) and sb[:2] == ("agg", "adt") and isinstance(e[2], str):
                # a named field of a struct value built on this path (a helper constructed it, the caller takes it apart)
                adt = self.F.adts.get(sb[2].rsplit("::", 1)[0])
                if adt and adt.get("kind") == "struct" and len(adt.get("variants", ())) == 1:
                    names = [fl.get("name") for fl in adt["variants"][0].get("fields", ())]
                    if e[2] in names and len(names) == len(sb[3]):
                        return self.ex(sb[3][names.index(e[2])])
            return ("field", self.ex(b), e[2], e[3])
        if t == "binop":
            a, b = self.ex(e[2]), self.ex(e[3])
            if e[1] in ("Add", "Mul", "BitAnd", "BitOr", "BitXor", "AddWithOverflow", "MulWithOverflow", "Eq", "Ne") and repr(a) > repr(b):
                a, b = b, a
            return ("binop", e[1], a, b)
        if t == "unop":
            return ("unop", e[1], self.ex(e[2]))
        if t == "cast":
            inner = self.ex(e[2])
            if len(e) > 4 and e[4] is not None and normfull(e[4]) == normfull(e[3]):
                return inner            # coercion to the type the value already has
            if isinstance(inner, tuple) and inner and inner[0] == "cast" and inner[2] == e[3]:
                return inner            # a second coercion to the type the value already has
            return ("cast", inner, e[3])
        if t == "agg":
            if e[1] == "closure":
                cf = self.F.fns.get(e[2])
                caps = tuple(self.ex(a) for a in e[3])
                if cf is None:
                    return ("closure", e[2], caps)
                return ("closure", self.closure_body(cf, caps, None, e[4] if len(e) > 4 else None))
            return ("agg", e[1], e[2], tuple(self.ex(a) for a in e[3]))
        if t == "index":
            return ("index", self.ex(e[1]), self.ex(e[2]))
        if t == "subslice":
            return ("subslice", self.ex(e[1])) + tuple(e[2:])
        if t == "discr":
            return ("discr", self.ex(e[1]))
        if t in ("rawptr", "repeat", "proj"):
            return (t,) + tuple(self.ex(x) if isinstance(x, tuple) else x for x in e[1:])
        return e


_WILD = re.compile(r"(::)?<_(?:, _)*>")


def devirt(e):
    """`<fn item as FnOnce/FnMut/Fn>::call*(f, (a, b, ..))` with f a function item is the direct call f(a, b, ..) (what a generic
    helper taking `impl FnOnce` becomes once a function path such as `Into::into` is passed to it and the helper is seen through)"""
    if e[0] == "call" and e[1] in ("std::ops::FnOnce::call_once", "std::ops::FnMut::call_mut", "std::ops::Fn::call") and len(e[3]) == 2:
        f = sym.strip_refs(e[3][0])
        a = e[3][1]
        if isinstance(f, tuple) and f and f[0] == "fnitem" and isinstance(a, tuple) and a[:2] == ("agg", "tuple"):
            return ("call", f[1], f[2] if len(f) > 2 else None, tuple(a[3]), e[4])
    if e[0] == "call" and e[1] == "push::push_vm::stack::HasStack::stack_mut":
        # the trait's contract (and what every rule about the machine state already assumes): `stack_mut::<T>()` is the
        # same stack as `stack::<T>()`, handed out mutably; obtaining the reference does nothing by itself
        return ("call", "push::push_vm::stack::HasStack::stack", (e[2] or "").replace(">::stack_mut::<", ">::stack::<") or None, e[3], e[4])
    return e


def concrete_instantiation(full, fid):
    """normalised callee path when the call site supplies concrete generic arguments (types or constants), else None"""
    if not full:
        return None
    a = _WILD.sub("", normfull(full))
    b = _WILD.sub("", normfull(fid))
    return normfull(full) if a != b else None


def consolidate_discr(conds):
    """tests of one discriminant spelled as a `match` (discr == v / not in {..}) or as comparisons with constants
    (`ord == Greater`, `ord != Less`) are brought to one form; for an Ordering (3 values) a set of such tests is replaced
    by the value it leaves, and a contradictory set makes the path infeasible (None)"""
    by = {}
    rest = set()
    for c in conds:
        o = v = None
        neg = False
        if c[0] == "discr":
            o, v = c[1], [c[2]]
        elif c[0] == "discr-not":
            o, v, neg = c[1], list(c[2]), True
        elif c[0] == "rel" and c[1] in ("Eq", "Ne"):
            for x, y in ((c[2], c[3]), (c[3], c[2])):
                if isinstance(x, tuple) and x and x[0] == "int" and isinstance(y, tuple) and y and y[0] == "discr":
                    o, v, neg = y[1], [x[1]], c[1] == "Ne"
        if o is None:
            rest.add(c)
            continue
        d = by.setdefault(repr(o), {"o": o, "eq": set(), "ne": set()})
        if isinstance(o, tuple) and o and o[0] == "call" and isinstance(o[1], str) and o[1].endswith("std::cmp::Ord>::cmp"):
            v = [(-1 if x == 255 else x) for x in v]       # Ordering::Less is -1i8: a SwitchInt spells it 255
        (d["ne"] if neg else d["eq"]).update(v)
    for d in by.values():
        o = d["o"]
        is_ordering = isinstance(o, tuple) and o and o[0] == "call" and isinstance(o[1], str) and o[1].endswith("std::cmp::Ord>::cmp")
        if len(d["eq"]) > 1:
            return None
        if d["eq"]:
            v = next(iter(d["eq"]))
            if v in d["ne"]:
                return None
            rest.add(("discr", o, v))
            continue
        if is_ordering:
            feas = {-1, 0, 1} - d["ne"]
            if not feas:
                return None
            if len(feas) == 1:
                rest.add(("discr", o, next(iter(feas))))
                continue
        rest.add(("discr-not", o, tuple(sorted(d["ne"]))))
    return rest


def merge_dont_care(keys):
    """Two paths with the same effects, result and exit whose conditions differ in exactly one test, taken one way on the one
    and the other way on the other, are one path without that test: a value that was examined (say by an eagerly evaluated
    `.or(..)`) although nothing depends on it.  Applied until nothing changes, this makes the set of paths independent of
    whether a pure computation is evaluated eagerly or only where it is needed."""
    import ast
    keys = set(keys)
    if len(keys) < 2 or len(keys) > 400:
        return keys
    parsed = {}
    def conds_of(k):
        r = parsed.get(k)
        if r is None:
            try:
                r = frozenset(ast.literal_eval(c) for c in k[0])
            except Exception:
                r = None
            parsed[k] = r
        return r
    # which discriminants are only ever compared with exactly two values (and never by exclusion)
    seen, excl = {}, set()
    for k in keys:
        cs = conds_of(k)
        if cs is None:
            return keys
        for c in cs:
            if c[0] == "discr":
                seen.setdefault(c[1], set()).add(c[2])
            elif c[0] == "discr-not":
                excl.add(c[1])
    def is_int(x):
        return isinstance(x, tuple) and len(x) == 2 and x[0] == "int" and isinstance(x[1], int)
    def eq_(k, t):
        x, y = sorted([("int", k), t], key=repr)
        return ("rel", "Eq", x, y)
    def complement(c):
        if c[0] == "rel" and is_int(c[2]) != is_int(c[3]) and c[1] in ("Le", "Eq"):
            # the forms int_bounds() leaves: k <= t, t <= k, t == k (a length is never negative)
            if c[1] == "Le" and is_int(c[2]):
                k, t = c[2][1], c[3]
                if isinstance(t, tuple) and t and t[0] == "len" and k == 1:
                    return eq_(0, t)
                return ("rel", "Le", t, ("int", k - 1))
            if c[1] == "Le":
                return ("rel", "Le", ("int", c[3][1] + 1), c[2])
            k, t = (c[2][1], c[3]) if is_int(c[2]) else (c[3][1], c[2])
            if isinstance(t, tuple) and t and t[0] == "len" and k == 0:
                return ("rel", "Le", ("int", 1), t)
        if c[0] == "rel":
            if c[1] == "Lt":
                return ("rel", "Le", c[3], c[2])
            if c[1] == "Le":
                return ("rel", "Lt", c[3], c[2])
            if c[1] == "Eq":
                return ("rel", "Ne", c[2], c[3])
            if c[1] == "Ne":
                return ("rel", "Eq", c[2], c[3])
        if c[0] == "discr" and c[1] not in excl and len(seen.get(c[1], ())) == 2:
            other = [v for v in seen[c[1]] if v != c[2]]
            return ("discr", c[1], other[0])
        return None
    groups = {}
    for k in keys:
        groups.setdefault(k[1:], set()).add(conds_of(k))
    out = set()
    for rest, sets in groups.items():
        changed = True
        while changed and len(sets) > 1:
            changed = False
            for a in list(sets):
                if a not in sets:
                    continue
                for c in a:
                    cc = complement(c)
                    if cc is None:
                        continue
                    b = (a - {c}) | {cc}
                    if b in sets and b != a:
                        sets.discard(a)
                        sets.discard(b)
                        sets.add(a - {c})
                        changed = True
                        break
        for cs in sets:
            out.add((tuple(sorted(map(repr, cs))),) + rest)
    return out


STABLE_NODES = ("param", "cparam", "int", "const", "conv", "cast", "binop", "unop")


def stable_term(t):
    """a value that cannot change while the path runs: built from by-value parameters, constants and results of numbered
    (effectful, hence unique) calls; anything read through a place (`len`, fields, pure accessor calls) may be read again
    later with a different result"""
    if not isinstance(t, tuple) or not t:
        return True
    if t[0] == "call":
        return len(t) > 3 and t[3] is not None
    if t[0] not in STABLE_NODES:
        return False
    return all(stable_term(x) for x in t[1:] if isinstance(x, tuple))


def roots_of(t, out=None):
    """what a normalised term is read from: its parameter / captured-variable leaves and every call it contains (a local
    built by a call is identified by that call); an effect can change the value of a term only through a shared root"""
    top = out is None
    if top:
        out = set()
    if isinstance(t, tuple) and t:
        if t[0] in ("param", "cparam", "upvar"):
            out.add(repr(t[:2]))
        else:
            if t[0] in ("call", "callv"):
                out.add(repr(t))
            for x in t[1:]:
                if isinstance(x, tuple):
                    roots_of(x, out)
    return frozenset(out) if top else None


def same_time(c, epoch_of, *terms):
    """key that two conditions must share to be combined: None for conditions over stable terms, else the single epoch at
    which the condition was evaluated ('?' + unique when unknown: never combined)"""
    if all(stable_term(t) for t in terms):
        return None
    eps = epoch_of.get(c) if epoch_of is not None else None
    if eps is None or len(eps) != 1:
        return ("?", repr(c))
    return next(iter(eps))


def int_bounds(conds, epoch_of):
    """comparisons of one term with integer constants (evaluated at the same time) are replaced by the tightest bounds they
    imply: `3 <= n` makes `2 <= n` redundant, `n < 2` with `3 <= n` is infeasible (None), `n < 1` for a length is `n == 0`"""
    groups = {}
    rest = set()
    for c in conds:
        if c[0] == "rel" and c[1] in ("Lt", "Le", "Eq", "Ne"):
            a, b = c[2], c[3]
            ia = isinstance(a, tuple) and len(a) == 2 and a[0] == "int" and isinstance(a[1], int)
            ib = isinstance(b, tuple) and len(b) == 2 and b[0] == "int" and isinstance(b[1], int)
            if ia != ib:
                term, k = (b, a[1]) if ia else (a, b[1])
                g = groups.setdefault((repr(term), same_time(c, epoch_of, term)), {"term": term, "L": 0 if term[0] == "len" else None, "U": None, "ne": set()})
                lo = hi = None
                if c[1] == "Eq":
                    lo = hi = k
                elif c[1] == "Ne":
                    g["ne"].add(k)
                elif ia:
                    lo = k if c[1] == "Le" else k + 1
                else:
                    hi = k if c[1] == "Le" else k - 1
                if lo is not None:
                    g["L"] = lo if g["L"] is None else max(g["L"], lo)
                if hi is not None:
                    g["U"] = hi if g["U"] is None else min(g["U"], hi)
                continue
        rest.add(c)
    for g in groups.values():
        L, U, term = g["L"], g["U"], g["term"]
        ne = set(g["ne"])
        while L is not None and L in ne:
            L += 1
        while U is not None and U in ne:
            U -= 1
        if L is not None and U is not None and L > U:
            return None
        ne = {n for n in ne if (L is None or n > L) and (U is None or n < U)}
        if L is not None and L == U:
            x, y = sorted([("int", L), term], key=repr)
            rest.add(("rel", "Eq", x, y))
            continue
        if L is not None and not (term[0] == "len" and L <= 0):
            rest.add(("rel", "Le", ("int", L), term))
        if U is not None:
            rest.add(("rel", "Le", term, ("int", U)))
        for n in ne:
            x, y = sorted([("int", n), term], key=repr)
            rest.add(("rel", "Ne", x, y))
    return rest


def contradictory(conds, epoch_of=None):
    """two oriented relations over the same pair of expressions (evaluated at the same time) that cannot hold together
    (a < b with b <= a, a == b with a != b, ...)"""
    rel = {}
    for c in conds:
        if c[0] == "rel":
            t = same_time(c, epoch_of, c[2], c[3])
            rel.setdefault((repr(c[2]) + "@%r" % (t,), repr(c[3]) + "@%r" % (t,)), set()).add(c[1])
    for (a, b), ops in rel.items():
        if "Eq" in ops and "Ne" in ops:
            return True
        rev = rel.get((b, a), set())
        if "Lt" in ops and (("Lt" in rev) or ("Le" in rev) or ("Eq" in ops) or ("Eq" in rev)):
            return True
        if "Le" in ops and "Lt" in rev:
            return True
    return False


def place_path(e):
    """(root, field, field, ...) of a place expression rooted at a parameter / captured variable, else None"""
    fields = []
    while isinstance(e, tuple):
        if e[0] in ("ref", "deref"):
            e = e[1]
        elif e[0] == "field":
            fields.append(e[2])
            e = e[1]
        elif e[0] in ("param", "upvar", "cparam"):
            return (e[:2],) + tuple(reversed(fields))
        else:
            return None
    return None


def overlaps(p, q):
    n = min(len(p), len(q))
    return p[:n] == q[:n]


def commute(a, b, mut_root=lambda r: True):
    """two call expressions certainly commute: each argument is a place (read or &mut) or a constant, the places one of
    them borrows mutably overlap nothing the other touches, and neither uses the other's result.  (Safe code without
    interior mutability - R16.2 - can change only what it reaches through its &mut arguments.)"""
    def profile(c):
        muts, reads = [], []
        for x in c[3]:
            if x[0] in ("const", "fnitem"):
                continue
            pp = place_path(x)
            if pp is None:
                return None
            if x[0] == "ref" and x[2]:
                muts.append(pp)
            else:
                reads.append(pp)
        return muts, reads
    pa, pb = profile(a), profile(b)
    if pa is None or pb is None:
        return False
    # a by-value `&mut T` parameter passed on (e.g. the rng) looks like a read of the parameter: treat every bare root as mutable
    ma = pa[0] + [r for r in pa[1] if len(r) == 1 and mut_root(r[0])]
    mb = pb[0] + [r for r in pb[1] if len(r) == 1 and mut_root(r[0])]
    for m in ma:
        if any(overlaps(m, q) for q in pb[0] + pb[1]):
            return False
    for m in mb:
        if any(overlaps(m, q) for q in pa[0] + pa[1]):
            return False
    return True


# ---------------------------------------------------------------------------------------------------------------
def load_reference():
    """Facts of the reference tree (None when /verif/reference is absent)"""
    from .facts import Facts, CRATES
    if not all(os.path.exists(os.path.join(REFDIR, c + ".json.gz")) for c in CRATES):
        return None
    import tempfile
    import shutil
    d = tempfile.mkdtemp(prefix="uec-ref-")
    try:
        for c in CRATES:
            with gzip.open(os.path.join(REFDIR, c + ".json.gz"), "rb") as f, open(os.path.join(d, c + ".json"), "wb") as g:
                shutil.copyfileobj(f, g)
        R = Facts(d, None, reference=False)
    finally:
        shutil.rmtree(d, ignore_errors=True)
    return R


def interface_of(fn):
    """what the rules read from a function besides its body: its signature (parameter and result types, so also a type-state
    parameter in the result), its where-bounds, constness and visibility - lifetimes' names aside.  A change of any of these is
    not a respelling of the body and is judged by the rules on the current function."""
    j = fn.j
    lt = re.compile(r"'[A-Za-z_][A-Za-z0-9_]*")
    sig = lt.sub("'_", j.get("sig") or "")
    preds = sorted(lt.sub("'_", p.get("s", "")) for p in (j.get("preds") or []))
    return (sig, tuple(preds), bool(j.get("pub")), bool(j.get("is_const")), tuple(j.get("generics") or ()))


def apply_reference(F):
    """replace every function family whose root differs textually from the reference but has the same canonical
    summary by the reference family; returns the list of (fn id, 'equivalent'|'different')"""
    R = load_reference()
    F.reference_report = {"available": R is not None, "equivalent": [], "different": [], "new": [], "gone": []}
    if R is None:
        return
    prof_cur = {c: (F.opts.get(c) or {}).get("overflow_checks") for c in F.opts}
    prof_ref = {c: (R.opts.get(c) or {}).get("overflow_checks") for c in R.opts}
    if any(prof_cur.get(c) != prof_ref.get(c) for c in prof_ref):
        F.reference_report["available"] = False
        F.reference_report["note"] = "profile differs from the reference extraction: bodies are analysed as they are"
        return
    roots = [f for f in F.fns.values() if not f.is_closure and f.kind != "InlineConst"]
    changed = []
    for f in sorted(roots, key=lambda x: x.id):
        g = R.fns.get(f.id)
        if g is None:
            F.reference_report["new"].append(f.id)
            continue
        fam_c = [f] + [F.fns[c] for c in F.closures_of(f.id) if c in F.fns]
        fam_r = [g] + [R.fns[c] for c in R.closures_of(g.id) if c in R.fns]
        if len(fam_c) == len(fam_r) and all(raw_sig(a) == raw_sig(b) and a.id == b.id for a, b in zip(fam_c, fam_r)):
            continue
        changed.append((f, g, fam_c, fam_r))
    # who calls the functions the reference does not have (helpers introduced by a refactoring), as the tree is written:
    # rules that reason about "only called from X" must not lose this when X is analysed through its reference body
    from .graph import fn_uses
    newf = {f.id for f in roots if f.id not in R.fns}
    pre = {}
    if newf:
        for g in F.fns.values():
            for kind2, path2, full2, rdef2, rlocal2, bi2, span2, t2 in fn_uses(g):
                for tgt in (rdef2, path2):
                    if tgt in newf:
                        pre.setdefault(tgt, set()).add(g.root or g.id)
    F.pre_subst_callers = pre
    # Functions that really differ from their reference version are not seen through when their callers are
    # compared (on either side): a caller that only *calls* a changed function is still the same caller, and the
    # changed function is judged on its own.  Iterate until no further function becomes equivalent.
    blocked = set()
    equivalent = set()
    for _round in range(4):
        F.noinline = R.noinline = frozenset(blocked)
        F._inline_cache, R._inline_cache = {}, {}
        sc, sr = Summariser(F), Summariser(R)
        diff_now = set()
        for f, g, fam_c, fam_r in changed:
            if f.id in equivalent:
                continue
            try:
                same = sc.of(f) == sr.of(g) and isinstance(sc.of(f)[1], frozenset) and interface_of(f) == interface_of(g)
            except Exception:
                same = False
            if same:
                equivalent.add(f.id)
            else:
                diff_now.add(f.id)
        if diff_now <= blocked:
            break
        blocked |= diff_now
    F.noinline = R.noinline = frozenset()
    for f, g, fam_c, fam_r in changed:
        if f.id in equivalent:
            F.reference_report["equivalent"].append(f.id)
            for x in fam_c:
                F.fns.pop(x.id, None)
            for x in fam_r:
                F.fns[x.id] = x
        else:
            F.reference_report["different"].append(f.id)
    F.reference_report["gone"] = sorted(fid for fid, g in R.fns.items() if fid not in F.fns and not g.is_closure and g.kind != "InlineConst")
    F._children = None
    F._inline_cache = {}
