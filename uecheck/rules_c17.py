"""C17 - Type-erased (dyn) forms behave exactly like the operators they wrap."""
from .pat import ANY, Bind, Call, Param, match, callee_is, path_ends
from .sym import short
from .common import (return_paths, derives_from_self, rng_passthrough, check_forwarder, is_conversion_fn)

META = {
    "level": "proof",
    "explanation": (
        "Forwarder identity on the macro-expanded, type-checked code. For each of the five erasable traits X (Selector, Operator, Mutator, Recombinator, "
        "ChildMaker): (R17.1) there is exactly one blanket `impl DynX for T where T: X`, and its method is a single forwarder to <T as X>::method with the "
        "parameters in declared order, the rng passed through, the result wrapped only by map_err(Into::into); (R17.2) there are exactly 28 impls of X whose self type "
        "is {&, &mut, Box, Rc, Arc, Ref, RefMut} x {none, Send, Sync, Send+Sync} over dyn DynX - the full matrix, each cell once - and every method body is a single "
        "forwarder to the virtual DynX::dyn_method on **self (only Deref / the built-in Box deref and an unsizing reborrow of the rng in between), parameters in order, "
        "associated types Error = E (and Output = O) as in the hand-written impl; 28 Composable impls exist for the DynOperator pointers. A forwarder performs no other "
        "call, so returned value, error (converted) and the consumption of the random stream are those of the wrapped implementation. Obligations = 5 x (1 + 28 + 28 "
        "associated-type checks) + matrix completeness; all must be discharged. (R17.3) DynWeighted - the one library type that stores boxed erased selectors - returns the chosen "
        "member's outcome unchanged (Ok as is, its error as DynWeightedError::Other(error)), calling it once with the caller's population and rng and drawing nothing besides "
        "the weighted choice (canonical outcomes of DynWeighted::select)."),
    "rules": {
        "R17.1": "exactly one blanket DynX impl; its method forwards to X::method(self, params.., rng) wrapped only by map_err(Into::into)",
        "R17.3": "DynWeighted (the holder of boxed erased selectors) returns the chosen member's outcome unchanged: Ok as is, its error as DynWeightedError::Other(error); one call with the caller's population and rng; no other draw",
        "R17.2": "28 pointer impls per trait (7 pointer kinds x 4 auto-trait sets, each once); each method forwards to DynX::dyn_method(**self, params.., &mut rng); assoc types as declared; 28 Composable impls for DynOperator pointers",
    },
    "trusted_base": ["rustc type checker / trait resolution / vtable dispatch of dyn DynX", "rand's blanket `impl RngCore for &mut R` forwards draws one-to-one", "std Deref impls of Box/Rc/Arc/Ref/RefMut", "uecfacts driver + uecheck rule engine"],
    "assumptions": [],
    "not_decided": ["`&mut R: RngCore` forwarding (rand blanket impl, trusted)"],
}

TRAITS = [
    # trait path, method, dyn trait path, dyn method, param roles after self ('in' = pass-through param index, 'rng')
    ("ec_core::operator::selector::Selector", "select", "ec_core::operator::selector::erased::DynSelector", "dyn_select", [2, "rng3"]),
    ("ec_core::operator::Operator", "apply", "ec_core::operator::erased::DynOperator", "dyn_apply", [2, "rng3"]),
    ("ec_core::operator::mutator::Mutator", "mutate", "ec_core::operator::mutator::erased::DynMutator", "dyn_mutate", [2, "rng3"]),
    ("ec_core::operator::recombinator::Recombinator", "recombine", "ec_core::operator::recombinator::erased::DynRecombinator", "dyn_recombine", [2, "rng3"]),
    ("ec_core::child_maker::ChildMaker", "make_child", "ec_core::child_maker::erased::DynChildMaker", "dyn_make_child", ["rng2", 3, 4]),
]

POINTERS = {"ref": "&", "refmut": "&mut", "std::boxed::Box": "Box", "std::rc::Rc": "Rc", "std::sync::Arc": "Arc", "std::cell::Ref": "Ref", "std::cell::RefMut": "RefMut"}


def pointer_desc(self_ty):
    """(pointer kind, dyn principal, frozenset(auto traits)) or None"""
    k = self_ty.get("k")
    inner = None
    kind = None
    if k in ("ref", "refmut"):
        kind = POINTERS[k]
        inner = self_ty.get("of")
    elif k == "adt" and self_ty.get("path") in POINTERS:
        kind = POINTERS[self_ty["path"]]
        args = self_ty.get("args") or []
        inner = args[0] if args else None
    if not inner or inner.get("k") != "dyn":
        return None
    autos = frozenset(a.split("::")[-1] for a in inner.get("autos", []))
    return kind, inner.get("principal"), autos


def arg_checks(roles):
    out = [lambda a: derives_from_self(a)]
    for r in roles:
        if isinstance(r, int):
            out.append(lambda a, r=r: a == ("param", r))
        else:
            n = int(r[3:])
            out.append(lambda a, n=n: rng_passthrough(a, n))
    return out


def check(ctx):
    F = ctx.F
    want_cells = {(p, a) for p in POINTERS.values() for a in (frozenset(), frozenset({"Send"}), frozenset({"Sync"}), frozenset({"Send", "Sync"}))}
    for tpath, meth, dpath, dmeth, roles in TRAITS:
        tname = tpath.split("::")[-1]
        # ---- R17.1 blanket impl -------------------------------------------------
        blankets = [im for im in F.impls if im.get("trait") == dpath]
        ctx.check(len(blankets) == 1 and blankets[0]["self"].get("k") == "param", "R17.1", "%s/one-blanket-Dyn-impl" % tname,
                  "%d impl(s) of %s; self types %s" % (len(blankets), dpath.split("::")[-1], [b["self"]["s"] for b in blankets]),
                  blankets[0]["span"]["at"] if blankets else None,
                  bad_detail="expected exactly one blanket impl of %s for a type parameter, found %s" % (dpath, [b["self"]["s"] for b in blankets]))
        for b in blankets:
            fns = [f for f in F.fns.values() if f.parent == b["id"] and f.assoc_name == dmeth]
            if len(fns) != 1:
                ctx.bad("R17.1", "%s/blanket-method-missing" % tname, "method %s not found in %s" % (dmeth, b["id"]))
                continue
            f = fns[0]
            ctx.fns_analysed.add(f.id)
            bound_ok = any(p.get("trait") == tpath and p.get("self", {}).get("k") == "param" for p in b["preds"])
            ctx.check(bound_ok, "R17.1", "%s/blanket-bound-T:%s" % (tname, tname), "where-clause carries T: " + tname, b["span"]["at"])
            check_forwarder(ctx, "R17.1", "%s/blanket-forwards-to-%s::%s" % (tname, tname, meth), f, "%s::%s" % (tname, meth), arg_checks(roles),
                            wrappers=("Result::map_err",))
            # the only wrapper allowed is map_err(Into::into)
            for p in return_paths(ctx.paths(f)):
                r = p.ret
                while callee_is(r, "Result::map_err"):
                    fi = r[3][1]
                    ctx.check(is_conversion_fn(ctx, fi), "R17.1", "%s/blanket-error-only-converted" % tname, "map_err(%s)" % short(fi), f.at())
                    r = r[3][0]
        # ---- R17.2 pointer impls ---------------------------------------------------
        cells = {}
        for im in F.impls:
            if im.get("trait") != tpath:
                continue
            d = pointer_desc(im["self"])
            if not d or d[1] != dpath:
                continue
            cells.setdefault((d[0], d[2]), []).append(im)
        missing = want_cells - set(cells)
        dup = {k for k, v in cells.items() if len(v) > 1}
        ctx.check(not missing and not dup and len(cells) == 28, "R17.2", "%s/matrix-7x4-complete" % tname,
                  "%d distinct pointer x auto-trait impls" % len(cells), None,
                  bad_detail="pointer impl matrix incomplete: missing %s duplicate %s" % (sorted((p, sorted(a)) for p, a in missing), sorted((p, sorted(a)) for p, a in dup)))
        for (ptr, autos), ims in sorted(cells.items(), key=lambda kv: (kv[0][0], sorted(kv[0][1]))):
            for im in ims:
                cell = "%s<dyn+%s>" % (ptr, "+".join(sorted(autos)) or "-")
                fns = [f for f in F.fns.values() if f.parent == im["id"] and f.assoc_name == meth]
                if len(fns) != 1:
                    ctx.bad("R17.2", "%s/%s/method-missing" % (tname, cell), "no %s in %s" % (meth, im["id"]))
                    continue
                f = fns[0]
                ctx.fns_analysed.add(f.id)
                check_forwarder(ctx, "R17.2", "%s/%s/forwards-to-%s" % (tname, cell, dmeth), f, "%s::%s" % (dpath.split("::")[-1], dmeth), arg_checks(roles), wrappers=())
                # associated types
                tys = {it["name"]: it.get("ty", {}).get("s") for it in im["items"] if it["kind"] == "AssocTy"}
                want = {"Error": "E"}
                if tname in ("Operator", "Recombinator"):
                    want["Output"] = "O"
                ctx.check(all(tys.get(k) == v for k, v in want.items()) and set(tys) == set(want), "R17.2", "%s/%s/assoc-types" % (tname, cell), str(tys), im["span"]["at"],
                          bad_detail="associated types %s, expected %s" % (tys, want))
                # the impl's dyn type parameters line up: dyn DynX<.., E> with E the impl's Error
    # Composable impls for DynOperator pointers
    cells = {}
    for im in F.impls:
        if im.get("trait") != "ec_core::operator::composable::Composable":
            continue
        d = pointer_desc(im["self"])
        if d and d[1] == "ec_core::operator::erased::DynOperator":
            cells.setdefault((d[0], d[2]), []).append(im)
    ctx.check(set(cells) == want_cells and all(len(v) == 1 for v in cells.values()), "R17.2", "DynOperator/Composable-matrix-7x4-complete", "%d impls" % len(cells))
    check_dyn_weighted_members(ctx)
    ctx.floor("R17", len(ctx.obs), 5 * (1 + 28 + 28) + 1, "obligations")


def check_dyn_weighted_members(ctx):
    """R17.3: the one place in the library that *holds* type-erased selectors (DynWeighted's boxed members) hands the chosen
    member's outcome back as it is - its Ok unchanged, its error as DynWeightedError::Other(that error) - calls it once with
    the caller's population and generator, and draws nothing besides the weighted choice.  Stated over canonical outcomes."""
    from . import ckit as K
    from .pat import match, Through, Field, callee_is, path_ends
    from .common import rng_passthrough, derives_from_self, cond_str
    from .sym import short
    f = ctx.fn("<ec_core::operator::selector::dyn_weighted::DynWeighted<P> as ec_core::operator::selector::Selector<P>>::select")
    paths = K.live(ctx.cpaths(f))
    seen = set()
    good = bool(paths)
    why = ""
    for p in paths:
        cw = K.calls_of(p, "IndexedRandom::choose_weighted")
        sel = [c for c in p.calls() if callee_is(c, "Selector::select", "DynSelector::dyn_select")]
        draws = [c for c in p.calls() if callee_is(c, "Rng::random", "Rng::random_range", "Rng::random_bool", "Rng::sample", "Distribution::sample", "IndexedRandom::choose", "IndexedRandom::choose_multiple", "SliceRandom::shuffle")]
        kind, pay = K.outcome(p)
        okp = len(cw) == 1 and not draws and derives_from_self(cw[0][3][0], field="selectors") and rng_passthrough(cw[0][3][1], 3)
        if okp and K.discr_is(p, lambda o: o == cw[0], 1):
            okp = not sel and kind == "err"
            seen.add("no-choice")
        elif okp:
            okp = len(sel) == 1 and K.discr_is(p, lambda o: o == cw[0], 0) and K.strip(sel[0][3][1], calls=()) == ("param", 2) and rng_passthrough(sel[0][3][2], 3) and \
                match(sel[0][3][0], Through(Field(Through(Field(lambda e: e == cw[0], 0, "Ok")), 0)))
            if okp and K.discr_is(p, lambda o: o == sel[0], 0):
                okp = kind == "ok" and K.strip(pay, calls=()) == ("field", sel[0], 0, "Ok")
                seen.add("ok")
            elif okp and K.discr_is(p, lambda o: o == sel[0], 1):
                e = pay
                okp = kind == "err" and e is not None and e[0] == "agg" and path_ends(e[2], "DynWeightedError::Other") and len(e[3]) == 1 and K.conv_free(e[3][0]) == ("field", sel[0], 0, "Err") and \
                    e[3][0] == K.conv_free(e[3][0])
                seen.add("err")
            else:
                okp = False
        if not okp:
            why = why or "[%s] -> %s" % (cond_str(p)[:200], short(p.ret, 6) if p.ret is not None else p.end)
        good = good and okp
    ctx.check(good and seen == {"no-choice", "ok", "err"}, "R17.3", "DynWeighted/chosen-erased-member's-outcome-returned-unchanged(Ok|Other(error))",
              "3 canonical outcomes: weight error, member Ok, member Err -> Other(error)", f.at(),
              bad_detail="DynWeighted::select must call the chosen boxed selector once with (population, rng) and return its Ok unchanged / its error as Other(error): " + why)
