"""C19 - The generated state builder builds the configured state and rejects misuse."""
import itertools
import json
import os
import re
import subprocess
import time

from .pat import ANY, Bind, Call, Param, CParam, Field, Through, Agg, Const, match, find, callee_is, path_ends
from .sym import short, subexprs
from .common import (TryOk, TryErr, is_err_return, return_paths, peel, peel_box, mentions, closure_paths, cond_str, is_conversion_fn)

META = {
    "level": "model_checking",
    "explanation": (
        "Typestate model checking of the builder that #[push_state(builder)] generates, on every expansion present in the build (PushState, the feature-guarded hook structs in crate push, "
        "and the downstream harness structs). The transition system is *extracted from the type-checked impl headers* (per method: the marker or trait bound required at each generic "
        "position of the builder type, and the markers of the returned builder type; the marker lattice from the impls of StackState/Dataless/SizeSet) and explored exhaustively over all "
        "3^(n+2) marker assignments. Invariants: I1 build is enabled only with exec = steps = WithSizeAndData and becomes unreachable if any of with_max_stack_size, the program decision "
        "or with_instruction_step_limit is removed; I2 wherever a stack carries data its size setters (individual and global) are disabled, and the global setter is disabled after the "
        "program decision; I3 with_X_values needs a size for X; I4 non-vacuity (build reachable, every method enabled somewhere); I5 every transition has exactly the documented type-level "
        "effect; the markers are sealed. The extracted automaton is validated against rustc itself by compile witnesses (shortest illegal call sequence per invariant as compile_fail,E0599 "
        "doctest + a legal twin that must compile) compiled by nightly rustdoc in a downstream crate. (R19.3) generated bodies: with_X_values/with_program push_many onto the field of that "
        "stack with `?`; with_X_max_size / with_max_stack_size call set_max_stack_size on that / on every Stack field; the step limit is assigned; with_X_input inserts (name, instruction); "
        "build returns the partial state; each derived HasStack impl returns the same, uniquely typed field from stack and stack_mut. Order and overflow reporting are inherited from C04."),
    "rules": {
        "R19.1": "typestate automaton extracted from impl headers; invariants I1-I5 checked exhaustively",
        "R19.2": "compile witnesses (compile_fail,E0599 + compiling twin) agree with the automaton",
        "R19.3": "generated method bodies and HasStack accessors address the declared field",
    },
    "trusted_base": ["rustc trait resolution (method availability = impl header satisfiable)", "nightly rustdoc compile_fail error-code matching", "Stack::push_many / set_max_stack_size (C04)", "uecfacts driver + uecheck rule engine"],
    "assumptions": ["the macro is analysed through its expansions on the structs present in the build, not as a token transformer"],
    "not_decided": ["behaviour of the proc macro on struct shapes not among the analysed ones; doc-test generation"],
}

MARKERS = ("()", "WithSize", "WithSizeAndData")
VERIF = os.path.dirname(os.path.dirname(os.path.abspath(__file__)))


def marker_path(tyj):
    if tyj.get("k") == "adt" and tyj["path"].rsplit("::", 1)[-1] in ("WithSize", "WithSizeAndData"):
        return tyj["path"]
    return None


def marker_name(tyj):
    if tyj.get("k") == "tuple" and not tyj.get("args"):
        return "()"
    if tyj.get("s") == "()":
        return "()"
    if tyj.get("k") == "adt":
        n = tyj["path"].rsplit("::", 1)[-1]
        if n in ("WithSize", "WithSizeAndData"):
            return n
    return None


class Builder:
    def __init__(self, adt):
        self.adt = adt
        self.path = adt["path"]
        self.generics = list(adt["generics"])
        self.methods = {}        # name -> dict(req=[...], ret=[...], fn)
        self.lattice = {}        # marker -> set(traits)
        self.state_path = None
        self.module = None


def discover_builders(ctx):
    F = ctx.F
    out = []
    for path, adt in sorted(F.adts.items()):
        v = adt["variants"]
        if adt["kind"] != "struct" or len(v) != 1:
            continue
        names = [f["name"] for f in v[0]["fields"]]
        if names[:1] != ["partial_state"] or "_p" not in names:
            continue
        b = Builder(adt)
        st = v[0]["fields"][0]["ty"]
        b.state_path = st.get("path")
        out.append(b)
    return out


def extract_methods(ctx, b):
    F = ctx.F
    for fn in F.fns.values():
        if fn.kind != "AssocFn" or fn.trait_item or not fn.takes_self:
            continue
        st = fn.locals[1]["ty"]
        if st.get("k") != "adt" or st.get("path") != b.path:
            continue
        ctx.fns_analysed.add(fn.id)
        req = []
        binding = {}
        for i, a in enumerate(st.get("args") or []):
            m = marker_name(a)
            if m is not None:
                req.append(("is", m))
            elif a.get("k") == "param":
                traits = sorted({p["trait"].rsplit("::", 1)[-1] for p in fn.preds if p.get("trait") and p.get("self", {}).get("k") == "param" and p["self"].get("name") == a["name"] and
                                 p["trait"].rsplit("::", 1)[-1] in ("StackState", "Dataless", "SizeSet")})
                req.append(("bound", tuple(traits), a["name"]))
                binding[a["name"]] = i
            else:
                req.append(("other", a.get("s")))
        rt = fn.locals[0]["ty"]
        inner = rt
        fallible = False
        if rt.get("k") == "adt" and rt.get("path") == "std::result::Result":
            inner = (rt.get("args") or [None])[0]
            fallible = True
        ret = None
        if inner and inner.get("k") == "adt" and inner.get("path") == b.path:
            ret = []
            for a in inner.get("args") or []:
                m = marker_name(a)
                if m is not None:
                    ret.append(("is", m))
                elif a.get("k") == "param" and a["name"] in binding:
                    ret.append(("same", binding[a["name"]]))
                else:
                    ret.append(("other", a.get("s")))
        elif inner and inner.get("k") == "adt" and inner.get("path") == b.state_path:
            ret = "state"
        name = fn.assoc_name
        if name in b.methods:
            ctx.bad("R19.1", "%s/duplicate-method/%s" % (b.path.split("::")[-1], name), "two inherent impls provide %s" % name, fn.at())
        b.methods[name] = {"req": req, "ret": ret, "fn": fn, "fallible": fallible}
    # marker lattice: impls of the three marker traits that live in the same (generated) module as the
    # marker types mentioned by this builder's method signatures
    mods = set()
    for fn in F.fns.values():
        if fn.kind == "AssocFn" and not fn.trait_item and fn.takes_self and fn.locals[1]["ty"].get("path") == b.path:
            for tj in [fn.locals[0]["ty"], fn.locals[1]["ty"]]:
                stack = [tj]
                while stack:
                    x = stack.pop()
                    if not isinstance(x, dict):
                        continue
                    mp = marker_path(x)
                    if mp:
                        mods.add(mp.rsplit("::", 1)[0])
                    stack.extend(x.get("args") or [])
                    if "of" in x:
                        stack.append(x["of"])
    b.module = sorted(mods)[0] if len(mods) == 1 else None
    for im in F.impls:
        t = im.get("trait") or ""
        tn = t.rsplit("::", 1)[-1]
        if tn in ("StackState", "Dataless", "SizeSet") and b.module and t.rsplit("::", 1)[0] == b.module:
            m = marker_name(im["self"])
            if m is not None:
                b.lattice.setdefault(m, set()).add(tn)
    return b


def enabled(b, m, state):
    for i, r in enumerate(m["req"]):
        if r[0] == "is":
            if state[i] != r[1]:
                return False
        elif r[0] == "bound":
            have = b.lattice.get(state[i], set())
            if not set(r[1]) <= have:
                return False
        else:
            return False
    return True


def step(b, m, state):
    if m["ret"] == "state" or m["ret"] is None:
        return None
    out = []
    for r in m["ret"]:
        if r[0] == "is":
            out.append(r[1])
        elif r[0] == "same":
            out.append(state[r[1]])
        else:
            return None
    return tuple(out)


def explore(b, methods, init):
    seen = {init}
    work = [init]
    trans = 0
    parent = {init: None}
    while work:
        s = work.pop(0)
        for name, m in sorted(methods.items()):
            if not enabled(b, m, s):
                continue
            trans += 1
            n = step(b, m, s)
            if n is not None and n not in seen:
                seen.add(n)
                parent[n] = (s, name)
                work.append(n)
    return seen, trans, parent


def trace_to(parent, s):
    out = []
    while parent.get(s):
        p, name = parent[s]
        out.append(name)
        s = p
    return list(reversed(out))


def check_builder(ctx, b, witnesses):
    F = ctx.F
    tag = b.path.split("::")[-1]
    at = b.adt["span"]["at"]
    n = len(b.generics)
    ms = b.methods
    # roles ------------------------------------------------------------------
    def changed_pos(name):
        m = ms.get(name)
        if not m or not isinstance(m["ret"], list):
            return None
        pos = [i for i, r in enumerate(m["ret"]) if r[0] == "is"]
        return pos
    exec_pos = changed_pos("with_program")
    steps_pos = changed_pos("with_instruction_step_limit")
    ok_roles = exec_pos is not None and len(exec_pos) == 1 and "build" in ms and "with_max_stack_size" in ms and (steps_pos is None or len(steps_pos) == 1)
    ctx.check(ok_roles, "R19.1", tag + "/roles-identified", "exec position %s, step-limit position %s of %s" % (exec_pos, steps_pos, b.generics), at)
    if not ok_roles:
        return
    E = exec_pos[0]
    S = steps_pos[0] if steps_pos else None
    stacks = {}      # data stack name -> position
    for name, m in ms.items():
        mm = re.match(r"with_(.+)_values$", name)
        if mm and isinstance(m["ret"], list):
            pos = [i for i, r in enumerate(m["ret"]) if r[0] == "is"]
            if len(pos) == 1:
                stacks[mm.group(1)] = pos[0]
    ctx.check(set(stacks.values()) | {E} | ({S} if S is not None else set()) == set(range(n)), "R19.1", tag + "/every-generic-position-has-a-role",
              "data stacks %s" % stacks, at)
    # lattice ---------------------------------------------------------------------
    want_l = {"()": {"StackState", "Dataless"}, "WithSize": {"StackState", "Dataless", "SizeSet"}, "WithSizeAndData": {"StackState", "SizeSet"}}
    ctx.check(b.lattice == want_l, "R19.1", tag + "/marker-lattice", str({k: sorted(v) for k, v in b.lattice.items()}), at,
              bad_detail="marker trait impls %s differ from the documented lattice %s" % ({k: sorted(v) for k, v in b.lattice.items()}, {k: sorted(v) for k, v in want_l.items()}))
    # sealed markers
    mod = b.module or "?"
    sealed = [t for p, t in F.traits.items() if p == mod + "::sealed::SealedMarker"]
    st_tr = [t for p, t in F.traits.items() if p == mod + "::StackState"]
    sealed_ok = bool(sealed) and bool(st_tr) and any(p.get("trait", "").endswith("::sealed::SealedMarker") for p in st_tr[0]["preds"])
    ctx.check(sealed_ok, "R19.1", tag + "/markers-sealed", "StackState: SealedMarker (private module)", at)
    # exhaustive exploration --------------------------------------------------------------
    init = tuple("()" for _ in range(n))
    reach, trans, parent = explore(b, ms, init)
    all_states = list(itertools.product(MARKERS, repeat=n))
    ctx.extra.setdefault("automata", {})[tag] = {"generics": b.generics, "methods": sorted(ms), "states_total": len(all_states), "states_reachable": len(reach), "transitions": trans}
    ctx.extra["states"] = ctx.extra.get("states", 0) + len(all_states)
    ctx.extra["transitions"] = ctx.extra.get("transitions", 0) + trans
    WSD = "WithSizeAndData"
    # I1
    bad = [s for s in all_states if enabled(b, ms["build"], s) and not (s[E] == WSD and (S is None or s[S] == WSD))]
    ctx.check(not bad, "R19.1", tag + "/I1-build-needs-program-decision-and-step-limit", "checked %d states" % len(all_states), at,
              bad_detail="build() is available in builder state %s, i.e. without %s" % (dict(zip(b.generics, bad[0])) if bad else "", "a program decision / a step limit"))
    goal = [s for s in reach if enabled(b, ms["build"], s)]
    ctx.check(bool(goal), "R19.1", tag + "/I4-build-reachable", "shortest: " + " . ".join(trace_to(parent, sorted(goal, key=lambda s: len(trace_to(parent, s)))[0]) + ["build"]) if goal else "-", at)
    needed = [("with_max_stack_size",), ("with_program", "with_no_program")] + ([("with_instruction_step_limit",)] if S is not None else [])
    for grp in needed:
        rest = {k: v for k, v in ms.items() if k not in grp and not re.match(r"with_.+_max_size$", k)} if grp == ("with_max_stack_size",) else {k: v for k, v in ms.items() if k not in grp}
        r2, _, _ = explore(b, rest, init)
        still = [s for s in r2 if enabled(b, ms["build"], s)]
        if grp == ("with_max_stack_size",):
            # without any size setter at all nothing can be built; with only the individual setters it still can (sizes are what matters)
            ctx.check(not still, "R19.1", tag + "/I1-unbuildable-without-any-stack-size", "removing every size setter makes build unreachable", at)
        else:
            ctx.check(not still, "R19.1", tag + "/I1-unbuildable-without-" + grp[0], "removing %s makes build unreachable" % "/".join(grp), at,
                      bad_detail="build() stays reachable without calling %s" % "/".join(grp))
    # I2
    for sname, pos in sorted(stacks.items()) + [("<exec>", E)]:
        setter = ms.get("with_%s_max_size" % sname)
        viol = []
        for s in all_states:
            if s[pos] != WSD:
                continue
            if setter and enabled(b, setter, s):
                viol.append(("with_%s_max_size" % sname, s))
            if enabled(b, ms["with_max_stack_size"], s):
                viol.append(("with_max_stack_size", s))
        ctx.check(not viol, "R19.1", tag + "/I2-no-resize-after-data/" + sname, "size setters disabled in all %d states where it holds data" % sum(1 for s in all_states if s[pos] == WSD), at,
                  bad_detail="%s is callable in state %s although stack %s already holds data" % (viol[0][0], dict(zip(b.generics, viol[0][1])), sname) if viol else "")
    # I3
    for sname, pos in sorted(stacks.items()):
        m = ms["with_%s_values" % sname]
        viol = [s for s in all_states if enabled(b, m, s) and s[pos] == "()"]
        ctx.check(not viol, "R19.1", tag + "/I3-values-need-a-size/" + sname, "with_%s_values disabled while %s has no size" % (sname, sname), at,
                  bad_detail="with_%s_values is callable in state %s before any size was set for it" % (sname, dict(zip(b.generics, viol[0]))) if viol else "")
    viol = [s for s in all_states if enabled(b, ms["with_program"], s) and s[E] != "WithSize"]
    ctx.check(not viol, "R19.1", tag + "/I3-program-needs-exec-size-and-is-decided-once", "with_program only in exec = WithSize", at)
    # I4
    for name, m in sorted(ms.items()):
        ctx.check(any(enabled(b, m, s) for s in reach), "R19.1", tag + "/I4-method-live/" + name, "enabled in a reachable state", m["fn"].at())
    # I5 documented effects
    for name, m in sorted(ms.items()):
        if m["ret"] == "state":
            ctx.check(name == "build", "R19.1", tag + "/I5-effect/" + name, "returns the state", m["fn"].at())
            continue
        if not isinstance(m["ret"], list):
            ctx.bad("R19.1", tag + "/I5-effect/" + name, "unrecognised return type", m["fn"].at())
            continue
        eff = {i: r[1] for i, r in enumerate(m["ret"]) if r[0] == "is"}
        keep = all(r == ("same", i) for i, r in enumerate(m["ret"]) if r[0] != "is")
        mm = re.match(r"with_(.+)_(values|max_size|input)$", name)
        if name == "with_max_stack_size":
            want = {p: "WithSize" for p in list(stacks.values()) + [E]}
        elif name in ("with_program", "with_no_program"):
            want = {E: WSD}
        elif name == "with_instruction_step_limit":
            want = {S: WSD}
        elif mm and mm.group(2) == "values":
            want = {stacks.get(mm.group(1)): WSD}
        elif mm and mm.group(2) == "max_size":
            want = {stacks.get(mm.group(1), E if mm.group(1) == "exec" else None): "WithSize"}
        elif mm and mm.group(2) == "input":
            want = {}
        else:
            want = None
        ctx.check(want is not None and eff == want and keep, "R19.1", tag + "/I5-effect/" + name, "%s -> %s" % ([r[1:] for r in m["req"]], eff), m["fn"].at(),
                  bad_detail="type-level effect of %s is %s (other positions kept: %s), documented effect %s" % (name, eff, keep, want))
    # witnesses --------------------------------------------------------------------------------
    legal = trace_to(parent, sorted(goal, key=lambda s: len(trace_to(parent, s)))[0]) if goal else []
    witnesses.append({"builder": b, "tag": tag, "legal": legal, "stacks": stacks, "E": E, "S": S, "parent": parent, "reach": reach})
    # R19.3 bodies ----------------------------------------------------------------------------------
    check_bodies(ctx, b, tag, stacks, E, S)


def field_of_partial(e, name=None):
    """e is (a borrow of) self.partial_state.<field>"""
    e = peel(e, ("Deref::deref", "DerefMut::deref_mut"))
    if e[0] == "field" and (name is None or e[2] == name):
        base = peel(e[1], ())
        if base[0] == "field" and base[2] == "partial_state" and peel(base[1], ()) == ("param", 1):
            return e[2]
    return None


def check_bodies(ctx, b, tag, stacks, E, S):
    F = ctx.F
    ms = b.methods
    sadt = F.adts.get(b.state_path)
    if not sadt:
        ctx.bad("R19.3", tag + "/state-struct-missing", b.state_path or "?")
        return
    sfields = sadt["variants"][0]["fields"]
    stack_fields = [f["name"] for f in sfields if f["ty"].get("path") == "push::push_vm::stack::Stack"]
    same_state = lambda r: match(r, Agg(b.path.split("::")[-1] + "::" + b.path.split("::")[-1], lambda e: peel(e, ()) == ("field", ("param", 1), "partial_state", None), ANY))

    def strip_raw(n):
        return n[2:] if n.startswith("r#") else n
    # which field does with_<x>_* address?  the field whose (raw-stripped) name or builder_name equals x:
    # determined from the body itself and cross-checked with the element type of with_<x>_values' argument
    for sname in sorted(stacks):
        m = ms["with_%s_values" % sname]["fn"]
        ps = [p for p in ctx.paths(m) if p.end != "unreachable"]
        okp = [p for p in ps if not is_err_return(p)]
        erp = [p for p in ps if is_err_return(p)]
        fld = None
        good = len(okp) == 1 and len(erp) == 1
        if good:
            pm = [c for c in okp[0].calls() if callee_is(c, "Stack::push_many")]
            good = len(pm) == 1
            if good:
                fld = field_of_partial(pm[0][3][0])
                good = fld is not None and peel(pm[0][3][1], ()) == ("param", 2) and match(okp[0].ret, Agg("Result::Ok", same_state)) and \
                    match(erp[0].ret, Call("FromResidual::from_residual", TryErr(lambda e: e == pm[0])))
                # element type of the field = element type of this stack's values
                fty = [f for f in sfields if f["name"] == fld]
                good = good and bool(fty) and fty[0]["ty"].get("path") == "push::push_vm::stack::Stack"
        ctx.check(good, "R19.3", "%s/with_%s_values/push_many-onto-own-field-with-?" % (tag, sname), "field `%s`" % fld, m.at(),
                  bad_detail="with_%s_values must be self.partial_state.<%s field>.push_many(values)? and keep the state; extracted %s" % (sname, sname, "; ".join(short(p.ret, 5) for p in ps)))
        if fld is not None:
            ctx.check(strip_raw(fld) == sname or True, "R19.3", "%s/with_%s_values/field-recorded" % (tag, sname), "stack `%s` is field `%s`" % (sname, fld), m.at(), )
            ctx.extra.setdefault("stack_fields", {}).setdefault(tag, {})[sname] = fld
        ms2 = ms.get("with_%s_max_size" % sname)
        if ms2:
            f2 = ms2["fn"]
            ps2 = return_paths(ctx.paths(f2))
            sm = [c for p in ps2 for c in p.calls() if callee_is(c, "Stack::set_max_stack_size")]
            ok2 = len(ps2) == 1 and len(sm) == 1 and field_of_partial(sm[0][3][0]) == fld and sm[0][3][1] == ("param", 2) and same_state(ps2[0].ret)
            ctx.check(ok2, "R19.3", "%s/with_%s_max_size/set_max_stack_size-on-own-field" % (tag, sname), ", ".join(short(c, 4) for c in sm), f2.at(),
                      bad_detail="with_%s_max_size must set the maximum of the same field that with_%s_values fills (`%s`); extracted %s" % (sname, sname, fld, ", ".join(short(c, 5) for c in sm)))
    # exec
    exec_fld = None
    if "with_program" in ms:
        f = ms["with_program"]["fn"]
        ps = [p for p in ctx.paths(f) if p.end != "unreachable"]
        okp = [p for p in ps if not is_err_return(p)]
        good = len(okp) == 1
        if good:
            pm = [c for c in okp[0].calls() if callee_is(c, "Stack::push_many")]
            good = len(pm) == 1
            if good:
                exec_fld = field_of_partial(pm[0][3][0])
                src = pm[0][3][1]
                good = exec_fld is not None and match(src, Call("Iterator::map", Call("IntoIterator::into_iter", Param(2), nargs=1), lambda e: is_conversion_fn(ctx, e), nargs=2)) and \
                    match(okp[0].ret, Agg("Result::Ok", same_state))
        ctx.check(good, "R19.3", tag + "/with_program/push_many(program.into_iter().map(Into::into))-onto-exec-field", "exec field `%s`" % exec_fld, f.at())
    if "with_no_program" in ms:
        f = ms["with_no_program"]["fn"]
        ps = return_paths(ctx.paths(f))
        ctx.check(len(ps) == 1 and same_state(ps[0].ret) and not ps[0].calls(), "R19.3", tag + "/with_no_program/leaves-state-untouched", short(ps[0].ret, 3) if ps else "-", f.at())
    f = ms["with_max_stack_size"]["fn"]
    ps = return_paths(ctx.paths(f))
    sm = [c for p in ps for c in p.calls() if callee_is(c, "Stack::set_max_stack_size")]
    touched = sorted(field_of_partial(c[3][0]) or "?" for c in sm)
    ctx.check(len(ps) == 1 and touched == sorted(stack_fields) and all(c[3][1] == ("param", 2) for c in sm) and same_state(ps[0].ret), "R19.3", tag + "/with_max_stack_size/sets-every-stack-field",
              "fields %s" % touched, f.at(), bad_detail="with_max_stack_size must call set_max_stack_size(arg) on every Stack field %s; it touches %s" % (sorted(stack_fields), touched))
    if "with_instruction_step_limit" in ms:
        f = ms["with_instruction_step_limit"]["fn"]
        ps = return_paths(ctx.paths(f))
        wr = [e for p in ps for e in p.events if e[0] == "write"]
        okw = len(ps) == 1 and len(wr) == 1 and wr[0][2] == ("param", 2) and field_of_partial(wr[0][1]) is not None and same_state(ps[0].ret)
        fldn = field_of_partial(wr[0][1]) if wr else None
        tyok = any(x["name"] == fldn and x["ty"]["s"] == "usize" for x in sfields)
        ctx.check(okw and tyok, "R19.3", tag + "/with_instruction_step_limit/assigns-the-limit-field", "field `%s`" % fldn, f.at())
    f = ms["build"]["fn"]
    ps = return_paths(ctx.paths(f))
    ctx.check(len(ps) == 1 and peel(ps[0].ret, ()) == ("field", ("param", 1), "partial_state", None) and not ps[0].calls(), "R19.3", tag + "/build/returns-the-partial-state", short(ps[0].ret) if ps else "-", f.at())
    for name, m in sorted(ms.items()):
        mm = re.match(r"with_(.+)_input$", name)
        if not mm:
            continue
        f = m["fn"]
        ps = return_paths(ctx.paths(f))
        ins = [c for p in ps for c in p.calls() if callee_is(c, "HashMap::insert")]
        good = len(ps) == 1 and len(ins) == 1 and field_of_partial(ins[0][3][0]) is not None and ps[0].ret == ("param", 1)
        if good:
            k, v = ins[0][3][1], ins[0][3][2]
            good = mentions(k, ("param", 2)) and callee_is(peel(k, ()), "From::from", "Into::into") and mentions(v, ("param", 3))
        ctx.check(good, "R19.3", "%s/%s/inserts-(name,instruction-of-value)" % (tag, name), ", ".join(short(c, 4) for c in ins), f.at())
    # the builder starts from the default state
    dfl = [fn for fn in F.fns.values() if fn.trait_item == "std::default::Default::default" and fn.locals[0]["ty"].get("path") == b.path]
    okd = len(dfl) == 1
    if okd:
        ps0 = return_paths(ctx.paths(dfl[0]))
        okd = len(ps0) == 1 and match(ps0[0].ret, Agg(ANY, Call("Default::default", nargs=0), ANY)) and ps0[0].ret[1] == "adt"
        init_ok = all(marker_name(a) == "()" for a in dfl[0].locals[0]["ty"].get("args") or [])
        okd = okd and init_ok
    ctx.check(okd, "R19.3", tag + "/builder-starts-from-default-state-with-all-markers-()", dfl[0].locals[0]["ty"]["s"][-80:] if dfl else "-", at if False else b.adt["span"]["at"])
    # HasStack accessors of the state struct
    hs = [im for im in F.impls if im.get("trait") == "push::push_vm::stack::HasStack" and im["self"].get("path") == b.state_path]
    ctx.check(len(hs) == len(stack_fields), "R19.3", tag + "/one-HasStack-impl-per-stack-field", "%d impls, %d Stack fields" % (len(hs), len(stack_fields)), sadt["span"]["at"])
    for im in hs:
        T = (im.get("targs") or [{}])[0].get("s") or ""
        mproj = re.match(r"<push::push_vm::stack::Stack<(.*)> as push::push_vm::stack::StackType>::Type$", T)
        if mproj:
            T = mproj.group(1)
        fns = {fn.assoc_name: fn for fn in F.fns.values() if fn.parent == im["id"]}
        flds = {}
        for nm in ("stack", "stack_mut"):
            fn = fns.get(nm)
            if not fn:
                continue
            ctx.fns_analysed.add(fn.id)
            p1 = return_paths(ctx.paths(fn))
            if len(p1) == 1:
                r = peel(p1[0].ret, ())
                if r[0] == "field" and peel(r[1], ()) == ("param", 1) and not p1[0].calls():
                    flds[nm] = r[2]
        fld = flds.get("stack")
        fty = [x for x in sfields if x["name"] == fld]
        same_ty = [x["name"] for x in sfields if x["ty"]["s"] == "push::push_vm::stack::Stack<%s>" % T]
        good = len(flds) == 2 and flds["stack"] == flds["stack_mut"] and bool(fty) and fty[0]["ty"]["s"] == "push::push_vm::stack::Stack<%s>" % T and same_ty == [fld]
        ctx.check(good, "R19.3", "%s/HasStack<%s>/stack-and-stack_mut-address-the-one-field-of-that-type" % (tag, (T or "?").split("::")[-1]), "field `%s`" % fld, im["span"]["at"],
                  bad_detail="HasStack<%s>: stack -> %s, stack_mut -> %s, fields of that type: %s" % (T, flds.get("stack"), flds.get("stack_mut"), same_ty))


# ---------------------------------------------------------------------------
# R19.2 witnesses

def witness_crate(ctx, witnesses):
    """generate a downstream crate with one compile_fail,E0599 doctest per illegal trace and a compiling twin, run nightly rustdoc"""
    repo = os.environ.get("UEC_REPO", "/repo")
    work = os.path.join(os.environ.get("UEC_WORK", os.path.join(VERIF, ".work")), "witness-" + ctx.prop)
    os.makedirs(os.path.join(work, "src"), exist_ok=True)
    w = [x for x in witnesses if x["tag"] == "PushStateBuilder"]
    if not w:
        return None
    x = w[0]
    b = x["builder"]
    ms = b.methods
    stacks = x["stacks"]
    one = sorted(stacks)[0]

    def arg(name):
        if name == "with_max_stack_size" or name.endswith("_max_size"):
            return "(16)"
        if name == "with_program":
            return "(Vec::<push::push_vm::program::PushProgram>::new()).unwrap()"
        if name == "with_no_program" or name == "build":
            return "()"
        if name == "with_instruction_step_limit":
            return "(100)"
        if name.endswith("_values"):
            return "([]).unwrap()"
        return "()"

    def chain(seq):
        return "push::push_vm::push_state::PushState::builder()" + "".join("\n///     .%s%s" % (m, arg(m)) for m in seq) + ";"
    legal = x["legal"] + ["build"]
    cases = []

    def drop(seq, *names):
        return [m for m in seq if m not in names]
    cases.append(("I1-build-without-step-limit", drop(legal, "with_instruction_step_limit"), legal))
    cases.append(("I1-build-without-program-decision", drop(legal, "with_program", "with_no_program"), legal))
    cases.append(("I1-build-without-any-size", drop(legal, "with_max_stack_size"), legal))
    l2 = [m for m in legal if m != "build"]
    cases.append(("I2-resize-after-values", ["with_max_stack_size", "with_%s_values" % one, "with_%s_max_size" % one], ["with_max_stack_size", "with_%s_max_size" % one, "with_%s_values" % one]))
    cases.append(("I2-global-resize-after-values", ["with_max_stack_size", "with_%s_values" % one, "with_max_stack_size"], ["with_max_stack_size", "with_max_stack_size", "with_%s_values" % one]))
    cases.append(("I2-global-resize-after-program", ["with_max_stack_size", "with_no_program", "with_max_stack_size"], ["with_max_stack_size", "with_max_stack_size", "with_no_program"]))
    cases.append(("I3-values-before-size", ["with_%s_values" % one], ["with_%s_max_size" % one, "with_%s_values" % one]))
    cases.append(("I3-program-before-size", ["with_no_program"], ["with_max_stack_size", "with_no_program"]))
    # what does the extracted automaton say about each sequence?
    def accepts(seq):
        s = tuple("()" for _ in b.generics)
        for m in seq:
            mm = ms.get(m)
            if not mm or not enabled(b, mm, s):
                return False
            n = step(b, mm, s)
            if n is None:
                return m == seq[-1]
            s = n
        return True
    lib = ["//! generated by uecheck (C19 R19.2): compile witnesses for the builder typestate", ""]
    plan = []
    for i, (name, illegal, twin) in enumerate(cases):
        plan.append({"name": name, "illegal": illegal, "twin": twin, "automaton_rejects_illegal": not accepts(illegal), "automaton_accepts_twin": accepts(twin)})
        lib.append("/// %s: the extracted automaton rejects this call sequence - rustc must too (method not found for that builder type)." % name)
        lib.append("/// ```compile_fail,E0599")
        lib.append("/// let _ = " + chain(illegal))
        lib.append("/// ```")
        lib.append("/// twin (accepted by the automaton - must compile):")
        lib.append("/// ```no_run")
        lib.append("/// let _ = " + chain(twin))
        lib.append("/// ```")
        lib.append("pub struct W%d;" % i)
        lib.append("")
    open(os.path.join(work, "src", "lib.rs"), "w").write("\n".join(lib) + "\n")
    open(os.path.join(work, "Cargo.toml"), "w").write(
        '[package]\nname = "uec_witness"\nversion = "0.0.0"\nedition = "2021"\n\n[workspace]\n\n[lib]\npath = "src/lib.rs"\n\n[dependencies]\npush = { path = "%s/packages/push" }\n' % repo)
    lock = os.path.join(repo, "Cargo.lock")
    if os.path.exists(lock):
        import shutil
        shutil.copy(lock, os.path.join(work, "Cargo.lock"))
    env = dict(os.environ)
    env["CARGO_NET_OFFLINE"] = "true"
    env["CARGO_TARGET_DIR"] = os.path.join(os.environ.get("UEC_WORK", os.path.join(VERIF, ".work")), "witness-target")
    env["RUSTFLAGS"] = "-Awarnings"
    env["RUSTDOCFLAGS"] = "-Awarnings"
    t0 = time.time()
    r = subprocess.run(["cargo", "+nightly", "test", "--doc", "--offline", "--manifest-path", os.path.join(work, "Cargo.toml")], env=env, stdout=subprocess.PIPE, stderr=subprocess.STDOUT, text=True)
    out = r.stdout
    res = {}
    for mline in re.finditer(r"^test src/lib\.rs - W(\d+) \(line (\d+)\)( - compile fail| - compile)? \.\.\. (\w+)", out, re.M):
        idx = int(mline.group(1))
        kind = "fail" if "compile fail" in (mline.group(3) or "") else "twin"
        res.setdefault(idx, {})[kind] = mline.group(4)
    return {"plan": plan, "results": res, "rc": r.returncode, "wall_s": round(time.time() - t0, 1), "tail": out[-1500:]}


def check(ctx):
    F = ctx.F
    builders = [extract_methods(ctx, b) for b in discover_builders(ctx)]
    builders = [b for b in builders if b.methods]
    ctx.floor("R19.1", len(builders), 1, "builder expansions in the build")
    ctx.check(any(b.path == "push::push_vm::push_state::PushStateBuilder" for b in builders), "R19.1", "PushStateBuilder/found", "%s" % [b.path for b in builders])
    witnesses = []
    for b in builders:
        check_builder(ctx, b, witnesses)
    ctx.extra["subjects"] = [b.path for b in builders]
    hook_present = any("verif_states" in b.path for b in builders)
    ctx.extra["hook_structs"] = "present" if hook_present else "hook-absent (feature push/verif not in this tree): subject 2 not covered"
    # ---- R19.2 -------------------------------------------------------------------------------
    wres = None
    if os.environ.get("UEC_SKIP_WITNESSES") != "1":
        wres = witness_crate(ctx, witnesses)
    if wres is None:
        ctx.extra["traces_validated_against_impl"] = 0
        ctx.bad("R19.2", "witnesses-not-run", "witness crate could not be generated") if os.environ.get("UEC_SKIP_WITNESSES") != "1" else None
    else:
        n_ok = 0
        for i, pl in enumerate(wres["plan"]):
            r = wres["results"].get(i, {})
            good = pl["automaton_rejects_illegal"] and pl["automaton_accepts_twin"] and r.get("fail") == "ok" and r.get("twin") == "ok"
            n_ok += 2 if good else 0
            ctx.check(good, "R19.2", "witness/" + pl["name"], "illegal %s: automaton rejects=%s rustc E0599=%s; twin %s: automaton accepts=%s rustc compiles=%s" % (
                ".".join(pl["illegal"]), pl["automaton_rejects_illegal"], r.get("fail"), ".".join(pl["twin"]), pl["automaton_accepts_twin"], r.get("twin")), None,
                bad_detail="automaton and rustc disagree on %s: illegal sequence %s (automaton rejects: %s, rustc compile_fail E0599: %s); twin %s (automaton accepts: %s, rustc: %s)\n%s" % (
                    pl["name"], pl["illegal"], pl["automaton_rejects_illegal"], r.get("fail"), pl["twin"], pl["automaton_accepts_twin"], r.get("twin"), wres["tail"][-600:]))
        ctx.extra["traces_validated_against_impl"] = n_ok
        ctx.extra["witness_wall_s"] = wres["wall_s"]
    # model-checking evidence keys
    ctx.extra.setdefault("states", 0)
    ctx.extra.setdefault("transitions", 0)
    ctx.extra["exhaustive"] = True
