"""Helpers for rules stated over canonical paths (canon.py): relations from path conditions, value
normalisation, outcome classification, and `Trial` (evaluate a rule set without committing its obligations, so a
rule can be accepted in either of two equivalent formulations)."""
from .pat import callee_is, path_ends
from .sym import short, subexprs

SWAP = {"Lt": "Gt", "Gt": "Lt", "Le": "Ge", "Ge": "Le", "Eq": "Eq", "Ne": "Ne"}
NEG = {"Lt": "Ge", "Ge": "Lt", "Gt": "Le", "Le": "Gt", "Eq": "Ne", "Ne": "Eq"}
SYM = {"Lt": "<", "Le": "<=", "Gt": ">", "Ge": ">=", "Eq": "==", "Ne": "!="}
CMPCALLS = {"PartialOrd::lt": "Lt", "PartialOrd::le": "Le", "PartialOrd::gt": "Gt", "PartialOrd::ge": "Ge", "PartialEq::eq": "Eq", "PartialEq::ne": "Ne"}


def truth_of(v):
    """truth value of a recorded branch value for a bool-like condition"""
    if isinstance(v, tuple) and v and v[0] == "not":
        return 0 in v[1]
    return v != 0


def strip(e, calls=("Into::into", "From::from", "NonZero::get", "Clone::clone", "Deref::deref", "Borrow::borrow", "AsRef::as_ref", "ToOwned::to_owned"), casts=True):
    """value identity modulo references, (numeric) conversions and clones"""
    while isinstance(e, tuple):
        if e[0] in ("ref", "deref"):
            e = e[1]
        elif e[0] == "cast" and casts:
            e = e[2]
        elif e[0] == "call" and len(e[3]) == 1 and callee_is(e, *calls):
            e = e[3][0]
        else:
            break
    return e


def rel_of(cond, norm=strip):
    """(a, op, b) with op in Lt/Le/Eq/Ne/Gt/Ge that holds when the condition was taken with the recorded value, or None.
    Understands binop comparisons, !x, PartialOrd/PartialEq method calls and comparisons with a constant Ordering."""
    e, v = cond[0], cond[1]
    t = truth_of(v)
    while e[0] == "unop" and e[1] == "Not":
        e = e[2]
        t = not t
    op = None
    if e[0] == "binop" and e[1] in SWAP:
        op, a, b = e[1], e[2], e[3]
    elif e[0] == "call" and len(e[3]) == 2:
        for name, o in CMPCALLS.items():
            if callee_is(e, name):
                op, a, b = o, e[3][0], e[3][1]
                break
    if op is None:
        return None
    if not t:
        op = NEG[op]
    return (norm(a), op, norm(b))


def rels(path, norm=strip):
    out = []
    for c in path.conds:
        r = rel_of(c, norm)
        if r:
            out.append(r)
    return out


def holds(relations, a_pred, op, b_pred):
    """is `a op b` established (directly or as the mirrored relation) by one of the relations?"""
    for a, o, b in relations:
        if o == op and a_pred(a) and b_pred(b):
            return True
        if SWAP[o] == op and a_pred(b) and b_pred(a):
            return True
    return False


def implies_le(relations, a_pred, b_pred):
    """a <= b follows from a single relation (a<b, a<=b, a==b)"""
    return any(holds(relations, a_pred, o, b_pred) for o in ("Lt", "Le", "Eq"))


def outcome(p):
    """('ok'|'err'|'some'|'none'|'val', payload) of a returning canonical path"""
    r = p.ret
    if r is None:
        return (p.end, None)
    if r[0] == "agg" and r[1] == "adt":
        n = r[2]
        if n.endswith("result::Result::Ok"):
            return ("ok", r[3][0])
        if n.endswith("result::Result::Err"):
            return ("err", r[3][0])
        if n.endswith("option::Option::Some"):
            return ("some", r[3][0])
        if n.endswith("option::Option::None"):
            return ("none", None)
    return ("val", r)


def returning(paths):
    return [p for p in paths if p.end == "return"]


def live(paths):
    return [p for p in paths if p.end != "unreachable"]


def discr_is(path, o_pred, value):
    """the path has established discr(o) == value for an o accepted by o_pred"""
    for c in path.conds:
        if c[0][0] == "discr" and o_pred(c[0][1]) and c[1] == value:
            return True
        if c[0][0] == "discr" and o_pred(c[0][1]) and isinstance(c[1], tuple) and c[1][0] == "not" and value not in c[1][1] and len(c[1][1]) == 1:
            # two-variant enum: "not the other one"
            return True
    return False


def conv_free(e):
    """error payload modulo From::from / Into::into wrapping"""
    while isinstance(e, tuple) and e[0] == "call" and len(e[3]) == 1 and callee_is(e, "From::from", "Into::into"):
        e = e[3][0]
    return e


def calls_of(path, *names):
    return [c for c in path.calls() if callee_is(c, *names)]


class Trial:
    """records the obligations of a rule set without committing them"""

    def __init__(self, ctx):
        self._c = ctx
        self.obs = []

    def __getattr__(self, n):
        return getattr(self._c, n)

    def ok(self, rule, key, detail="", at=None, nontrivial=True):
        self.obs.append(("ok", rule, key, detail, at, nontrivial))

    def bad(self, rule, key, detail="", at=None):
        self.obs.append(("bad", rule, key, detail, at, True))

    def check(self, cond, rule, key, detail="", at=None, bad_detail=None):
        if cond:
            self.ok(rule, key, detail, at)
        else:
            self.bad(rule, key, bad_detail if bad_detail is not None else detail, at)
        return bool(cond)

    def floor(self, rule, n, floor, what=""):
        if n < floor:
            self.bad(rule, "below-floor", "%s: found %d instances, floor %d" % (what, n, floor))
        else:
            self.ok(rule, "floor", "%s: %d instances (floor %d)" % (what, n, floor), nontrivial=False)

    def fn(self, fid, rule="anchor"):
        """a missing anchor fails this formulation only (another one may not need that function)"""
        from .run import AnchorMissing
        f = self.F.fns.get(fid)
        if f is None:
            self.bad(rule, "anchor-missing/" + fid, "anchor function not found in the facts: " + fid)
            raise AnchorMissing(fid)
        self.fns_analysed.add(fid)
        return f

    def failed(self):
        return any(o[0] == "bad" for o in self.obs)

    def commit(self, note=None):
        for kind, rule, key, detail, at, nt in self.obs:
            if kind == "ok":
                self._c.ok(rule, key, (detail + (" [%s]" % note if note else "")), at, nontrivial=nt)
            else:
                self._c.bad(rule, key, detail, at)


def either(ctx, legacy, canonical, note="accepted in canonical form (equivalent spelling of the same outcomes)"):
    """Evaluate `legacy(ctx')`; if it reports a violation, evaluate `canonical(ctx')` - the same clauses stated over
    canonical outcomes.  The instance holds if either formulation holds; if both fail the legacy report (whose keys the
    catalogue and known findings refer to) is committed, followed by the canonical one."""
    from .run import AnchorMissing
    import os
    if os.environ.get("UEC_EITHER") == "second":
        # self-test mode: judge by the second formulation alone (is it, on its own, as strict as the first?)
        t2 = Trial(ctx)
        try:
            canonical(t2)
        except AnchorMissing:
            pass
        t2.commit(note)
        return not t2.failed()
    t1 = Trial(ctx)
    try:
        legacy(t1)
    except AnchorMissing:
        pass
    except (IndexError, KeyError, TypeError, AttributeError) as e:     # the first formulation met a shape it does not know: it does not hold in that form
        t1.bad("shape", "unrecognised-shape", "the first formulation of this rule does not apply to the extracted code: %r" % (e,))
    if not t1.failed():
        t1.commit()
        return True
    t2 = Trial(ctx)
    try:
        canonical(t2)
    except AnchorMissing:
        pass
    except Exception as e:         # a canonical rule must never turn a legacy verdict into an engine failure
        t2.bad("canon", "canonical-rule-error", repr(e))
    if not t2.failed() and any(o[0] == "ok" for o in t2.obs):
        t2.commit(note)
        return True
    import os, sys
    if os.environ.get("UEC_TRACE_EITHER"):
        for o in t2.obs:
            if o[0] == "bad":
                sys.stderr.write("  [either: alternative formulation failed] %s/%s: %s\n" % (o[1], o[2], str(o[3])[:400]))
    # both fail: report the formulation that applies to the code as written - if the first one only says that it does not
    # (its anchor is gone, or it met a shape it does not know), the second one's findings are the diagnosis
    na = lambda o: o[0] == "bad" and (str(o[2]).startswith("anchor-missing/") or o[2] in ("unrecognised-shape",))
    if t2.failed() and all(na(o) for o in t1.obs if o[0] == "bad") and not all(na(o) or o[2] == "canonical-rule-error" for o in t2.obs if o[0] == "bad"):
        t2.commit(note)
    else:
        t1.commit()
    return False


def accumulation(ctx, f, source_pred):
    """The explicit-loop spelling of `source.map(body).collect::<Vec<_>>()`: a Vec created empty in this call, one
    `Iterator::next` on an iterator accepted by `source_pred` per iteration, exactly one `push` onto that Vec per element,
    the Vec used after the loop.  Returns {"out": the Vec's expression, "item": the element expression (the Some payload),
    "bodies": [(path, conditions besides the loop's own, pushed value)], "done": [paths after the source is exhausted]}
    or None when the function is not of that shape.  (Elements are appended in source order, none skipped or repeated:
    a body that does not push, pushes twice, pushes elsewhere, or a second cursor on the source makes it None.)"""
    paths = live(ctx.cpaths(f))
    is_nx = lambda c: callee_is(c, "Iterator::next") and len(c[3]) == 1 and source_pred(c[3][0])
    is_out = lambda e: callee_is(strip(e, calls=()), "Vec::with_capacity", "Vec::new")
    grow_names = ("Vec::push", "Extend::extend", "Vec::insert", "Vec::extend_from_slice", "Vec::append")
    bodies, done, outs, item = [], [], set(), None
    for p in paths:
        nx = [c for c in p.calls() if is_nx(c)]
        if len(nx) != 1 or len([c for c in p.calls() if callee_is(c, "Iterator::next")]) != 1:
            return None
        grow = calls_of(p, *grow_names)
        if discr_is(p, lambda o: o == nx[0], 0):
            if grow or p.end.startswith("loop:"):
                return None
            done.append(p)
            continue
        if p.end.startswith("loop:"):
            if not (len(grow) == 1 and callee_is(grow[0], "Vec::push") and is_out(grow[0][3][0])):
                return None
            outs.add(strip(grow[0][3][0], calls=()))
            item = ("field", nx[0], 0, "Some")
            bodies.append((p, [c for c in p.conds if not (c[0][0] == "discr" and c[0][1] == nx[0])], grow[0][3][1]))
        else:
            if grow:
                return None
            bodies.append((p, [c for c in p.conds if not (c[0][0] == "discr" and c[0][1] == nx[0])], None))     # leaves from inside the loop (error / panic)
    if len(outs) != 1 or not done or not any(b[2] is not None for b in bodies):
        return None
    return {"out": next(iter(outs)), "item": item, "bodies": bodies, "done": done}
