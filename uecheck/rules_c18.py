"""C18 - Generators deliver exactly the requested collections and uniform member choices."""
from .pat import ANY, Bind, Call, Param, CParam, Field, Through, Agg, Const, BinOp, match, find, callee_is, path_ends
from .sym import short, subexprs
from .common import (TryOk, TryErr, is_err_return, return_paths, peel, mentions, derives_from_self, rng_passthrough, closure_paths, cond_str, self_field,
                     audit_panics, CallGraph, check_forwarder, fn_uses)

META = {
    "level": "other",
    "explanation": (
        "Static rule conformance on MIR and ADT/impl facts. Decided: (R18.1) collection::Generator::sample is sample_iter(rng).take(self.size).collect() with take's argument the "
        "size field; the Bitstring and Plushy impls forward to it and store the result unmodified; into/to_collection_generator and Generator::new store (self, size); "
        "(R18.2) all 14 IntoDistribution/ToDistribution impls have Error = EmptySlice and reach exactly one of OneOfCloning::new(self), ChooseCloning::new(self), "
        "Choose::new(self).map_err(|_| EmptySlice) (directly or through the sibling to_distribution) with their receiver as the collection; OneOfCloning::new checks "
        "NonZeroUsize::new(len).ok_or(EmptySlice)? before building, range = Uniform::new(0, n) with n that same length (half-open), num_choices = that same value; "
        "ChooseCloning::new maps Choose::new's error to EmptySlice; (R18.3) OneOfCloning's fields are private, the struct is constructed only in new, nothing writes its fields and no "
        "&mut self method exists; (R18.4) OneOfCloning::sample returns collection.borrow().get(range.sample(rng)).unwrap().clone(), ChooseCloning::sample = self.0.sample(rng).clone(), "
        "num_choices impls forward/return the stored count; panic audit: the unwrap and the debug_assert are discharged by R18.2+R18.3. NOT decided: uniformity (rand's Uniform/Choose contracts). R18.1 also covers the bitstring constructors: Bitstring::random / random_with_probability are the collection generator of num_bits elements over the uniform / BoolGenerator(p) element generator, sampled with the supplied rng."),
    "rules": {
        "R18.1": "Generator::sample = sample_iter(rng).take(self.size).collect(); Bitstring/Plushy forward; constructors store (element_generator, size)",
        "R18.2": "conversion impls: Error = EmptySlice, reach a guarded constructor with self; OneOfCloning::new / ChooseCloning::new guard emptiness; Uniform::new(0, len)",
        "R18.3": "OneOfCloning fields private, constructed only in new, never written, no &mut self methods",
        "R18.4": "membership: samples are clones of collection elements; num_choices; panic audit",
    },
    "trusted_base": ["rand 0.9: Distribution::sample_iter yields samples of the distribution; Uniform::new(lo, hi) samples lo <= x < hi and Uniform::try_from(lo..hi) is defined as that call; slice::Choose::new errs iff empty and samples elements of the slice uniformly", "std take/collect", "uecfacts driver + uecheck rule engine"],
    "assumptions": ["T: Borrow<[U]> returns the same slice on every call (true for Vec, arrays, slices)"],
    "not_decided": ["uniformity of the choices"],
}

D = "ec_core::distributions::"


def choose_guarded_canonical(ctx, f, wrap=None):
    """canonical outcomes of a Choose-based constructor / conversion, however the error mapping is spelled (map_err(|_| EmptySlice),
    .or(Err(EmptySlice)), a match, a shared helper): one Choose::new over the collection itself; Ok -> that chooser (wrapped in
    `wrap` if given), Err -> EmptySlice"""
    from . import ckit as K
    paths = K.live(ctx.cpaths(f))
    src = lambda a: K.strip(peel(a, ("Deref::deref", "[T; N]::as_slice", "Vec::as_slice", "Borrow::borrow", "AsRef::as_ref"), casts=True), calls=()) == ("param", 1)
    seen = set()
    ok = len(paths) == 2
    for p in paths:
        ch = K.calls_of(p, "Choose::new")
        kind, pay = K.outcome(p)
        okp = len(ch) == 1 and len(ch[0][3]) == 1 and src(ch[0][3][0]) and len([c for c in p.calls() if not callee_is(c, "Deref::deref", "[T; N]::as_slice", "Vec::as_slice", "Borrow::borrow", "AsRef::as_ref")]) == 1
        if okp and K.discr_is(p, lambda o: o == ch[0], 0):
            v = K.strip(pay, calls=()) if pay is not None else None
            if wrap is not None and v is not None and v[0] == "agg" and path_ends(v[2], wrap) and len(v[3]) == 1:
                v = K.strip(v[3][0], calls=())
            elif wrap is not None:
                v = None
            okp = kind == "ok" and v == ("field", ch[0], 0, "Ok")
            seen.add("ok")
        elif okp and K.discr_is(p, lambda o: o == ch[0], 1):
            e = K.conv_free(pay) if pay is not None else None
            okp = kind == "err" and e is not None and e[0] == "agg" and path_ends(e[2], "EmptySlice::EmptySlice")
            seen.add("err")
        else:
            okp = False
        ok = ok and okp
    return ok and seen == {"ok", "err"}, "Choose::new(self): Ok -> the chooser, Err -> EmptySlice"


def check(ctx):
    from .common import shadowing_audit
    ctx.floor('R18.1', shadowing_audit(ctx, 'R18.1', ('rand::distr', 'ec_core::distributions::', 'std::iter::FromIterator', 'std::iter::IntoIterator', 'std::iter::Iterator')), 8, 'Distribution / collection-trait impls of workspace types (shadowing audit)')
    F = ctx.F
    # ---- R18.1 ---------------------------------------------------------------------
    f = ctx.fn("<ec_core::distributions::collection::Generator<C> as rand::distr::Distribution<std::vec::Vec<T>>>::sample")
    ps = return_paths(ctx.paths(f))
    pat = Call("Iterator::collect", Call("Iterator::take", Call("Distribution::sample_iter", lambda a: derives_from_self(a, field="element_generator"), lambda a: rng_passthrough(a, 2), nargs=2),
                                        lambda e: self_field(e, "size"), nargs=2), nargs=1)
    good = len(ps) == 1 and match(ps[0].ret, pat) and len(ps[0].calls()) == 3
    if not good:
        # the same as a counted loop: for _ in 0..self.size { out.push(self.element_generator.sample(rng)) } out
        from . import ckit as K
        acc = K.accumulation(ctx, f, lambda e: match(e, Through(Call("IntoIterator::into_iter", Agg("Range::Range", Const(0), lambda x: self_field(x, "size")), nargs=1))) or
                             match(e, Through(Agg("Range::Range", Const(0), lambda x: self_field(x, "size")))))
        if acc is not None and len(acc["bodies"]) == 1 and len(acc["done"]) == 1:
            q, conds, v = acc["bodies"][0]
            draws = [c for c in q.calls() if callee_is(c, "Distribution::sample", "Rng::sample", "Rng::random", "Rng::random_range", "Rng::random_bool")]
            good = not conds and v is not None and len(draws) == 1 and K.strip(v, calls=()) == draws[0] and \
                ((callee_is(draws[0], "Distribution::sample") and derives_from_self(draws[0][3][0], field="element_generator") and rng_passthrough(draws[0][3][1], 2)) or
                 (callee_is(draws[0], "Rng::sample") and rng_passthrough(draws[0][3][0], 2) and derives_from_self(draws[0][3][1], field="element_generator"))) and \
                acc["done"][0].end == "return" and K.strip(acc["done"][0].ret, calls=()) == acc["out"]
    ctx.check(good, "R18.1", "Generator::sample=sample_iter.take(size).collect", short(ps[0].ret, 5) if ps else "-", f.at(),
              bad_detail="expected collect(take(sample_iter(&self.element_generator, rng), self.size)) and nothing else; extracted " + "; ".join(short(p.ret, 8) for p in ps))
    f = ctx.fn("ec_core::distributions::collection::Generator::<C>::new")
    ps = return_paths(ctx.paths(f))
    names = [x["name"] for x in F.adts[D + "collection::Generator"]["variants"][0]["fields"]]
    ctx.check(len(ps) == 1 and match(ps[0].ret, Agg("Generator::Generator", Param(1), Param(2))) and names == ["element_generator", "size"], "R18.1", "Generator::new-stores-(element_generator,size)", short(ps[0].ret), f.at())
    for name in ("into_collection_generator", "to_collection_generator"):
        f = ctx.fn("<C as ec_core::distributions::collection::ConvertToCollectionGenerator>::" + name)
        ps = return_paths(ctx.paths(f))
        ctx.check(len(ps) == 1 and match(ps[0].ret, Call("Generator::new", Param(1), Param(2), nargs=2)) and len(ps[0].calls()) == 1, "R18.1", name + "=Generator::new(self,size)", short(ps[0].ret), f.at())
    f = ctx.fn("ec_linear::genome::bitstring::<impl rand::distr::Distribution<ec_linear::genome::bitstring::Bitstring> for ec_core::distributions::collection::Generator<BG>>::sample")
    ps = return_paths(ctx.paths(f))
    # `self.sample(rng)` and `rng.sample(self)` are the same call (Rng::sample(d) is d.sample(self) by definition)
    ctx.check(len(ps) == 1 and (match(ps[0].ret, Agg("Bitstring::Bitstring", Call("Distribution::sample", Through(Param(1)), lambda a: rng_passthrough(a, 2), nargs=2))) or
                                match(ps[0].ret, Agg("Bitstring::Bitstring", Call("Rng::sample", lambda a: rng_passthrough(a, 2), Through(Param(1)), nargs=2)))) and len(ps[0].calls()) == 1,
              "R18.1", "Bitstring-from-Generator/forwards-and-stores-unmodified", short(ps[0].ret), f.at())
    term = [b["term"] for b in f.blocks if b["term"]["k"] == "call" and (path_ends(b["term"].get("fn") or "", "Distribution::sample") or path_ends(b["term"].get("fn") or "", "Rng::sample"))]
    ctx.check(len(term) == 1 and any(t.get("s") == "std::vec::Vec<bool>" for t in term[0].get("targs", [])), "R18.1", "Bitstring-from-Generator/samples-Vec<bool>", "inner sample is the Vec<bool> collection impl", f.at())
    f = ctx.fn("push::genome::plushy::<impl rand::distr::Distribution<push::genome::plushy::Plushy> for ec_core::distributions::collection::Generator<GG>>::sample")
    ps = return_paths(ctx.paths(f))
    sampled = lambda e: match(e, Call("Rng::sample", lambda a: rng_passthrough(a, 2), Through(Param(1)), nargs=2)) or match(e, Call("Distribution::sample", Through(Param(1)), lambda a: rng_passthrough(a, 2), nargs=2))
    ok = len(ps) == 1 and match(ps[0].ret, Agg("Plushy::Plushy", sampled)) and len(ps[0].calls()) == 1
    if not ok and len(ps) == 1 and callee_is(ps[0].ret, "Plushy::new") and len(ps[0].ret[3]) == 1 and len(ps[0].calls()) == 2:
        # Plushy::new(sampled Vec<PushGene>): `new` collects its argument in order (R05.6 / from_iter rule), a Vec collected is that Vec
        ok = sampled(ps[0].ret[3][0])
    ctx.check(ok, "R18.1", "Plushy-from-Generator/forwards-and-stores-unmodified", short(ps[0].ret) if ps else "-", f.at())
    # FromIterator impls of the workspace genomes collect in order (used by mutators' collect())
    for fid, adt in (("<ec_linear::genome::vector::Vector<T> as std::iter::FromIterator<T>>::from_iter", "Vector::Vector"),
                     ("<push::genome::plushy::Plushy as std::iter::FromIterator<push::genome::plushy::PushGene>>::from_iter", "Plushy::Plushy")):
        f = ctx.fn(fid)
        ps = return_paths(ctx.paths(f))
        from .ctors import value_of, collected_in_order
        v = value_of(ctx, f)         # sees through a delegation to the sibling constructor (from_iter -> new or new -> from_iter)
        ctx.check(len(ps) == 1 and v is not None and match(v, Agg(adt, collected_in_order(Param(1)))) and len(ps[0].calls()) <= 2,
                  "R18.1", adt.split("::")[0] + "::from_iter-collects-in-order", short(ps[0].ret), f.at())
    f = ctx.fn("<ec_linear::genome::bitstring::Bitstring as std::iter::FromIterator<B>>::from_iter")
    ps = return_paths(ctx.paths(f))
    conv = lambda e: e[0] == "fnitem" and (path_ends(e[1], "From::from") or path_ends(e[1], "Into::into"))
    ctx.check(len(ps) == 1 and match(ps[0].ret, Agg("Bitstring::Bitstring", Call("Iterator::collect", Call("Iterator::map", Call("IntoIterator::into_iter", Param(1), nargs=1), conv, nargs=2), nargs=1))) and len(ps[0].calls()) == 3,
              "R18.1", "Bitstring::from_iter-collects-in-order", short(ps[0].ret), f.at())

    # the bitstring constructors are collection generators too: every bit comes from the element generator, num_bits of them
    f = ctx.fn("ec_linear::genome::bitstring::Bitstring::random")
    ps = return_paths(ctx.paths(f))
    ctx.check(len(ps) == 1 and len(ctx.paths(f)) == 1 and match(ps[0].ret, Call("Distribution::sample", Through(Call("ConvertToCollectionGenerator::into_collection_generator", Agg("StandardUniform::StandardUniform"), Param(1), nargs=2)), lambda a: rng_passthrough(a, 2), nargs=2)),
              "R18.1", "Bitstring::random=collection-generator(StandardUniform,num_bits).sample(rng)", short(ps[0].ret, 5) if ps else "-", f.at(),
              bad_detail="Bitstring::random(num_bits, rng) must be the collection generator of num_bits elements over the uniform bit generator, sampled with rng (every element drawn from the element generator); extracted " + "; ".join(short(q.ret, 8) for q in ps))
    f = ctx.fn("ec_linear::genome::bitstring::Bitstring::random_with_probability")
    ps = return_paths(ctx.paths(f))
    ctx.check(len(ps) == 1 and len(ctx.paths(f)) == 1 and match(ps[0].ret, Call("Distribution::sample", Through(Call("ConvertToCollectionGenerator::into_collection_generator", Call("BoolGenerator::new", Param(2), nargs=1), Param(1), nargs=2)), lambda a: rng_passthrough(a, 3), nargs=2)),
              "R18.1", "Bitstring::random_with_probability=collection-generator(BoolGenerator(p),num_bits).sample(rng)", short(ps[0].ret, 5) if ps else "-", f.at(),
              bad_detail="Bitstring::random_with_probability must be the collection generator of num_bits elements over BoolGenerator::new(probability); extracted " + "; ".join(short(q.ret, 8) for q in ps))

    # ---- R18.2 -----------------------------------------------------------------------
    impls = [im for im in F.impls if im.get("trait") in (D + "conversion::IntoDistribution", D + "conversion::ToDistribution")]
    ctx.floor("R18.2", len(impls), 14, "IntoDistribution/ToDistribution impls")
    for im in impls:
        tys = {it["name"]: it.get("ty", {}).get("s") for it in im["items"] if it["kind"] == "AssocTy"}
        key = "%s-for-%s/%s" % (im["trait"].split("::")[-1], im["self"]["s"], tys.get("Distribution", "?").split("::")[-1][:40])
        ctx.check(tys.get("Error") == D + "wrappers::choose_cloning::EmptySlice", "R18.2", key + "/Error=EmptySlice", str(tys.get("Error")), im["span"]["at"])
        fns = [f for f in F.fns.values() if f.parent == im["id"] and f.assoc_name in ("into_distribution", "to_distribution")]
        if len(fns) != 1:
            ctx.bad("R18.2", key + "/method-missing", "no conversion method", im["span"]["at"])
            continue
        f = fns[0]
        ctx.fns_analysed.add(f.id)
        ps = return_paths(ctx.paths(f))
        r = ps[0].ret if len(ps) == 1 else None
        good = False
        how = "-"
        if r is not None:
            src = lambda a: peel(a, ("Deref::deref", "[T; N]::as_slice", "Vec::as_slice"), casts=True) == ("param", 1)
            if match(r, Call(("OneOfCloning::new", "ChooseCloning::new"), src, nargs=1)) and len(ps[0].calls()) <= 2:
                good, how = True, short(r, 3)
            elif match(r, Call("Result::map_err", Call("Choose::new", src, nargs=1), ANY, nargs=2)):
                clo = r[3][1]
                cps = closure_paths(ctx, clo) if clo[0] == "agg" and clo[1] == "closure" else None
                good = bool(cps) and len(cps) == 1 and match(cps[0].ret, Agg("EmptySlice::EmptySlice"))
                how = short(r, 3)
            elif match(r, Call("ToDistribution::to_distribution", src, nargs=1)) and len(ps[0].calls()) <= 2:
                good, how = True, short(r, 3) + " (sibling impl)"
        if not good:
            good, how2 = choose_guarded_canonical(ctx, f)
            how = how2 if good else how
        ctx.check(good, "R18.2", key + "/reaches-guarded-constructor-with-self", how, f.at(),
                  bad_detail="conversion must be OneOfCloning::new(self) | ChooseCloning::new(self) | Choose::new(self).map_err(|_| EmptySlice) | to_distribution(self); extracted " + "; ".join(short(p.ret, 6) for p in ps))
    # OneOfCloning::new
    f = ctx.fn("ec_core::distributions::wrappers::owned::OneOfCloning::<T, U>::new")
    ps = return_paths(ctx.paths(f))
    okp = [p for p in ps if not is_err_return(p)]
    erp = [p for p in ps if is_err_return(p)]
    ln = Call("[T]::len", Call("Borrow::borrow", Through(Param(1)), nargs=1), nargs=1)
    num = Bind("num", TryOk(Call("Option::ok_or", Call("NonZero::new", ln, nargs=1), Agg("EmptySlice::EmptySlice"), nargs=2)))
    rng_ = TryOk(Call("Result::map_err", Call("Uniform::new", Const(0), Call("NonZero::get", Bind("num"), nargs=1), nargs=2), ANY, nargs=2))
    b = {}
    good = len(okp) == 1 and match(okp[0].ret, Agg("Result::Ok", Agg("OneOfCloning::OneOfCloning", Param(1), ANY, num, ANY)), b) and match(okp[0].ret[3][0][3][1], rng_, b)
    names = [x["name"] for x in F.adts[D + "wrappers::owned::OneOfCloning"]["variants"][0]["fields"]]
    canon_new = None
    if not good:
        canon_new = one_of_new_canonical(ctx, f)
        good = canon_new
    ctx.check(good and names == ["collection", "range", "num_choices", "_p"], "R18.2", "OneOfCloning::new/nonzero-len-then-Uniform::new(0,len)", short(okp[0].ret, 6)[:300] if okp else "-", f.at(),
              bad_detail="expected Ok(OneOfCloning{collection, range: Uniform::new(0, n.get())?, num_choices: n}) with n = NonZeroUsize::new(collection.borrow().len()).ok_or(EmptySlice)?; extracted " + "; ".join(short(p.ret, 9) for p in okp))
    empties = [p for p in erp if match(p.ret, Call("FromResidual::from_residual", TryErr(Call("Option::ok_or", Call("NonZero::new")))))]
    ctx.check((len(empties) == 1 and not any(callee_is(c, "Uniform::new", "Uniform::new_inclusive") for c in empties[0].calls())) or bool(canon_new), "R18.2", "OneOfCloning::new/empty-rejected-before-range-built",
              short(empties[0].ret, 5) if empties else "-", f.at())
    f = ctx.fn("ec_core::distributions::wrappers::choose_cloning::ChooseCloning::<'a, T>::new")
    ps = return_paths(ctx.paths(f))
    okp = [p for p in ps if not is_err_return(p)]
    b = {}
    good = len(okp) == 1 and match(okp[0].ret, Agg("Result::Ok", Agg("ChooseCloning::ChooseCloning", TryOk(Call("Result::map_err", Call("Choose::new", Param(1), nargs=1), Bind("clo"), nargs=2)))), b)
    if good:
        cps = closure_paths(ctx, b["clo"]) if b["clo"][0] == "agg" else None
        good = bool(cps) and len(cps) == 1 and match(cps[0].ret, Agg("EmptySlice::EmptySlice"))
    if not good:
        good, _ = choose_guarded_canonical(ctx, f, wrap="ChooseCloning::ChooseCloning")
    ctx.check(good, "R18.2", "ChooseCloning::new/Choose::new-error->EmptySlice", short(okp[0].ret, 5) if okp else "-", f.at())

    # ---- R18.3 -------------------------------------------------------------------------
    adt = F.adts[D + "wrappers::owned::OneOfCloning"]
    pubs = [x["name"] for x in adt["variants"][0]["fields"] if x["vis"] != "in:ec_core::distributions::wrappers::owned"]
    ctx.check(not pubs, "R18.3", "OneOfCloning/fields-private", "non-private fields: %s" % pubs, adt["span"]["at"])
    builders = []
    writers = []
    for fn in F.fns.values():
        for bb in fn.blocks:
            for st in bb["stmts"]:
                if st["k"] != "assign":
                    continue
                rv = st["rv"]
                if rv["k"] == "agg" and rv.get("adt") == D + "wrappers::owned::OneOfCloning":
                    builders.append(fn.id)
                for e in st["lhs"]["p"]:
                    if isinstance(e, dict) and e.get("adt") == D + "wrappers::owned::OneOfCloning":
                        writers.append(fn.id)
                if rv["k"] == "ref" and rv["mut"]:
                    for e in rv["place"]["p"]:
                        if isinstance(e, dict) and e.get("adt") == D + "wrappers::owned::OneOfCloning":
                            writers.append(fn.id)
    ctx.check(set(builders) == {"ec_core::distributions::wrappers::owned::OneOfCloning::<T, U>::new"}, "R18.3", "OneOfCloning/constructed-only-in-new", str(sorted(set(builders))))
    ctx.check(not writers, "R18.3", "OneOfCloning/fields-never-written-or-mutably-borrowed", str(sorted(set(writers))))
    muts = []
    for im in F.impls:
        if im["self"].get("path") == D + "wrappers::owned::OneOfCloning":
            for fn in F.fns.values():
                if fn.parent == im["id"] and fn.takes_self and fn.locals[1]["ty"].get("k") == "refmut":
                    muts.append(fn.id)
    ctx.check(not muts, "R18.3", "OneOfCloning/no-&mut-self-methods", str(muts))

    # ---- R18.4 ----------------------------------------------------------------------------
    f = ctx.fn("<ec_core::distributions::wrappers::owned::OneOfCloning<T, U> as rand::distr::Distribution<U>>::sample")
    ps = return_paths(ctx.paths(f))
    idx = Bind("idx", Call("Distribution::sample", lambda a: derives_from_self(a, field="range"), lambda a: rng_passthrough(a, 2), nargs=2))
    coll = Call("Borrow::borrow", lambda a: derives_from_self(a, field="collection"), nargs=1)
    pat = Call("Clone::clone", Call("Option::unwrap", Call("[T]::get", coll, idx, nargs=2), nargs=1), nargs=1)
    ctx.check(len(ps) == 1 and match(ps[0].ret, pat) and sum(1 for c in ps[0].calls() if callee_is(c, "Distribution::sample")) == 1, "R18.4", "OneOfCloning::sample=collection[range.sample(rng)].clone()", short(ps[0].ret, 5) if ps else "-", f.at(),
              bad_detail="expected clone(unwrap(get(borrow(&self.collection), sample(&self.range, rng)))); extracted " + "; ".join(short(p.ret, 8) for p in ps))
    f = ctx.fn("<ec_core::distributions::wrappers::choose_cloning::ChooseCloning<'_, T> as rand::distr::Distribution<T>>::sample")
    ps = return_paths(ctx.paths(f))
    ctx.check(len(ps) == 1 and match(ps[0].ret, Call("Clone::clone", Call("Distribution::sample", lambda a: derives_from_self(a, field=0), lambda a: rng_passthrough(a, 2), nargs=2), nargs=1)) and len(ps[0].calls()) == 2,
              "R18.4", "ChooseCloning::sample=self.0.sample(rng).clone()", short(ps[0].ret), f.at())
    f = ctx.fn("<ec_core::distributions::wrappers::owned::OneOfCloning<T, U> as ec_core::distributions::choices::ChoicesDistribution>::num_choices")
    ps = return_paths(ctx.paths(f))
    ctx.check(len(ps) == 1 and self_field(ps[0].ret, "num_choices") and not ps[0].calls(), "R18.4", "OneOfCloning::num_choices=stored-count", short(ps[0].ret), f.at())
    for fid, callee, chk in (("<ec_core::distributions::wrappers::choose_cloning::ChooseCloning<'_, T> as ec_core::distributions::choices::ChoicesDistribution>::num_choices", "Choose::num_choices", lambda a: derives_from_self(a, field=0)),
                             ("<rand::distr::slice::Choose<'_, T> as ec_core::distributions::choices::ChoicesDistribution>::num_choices", "Choose::num_choices", lambda a: derives_from_self(a)),
                             ("<&T as ec_core::distributions::choices::ChoicesDistribution>::num_choices", "ChoicesDistribution::num_choices", lambda a: derives_from_self(a)),
                             ("<&mut T as ec_core::distributions::choices::ChoicesDistribution>::num_choices", "ChoicesDistribution::num_choices", lambda a: derives_from_self(a))):
        f = ctx.fn(fid)
        check_forwarder(ctx, "R18.4", fid.split(" as ")[0].lstrip("<")[:50] + "/num_choices-forwards", f, callee, [chk], wrappers=())
    # panic audit
    scope = {fn.id for fn in F.fns.values() if (fn.id.startswith("<ec_core::distributions::") or fn.id.startswith("ec_core::distributions::") or
                                                  " as ec_core::distributions::" in fn.id) and "fmt::" not in fn.id}
    discharge = [
        {"fn": "wrappers::owned::OneOfCloning<T, U> as rand::distr::Distribution<U>>::sample", "what": "Option::unwrap",
         "reason": "idx < len: range = Uniform::new(0, len) built in new (R18.2) and neither field can change (R18.3)", "guard": guard_one_of},
        {"fn": "wrappers::owned::OneOfCloning<T, U> as rand::distr::Distribution<U>>::sample", "what": "panicking::panic_fmt",
         "reason": "debug_assert!(len >= idx): same invariant", "guard": guard_one_of},
    ]
    audit_panics(ctx, "R18.4", scope, discharge, floor=2)


def one_of_new_canonical(ctx, f):
    """OneOfCloning::new over canonical outcomes: empty collection -> Err(EmptySlice) before any range is built; otherwise the
    range is Uniform::new(0, n) - or `Uniform::try_from(0..n)`, which rand defines as exactly that call - with n the
    NonZero length that is also stored as num_choices; a range error -> Err(EmptySlice); else Ok(Self{collection, range, n})"""
    from . import ckit as K
    paths = K.live(ctx.cpaths(f))
    is_len = lambda e: match(K.strip(e, calls=()), Call("[T]::len", Call("Borrow::borrow", Through(Param(1)), nargs=1), nargs=1)) or \
        match(e, Call("[T]::len", Call("Borrow::borrow", Through(Param(1)), nargs=1), nargs=1))
    nzs = {c for p in paths for c in p.calls() if callee_is(c, "NonZero::new") and len(c[3]) == 1 and is_len(c[3][0])}
    if len(nzs) != 1:
        return False
    nz = list(nzs)[0]
    n_val = ("field", nz, 0, "Some")

    def is_range_ctor(c):
        if callee_is(c, "Uniform::new") and len(c[3]) == 2:
            lo, hi = c[3]
        elif callee_is(c, "TryFrom::try_from") and (c[2] or "").startswith("<rand::distr::Uniform<") and len(c[3]) == 1 and match(c[3][0], Agg("Range::Range", ANY, ANY)):
            lo, hi = c[3][0][3]
        else:
            return False
        return match(lo, Const(0)) and callee_is(K.strip(hi, calls=("Into::into", "From::from")), "NonZero::get") and K.strip(K.strip(hi, calls=("Into::into", "From::from"))[3][0], calls=()) == n_val
    seen = set()
    for p in paths:
        kind, pay = K.outcome(p)
        ctors = [c for c in p.calls() if callee_is(c, "Uniform::new", "Uniform::new_inclusive", "TryFrom::try_from", "Uniform::try_from")]
        if K.discr_is(p, lambda o: K.strip(o, calls=()) == nz, 0):
            if not (kind == "err" and match(K.conv_free(pay), Agg("EmptySlice::EmptySlice")) and not ctors):
                return False
            seen.add("empty")
            continue
        if not (K.discr_is(p, lambda o: K.strip(o, calls=()) == nz, 1) and len(ctors) == 1 and is_range_ctor(ctors[0])):
            return False
        u = ctors[0]
        if K.discr_is(p, lambda o: K.strip(o, calls=()) == u, 0):
            ok = kind == "ok" and pay is not None and match(pay, Agg("OneOfCloning::OneOfCloning", Param(1), lambda e: K.strip(e, calls=()) == ("field", u, 0, "Ok"), lambda e: K.strip(e, calls=()) == n_val, ANY))
            if not ok:
                return False
            seen.add("ok")
        elif K.discr_is(p, lambda o: K.strip(o, calls=()) == u, 1):
            if not (kind == "err" and match(K.conv_free(pay), Agg("EmptySlice::EmptySlice"))):
                return False
            seen.add("range-err")
        else:
            return False
    return {"empty", "ok"} <= seen


def guard_one_of(ctx, s):
    ok = all(o["ok"] for o in ctx.obs if o["rule"] in ("R18.2", "R18.3") and "OneOfCloning" in o["key"])
    n = sum(1 for o in ctx.obs if o["rule"] in ("R18.2", "R18.3") and "OneOfCloning" in o["key"])
    return ok and n >= 5, "%d OneOfCloning obligations of R18.2/R18.3 hold" % n
