"""Check runner: extract facts from the repository's current working tree, run
one property's rule module, write evidence, report violations."""
import argparse
import importlib
import json
import os
import re
import subprocess
import sys
import time
import traceback

from .facts import Facts, FactsError
from . import sym

VERIF = os.path.dirname(os.path.dirname(os.path.abspath(__file__)))
PROPS = ["C%02d" % i for i in range(1, 20)]


class AnchorMissing(Exception):
    pass


class Ctx:
    def __init__(self, prop, facts, tier, seed, facts_dir):
        self.prop = prop
        self.F = facts
        self.tier = tier
        self.seed = seed
        self.facts_dir = facts_dir
        self.obs = []           # obligations
        self.fns_analysed = set()
        self.sites = 0
        self._paths = {}
        self.notes = []
        self.extra = {}

    # -- obligations ---------------------------------------------------
    def ok(self, rule, key, detail="", at=None, nontrivial=True):
        key = key.replace(" ", "")
        self.obs.append({"rule": rule, "key": key, "ok": True, "detail": detail, "at": at, "nontrivial": nontrivial})

    def bad(self, rule, key, detail="", at=None):
        key = key.replace(" ", "")
        self.obs.append({"rule": rule, "key": key, "ok": False, "detail": detail, "at": at, "nontrivial": True})

    def check(self, cond, rule, key, detail="", at=None, bad_detail=None):
        if cond:
            self.ok(rule, key, detail, at)
        else:
            self.bad(rule, key, bad_detail if bad_detail is not None else detail, at)
        return bool(cond)

    def floor(self, rule, n, floor, what=""):
        """Fail closed when fewer instances than were confirmed by hand are found."""
        if n < floor:
            self.bad(rule, "below-floor", "%s: found %d instances, floor %d" % (what, n, floor))
        else:
            self.ok(rule, "floor", "%s: %d instances (floor %d)" % (what, n, floor), nontrivial=False)

    # -- anchors ---------------------------------------------------------
    def fn(self, fid, rule="anchor"):
        f = self.F.fns.get(fid)
        if f is None:
            self.bad(rule, "anchor-missing/" + fid, "anchor function not found in the facts: " + fid)
            raise AnchorMissing(fid)
        self.fns_analysed.add(fid)
        return f

    def trait_fn(self, trait_item, self_ty, rule="anchor"):
        """the workspace fn implementing `trait_item` for the impl whose self type prints as `self_ty`
        (independent of how rustc prints the impl path)"""
        cands = []
        for f in self.F.trait_method_impls(trait_item):
            im = self.F.impl_of_fn(f)
            if im and im["self"]["s"] == self_ty:
                cands.append(f)
        if len(cands) != 1:
            self.bad(rule, "anchor-missing/%s-for-%s" % (trait_item, self_ty), "expected exactly one impl of %s for %s, found %d" % (trait_item, self_ty, len(cands)))
            raise AnchorMissing(trait_item)
        self.fns_analysed.add(cands[0].id)
        return cands[0]

    def fn_opt(self, fid):
        f = self.F.fns.get(fid)
        if f is not None:
            self.fns_analysed.add(fid)
        return f

    def paths(self, fn):
        if isinstance(fn, str):
            fn = self.fn(fn)
        self.fns_analysed.add(fn.id)
        p = self._paths.get(fn.id)
        if p is None:
            p = sym.walk(fn, self.F)
            self._paths[fn.id] = p
        return p

    def cpaths(self, fn):
        """canonical paths (std Option/Result/bool combinators unfolded into path splits, closures inlined)"""
        if isinstance(fn, str):
            fn = self.fn(fn)
        self.fns_analysed.add(fn.id)
        key = ("canon", fn.id)
        p = self._paths.get(key)
        if p is None:
            p = sym.walk(fn, self.F, canon=True)
            self._paths[key] = p
        return p

    def trait_impl_fns(self, trait_item):
        fs = self.F.trait_method_impls(trait_item)
        for f in fs:
            self.fns_analysed.add(f.id)
        return sorted(fs, key=lambda f: f.id)


def load_known():
    p = os.path.join(VERIF, "known_findings.jsonl")
    out = []
    if os.path.exists(p):
        for line in open(p):
            line = line.strip()
            if not line or line.startswith("#"):
                continue
            out.append(json.loads(line))
    return out


def sanitize(s):
    return re.sub(r"[^A-Za-z0-9_.-]+", "_", s)[:150]


def extract(facts_dir, extra_args=()):
    cmd = [os.path.join(VERIF, "extract.sh"), facts_dir] + list(extra_args)
    r = subprocess.run(cmd, stdout=subprocess.PIPE, stderr=subprocess.PIPE, text=True)
    if r.returncode != 0:
        raise FactsError("fact extraction failed:\n" + r.stderr[-3000:])
    return r.stdout.strip().splitlines()[-1]


def run_property(prop, tier, seed, facts_dir=None, do_extract=True, quiet=False, extract_args=(), write=True, label=None):
    t0 = time.time()
    mod = importlib.import_module("uecheck.rules_" + prop.lower())
    if facts_dir is None:
        facts_dir = os.path.join(os.environ.get("UEC_WORK", os.path.join(VERIF, ".work")), "facts-" + prop)
    ev_dir = os.environ.get("UEC_EVIDENCE_DIR", os.path.join(VERIF, "evidence"))
    viol_dir = os.path.join(ev_dir, "violations")
    if write and os.path.isdir(viol_dir):
        for fn_ in os.listdir(viol_dir):
            if fn_.startswith(prop + "-"):
                try:
                    os.remove(os.path.join(viol_dir, fn_))
                except OSError:
                    pass
    nonce = None
    fatal = None
    ctx = None
    try:
        if do_extract:
            nonce = extract(facts_dir, extract_args)
        F = Facts(facts_dir, nonce)
        ctx = Ctx(prop, F, tier, seed, facts_dir)
        try:
            mod.check(ctx)
        except AnchorMissing:
            pass
    except FactsError as e:
        fatal = "facts: " + str(e)
    except Exception:
        fatal = "internal: " + traceback.format_exc()

    known = [k for k in load_known() if k["property"] == prop]
    open_keys = {k["key"]: k for k in known if k.get("status") == "open"}

    obs = ctx.obs if ctx else []
    if fatal:
        obs = obs + [{"rule": "engine", "key": "engine-failure", "ok": False, "detail": fatal, "at": None, "nontrivial": True}]
    viols = []
    knowns = []
    for o in obs:
        if not o["ok"]:
            full = "%s/%s/%s" % (prop, o["rule"], o["key"])
            o["full_key"] = full
            if full in open_keys:
                knowns.append((o, open_keys[full]))
            else:
                viols.append(o)

    # evidence ---------------------------------------------------------
    meta = getattr(mod, "META", {})
    level = meta.get("level", "other")
    n_ob = len(obs)
    n_ok = sum(1 for o in obs if o["ok"])
    per_rule = {}
    for o in obs:
        r = per_rule.setdefault(o["rule"], {"instances": 0, "ok": 0})
        r["instances"] += 1
        r["ok"] += 1 if o["ok"] else 0
    distinct = len({(o["rule"], o["key"]) for o in obs if o.get("nontrivial")})
    samples = []
    seen_rules = set()
    for o in obs:
        if o["rule"] in seen_rules and len(samples) >= 12:
            continue
        if o.get("nontrivial") and (o["rule"] not in seen_rules or len(samples) < 12):
            seen_rules.add(o["rule"])
            samples.append({"rule": o["rule"], "instance": o["key"], "holds": o["ok"],
                            "extracted": o["detail"][:600], "at": o["at"]})
        if len(samples) >= 40:
            break
    cov = {
        "explanation": meta.get("explanation", ""),
        "obligations": n_ob,
        "discharged": n_ok,
        "checker_cmd": "./check %s --tier %s" % (prop, tier),
        "trusted_base": meta.get("trusted_base", []),
        "evaluations": n_ob,
        "distinct_nontrivial": distinct,
        "rule": "one evaluation = one rule instance (rule id x program construct: function, call site, "
                "variant, impl) decided on the MIR/impl facts of this run; non-trivial = the instance matched "
                "at least one real construct of the analysed tree (floor/bookkeeping records are excluded); "
                "distinct = distinct (rule, instance key) pairs",
        "samples": samples,
        "functions_analysed": len(ctx.fns_analysed) if ctx else 0,
        "per_rule": per_rule,
        "rules": meta.get("rules", {}),
        "not_decided": meta.get("not_decided", []),
        "known_findings_reported": [k["key"] for _, k in knowns],
    }
    if ctx:
        cov.update(ctx.extra)
        rr = getattr(ctx.F, "reference_report", None) or {}
        cov["reference_equivalence"] = {
            "what": "functions whose body differs textually from the reference tree (/verif/reference: the tree on which every rule was hand-confirmed) "
                    "but has the same canonical summary (same conditions, effect sequence, results) are analysed through the reference body; everything else as it is",
            "reference_available": bool(rr.get("available")),
            "bodies_changed_but_canonically_equivalent": len(rr.get("equivalent", [])),
            "bodies_changed_and_different": len(rr.get("different", [])),
            "functions_not_in_reference": len(rr.get("new", [])),
            "equivalent_sample": sorted(rr.get("equivalent", []))[:10],
            "different_sample": sorted(rr.get("different", []))[:10],
            "note": rr.get("note"),
        }
    if level == "model_checking" and ctx and "states" in ctx.extra:
        pass
    ev = {
        "property_id": prop,
        "tier": tier,
        "seed": seed,
        "level": level,
        "coverage": cov,
        "assumptions": meta.get("assumptions", []),
        "wall_s": round(time.time() - t0, 3),
        "violations": len(viols),
    }
    if write:
        write_evidence(ev_dir, prop, ev)

    # report -------------------------------------------------------------
    if not quiet:
        print("%s tier=%s%s: %d obligations, %d discharged, %d violations, %d known findings, %d functions analysed (%.1fs)" % (
            prop, tier, (" [" + label + "]") if label else "", n_ob, n_ok, len(viols), len(knowns), len(ctx.fns_analysed) if ctx else 0, time.time() - t0))
        for r, v in sorted(per_rule.items()):
            print("  %-28s %4d instances, %4d ok" % (r, v["instances"], v["ok"]))
    for o, k in knowns:
        print("KNOWN-FINDING: property=%s %s [%s]" % (prop, k.get("what", ""), o["full_key"]))
    if viols:
        os.makedirs(viol_dir, exist_ok=True)
    for o in viols:
        path = os.path.join(viol_dir, "%s-%s.json" % (prop, sanitize(o["rule"] + "-" + o["key"])))
        with open(path, "w") as f:
            json.dump({"property": prop, "rule": o["rule"], "key": o["full_key"], "detail": o["detail"],
                       "at": o["at"], "rule_text": meta.get("rules", {}).get(o["rule"], "")}, f, indent=1)
        print("  violation %s at %s: %s" % (o["full_key"], o["at"], o["detail"][:1500]))
        print("VIOLATION property=%s replay=%s" % (prop, path))
    if write:
        return 1 if viols else 0
    return (1 if viols else 0), ev


def write_evidence(ev_dir, prop, ev):
    os.makedirs(ev_dir, exist_ok=True)
    with open(os.path.join(ev_dir, prop + ".json"), "w") as f:
        json.dump(ev, f, indent=1, sort_keys=False)
        f.write("\n")


def main(argv=None):
    ap = argparse.ArgumentParser()
    ap.add_argument("prop")
    ap.add_argument("--tier", default=os.environ.get("VERIF_TIER", "quick"))
    ap.add_argument("--facts", default=None, help="use an existing facts dir (no extraction)")
    ap.add_argument("--replay", default=None)
    a = ap.parse_args(argv)
    seed = int(os.environ.get("VERIF_SEED", "0") or 0)
    if a.replay:
        j = json.load(open(a.replay))
        print("replaying %s: rule %s\n  %s\n  recorded: %s" % (j["key"], j["rule"], j.get("rule_text", ""), j["detail"]))
        import io, contextlib
        buf = io.StringIO()
        with contextlib.redirect_stdout(buf):
            rc = run_property(j["property"], a.tier, seed)
        out = buf.getvalue()
        still = [l for l in out.splitlines() if l.startswith("  violation " + j["key"] + " ")]
        if still:
            print("still fails on the current tree:\n" + still[0][:2000])
            print("VIOLATION property=%s replay=%s" % (j["property"], a.replay))
            return 1
        print("this rule instance holds on the current tree (%s)" % out.splitlines()[0] if out else "")
        return 0
    if a.tier == "thorough":
        from . import thorough
        return thorough.run(a.prop, seed)
    return run_property(a.prop, a.tier, seed, facts_dir=a.facts, do_extract=a.facts is None)


if __name__ == "__main__":
    sys.exit(main())
