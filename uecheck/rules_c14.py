"""C14 - Composed operators run their parts in order and stop at the first failure."""
from .pat import ANY, Bind, Call, Param, CParam, Field, Through, Agg, Const, match, find, callee_is, path_ends
from .sym import short, subexprs
from .common import (TryOk, TryErr, is_err_return, return_paths, peel, mentions, derives_from_self, rng_passthrough,
                     check_forwarder, closure_paths, audit_panics, CallGraph)

META = {
    "level": "other",
    "explanation": (
        "Static rule conformance on the MIR of every combinator's Operator::apply (Then, And, Map x3, RepeatWith), of the transparent wrappers "
        "(Identity, Constant, GenomeExtractor, Select/Mutate/Recombine, the &M/&mut M/&Rec/&S impls) and of Composable's provided methods. Decided per "
        "path: which inner apply calls happen, in which order, on which input (data flow from the input parameter / from the first result's Ok payload), "
        "with which rng (always the function's own rng parameter), which error constructor tags which part (First/Second, MapError(_, index) with the element's "
        "own index), that the second part is only reached on the first part's Ok edge (early exit: no later part runs or consumes randomness after a failure), "
        "and that the wrappers are single forwarders. Arbitrary nesting follows by structural induction over these per-combinator facts (argued, not mechanised)."),
    "rules": {
        "R14.1": "Then: g.apply(ok(f.apply(x, rng)), rng); f's error -> ThenError::First and early return without calling g; g's error -> Second",
        "R14.2": "And: f.apply(x.clone(), rng) then g.apply(x, rng); Ok((f_value, g_value)); First/Second; g only after f succeeded",
        "R14.3": "Map: element 0 then element 1 with MapError(_, 0) / MapError(_, 1), outputs in input order; Vec: into_iter().enumerate().map(f.apply(x) tagged with the enumerate index).collect() with no reordering adaptor",
        "R14.4": "RepeatWith: repeat_with(|| f.apply(input.clone(), rng)).take(N) collected into Result<Vec,_>, N the const generic; unreachable! discharged by take(N)",
        "R14.5": "every inner apply/mutate/recombine/select receives the function's own rng parameter",
        "R14.6": "transparent wrappers are single forwarders; Identity returns its input; Constant returns value.clone(); GenomeExtractor returns genome().clone(); Composable::then/and/then_map/apply_twice/apply_n_times/map/wrap build the documented combinator with (self, op) in order",
    },
    "trusted_base": ["rustc MIR construction and `?` desugaring (Try::branch / FromResidual)", "std iterator adaptors into_iter/enumerate/map/take/repeat_with/collect::<Result<_,_>> (in-order, short-circuiting)", "uecfacts driver + uecheck rule engine"],
    "assumptions": [],
    "not_decided": ["nothing value-level is needed; nesting is by structural induction (argued)"],
}

OP = "ec_core::operator::Operator<%s>>::apply"
APPLY = ("Operator::apply",)


def fitem(name):
    return lambda e: e[0] == "fnitem" and path_ends(e[1], name)


def apply_of(field, inp, rng=3):
    return Call("Operator::apply", lambda a: derives_from_self(a, field=field), inp, lambda a: rng_passthrough(a, rng), nargs=3)


def check(ctx):
    F = ctx.F
    # ---------------- Then -------------------------------------------------
    f = ctx.fn("<ec_core::operator::composable::then::Then<F, G> as " + OP % "A")
    ps = return_paths(ctx.paths(f))
    okp = [p for p in ps if not is_err_return(p)]
    erp = [p for p in ps if is_err_return(p)]
    first = Bind("first", Call("Result::map_err", apply_of("f", Param(2)), fitem("ThenError::First"), nargs=2))
    pat_ok = Call("Result::map_err", apply_of("g", TryOk(first)), fitem("ThenError::Second"), nargs=2)
    good = len(okp) == 1 and match(okp[0].ret, pat_ok)
    ctx.check(good, "R14.1", "Then/second-fed-with-first-result", short(okp[0].ret, 7) if okp else "-", f.at(),
              bad_detail="expected map_err(g.apply(ok(map_err(f.apply(x, rng), First)), rng), Second); extracted " + "; ".join(short(p.ret, 9) for p in okp))
    if okp:
        aps = [c for c in okp[0].calls() if callee_is(c, *APPLY)]
        ctx.check(len(aps) == 2 and derives_from_self(aps[0][3][0], field="f") and derives_from_self(aps[1][3][0], field="g"),
                  "R14.1", "Then/order-f-then-g", " -> ".join(short(a[3][0], 3) for a in aps), f.at())
        cond_ok = len(okp[0].conds) == 1 and okp[0].conds[0][1] == 0 and okp[0].conds[0][0][0] == "discr" and \
            match(okp[0].conds[0][0][1], Call("Try::branch", first))
        ctx.check(cond_ok, "R14.1", "Then/g-only-on-first-ok-edge", "g is reached only through Continue of f's `?`", f.at())
    good = len(erp) == 1 and match(erp[0].ret, Call("FromResidual::from_residual", TryErr(first))) and \
        [c for c in erp[0].calls() if callee_is(c, *APPLY)].__len__() == 1
    ctx.check(good, "R14.1", "Then/first-error-stops-tagged-First", short(erp[0].ret, 6) if erp else "-", f.at(),
              bad_detail="the error path must return f's error tagged ThenError::First without applying g; extracted " + "; ".join(short(p.ret, 9) for p in erp))

    # ---------------- And ----------------------------------------------------
    f = ctx.fn("<ec_core::operator::composable::and::And<F, G> as " + OP % "A")
    ps = return_paths(ctx.paths(f))
    okp = [p for p in ps if not is_err_return(p)]
    erp = [p for p in ps if is_err_return(p)]
    fa = Bind("fa", Call("Result::map_err", apply_of("f", Call("Clone::clone", Through(Param(2)), nargs=1)), fitem("AndError::First"), nargs=2))
    ga = Bind("ga", Call("Result::map_err", apply_of("g", Param(2)), fitem("AndError::Second"), nargs=2))
    good = len(okp) == 1 and match(okp[0].ret, Agg("Result::Ok", Agg("tuple", TryOk(fa), TryOk(ga))))
    ctx.check(good, "R14.2", "And/pairs-(f_value,g_value)-on-same-input", short(okp[0].ret, 7) if okp else "-", f.at(),
              bad_detail="expected Ok((ok(f.apply(x.clone(), rng) First), ok(g.apply(x, rng) Second))); extracted " + "; ".join(short(p.ret, 9) for p in okp))
    if okp:
        aps = [c for c in okp[0].calls() if callee_is(c, *APPLY)]
        ctx.check(len(aps) == 2 and derives_from_self(aps[0][3][0], field="f") and derives_from_self(aps[1][3][0], field="g"),
                  "R14.2", "And/order-f-then-g", " -> ".join(short(a[3][0], 3) for a in aps), f.at())
    e_first = [p for p in erp if len([c for c in p.calls() if callee_is(c, *APPLY)]) == 1]
    e_second = [p for p in erp if len([c for c in p.calls() if callee_is(c, *APPLY)]) == 2]
    ctx.check(len(e_first) == 1 and match(e_first[0].ret, Call("FromResidual::from_residual", TryErr(fa))), "R14.2", "And/first-error-stops-tagged-First",
              short(e_first[0].ret, 6) if e_first else "-", f.at())
    ctx.check(len(e_second) == 1 and match(e_second[0].ret, Call("FromResidual::from_residual", TryErr(ga))) and
              any(c[1] == 0 for c in e_second[0].conds), "R14.2", "And/second-error-tagged-Second",
              short(e_second[0].ret, 6) if e_second else "-", f.at())

    # ---------------- Map (array, tuple) -----------------------------------------
    for ty, elem, okagg in (("[Input; 2]", lambda i: ("index", ("param", 2), ("const", "usize", str(i), i)), "array"),
                            ("(Input, Input)", lambda i: ("field", ("param", 2), i, None), "tuple")):
        f = ctx.fn("<ec_core::operator::composable::map::Map<F> as " + OP % ty)
        ps = return_paths(ctx.paths(f))
        okp = [p for p in ps if not is_err_return(p)]
        erp = [p for p in ps if is_err_return(p)]

        def tagged(i, b):
            def chk(e):
                if not (e[0] == "agg" and e[1] == "closure"):
                    return False
                cps = closure_paths(ctx, e)
                if not cps or len(cps) != 1:
                    return False
                return match(cps[0].ret, Agg("MapError::MapError", CParam(2), Const(i)))
            return chk
        r0 = Bind("r0", Call("Result::map_err", apply_of("f", lambda a: a == elem(0)), tagged(0, None), nargs=2))
        r1 = Bind("r1", Call("Result::map_err", apply_of("f", lambda a: a == elem(1)), tagged(1, None), nargs=2))
        good = len(okp) == 1 and match(okp[0].ret, Agg("Result::Ok", Agg(okagg, TryOk(r0), TryOk(r1))))
        ctx.check(good, "R14.3", "Map<%s>/elements-in-order-tagged-with-own-index" % ty, short(okp[0].ret, 7) if okp else "-", f.at(),
                  bad_detail="expected Ok([ok(f.apply(x0) MapError(_,0)), ok(f.apply(x1) MapError(_,1))]); extracted " + "; ".join(short(p.ret, 9) for p in okp))
        if okp:
            aps = [c for c in okp[0].calls() if callee_is(c, *APPLY)]
            ctx.check(len(aps) == 2 and aps[0][3][1] == elem(0) and aps[1][3][1] == elem(1), "R14.3", "Map<%s>/order-0-then-1" % ty,
                      " -> ".join(short(a[3][1], 3) for a in aps), f.at())
        e_first = [p for p in erp if len([c for c in p.calls() if callee_is(c, *APPLY)]) == 1]
        e_second = [p for p in erp if len([c for c in p.calls() if callee_is(c, *APPLY)]) == 2]
        ctx.check(len(e_first) == 1 and match(e_first[0].ret, Call("FromResidual::from_residual", TryErr(r0))), "R14.3", "Map<%s>/first-failure-stops" % ty,
                  short(e_first[0].ret, 6) if e_first else "-", f.at())
        ctx.check(len(e_second) == 1 and match(e_second[0].ret, Call("FromResidual::from_residual", TryErr(r1))), "R14.3", "Map<%s>/second-failure-tagged-1" % ty,
                  short(e_second[0].ret, 6) if e_second else "-", f.at())

    # ---------------- Map (Vec) -----------------------------------------------------
    f = ctx.fn("<ec_core::operator::composable::map::Map<F> as " + OP % "std::vec::Vec<Input>")
    ps = return_paths(ctx.paths(f))
    b = {}
    good = len(ps) == 1 and match(ps[0].ret, Call("Iterator::collect", Call("Iterator::map", Call("Iterator::enumerate", Call("IntoIterator::into_iter", Param(2), nargs=1), nargs=1), Bind("clo"), nargs=2), nargs=1), b)
    good = good and len(ps[0].calls()) == 4
    ctx.check(good, "R14.3", "Map<Vec>/into_iter.enumerate.map.collect", short(ps[0].ret, 6) if ps else "-", f.at(),
              bad_detail="expected collect(map(enumerate(into_iter(input)), closure)) and nothing else; extracted " + "; ".join(short(p.ret, 9) for p in ps))
    if good:
        clo = b["clo"]
        cps = closure_paths(ctx, clo)
        ok2 = False
        detail = "-"
        if cps and len(cps) == 1:
            r = cps[0].ret
            detail = short(r, 7)
            b2 = {}
            pat = Call("Result::map_err", Call("Operator::apply", lambda a: derives_from_self(a, field="f"), lambda a: a[0] == "field" and a[2] == 1 and a[1][:2] == ("cparam", 2) and a[1][2] == clo[2],
                                                lambda a: rng_passthrough(a, 3), nargs=3), Bind("tag"), nargs=2)
            if match(r, pat, b2) and b2["tag"][0] == "agg" and b2["tag"][1] == "closure":
                tps = closure_paths(ctx, b2["tag"])
                if tps and len(tps) == 1:
                    # MapError(e, i) with i = the enumerate index = field 0 of the outer closure's argument
                    ok2 = match(tps[0].ret, Agg("MapError::MapError", CParam(2), lambda x: peel(x, ())[0] == "field" and peel(x, ())[2] == 0 and peel(x, ())[1][:2] == ("cparam", 2) and peel(x, ())[1][2] == clo[2]))
                    detail += " / tag: " + short(tps[0].ret, 5)
        ctx.check(ok2, "R14.3", "Map<Vec>/closure-applies-f-to-element-tagged-with-enumerate-index", detail, f.at())

    # ---------------- RepeatWith -------------------------------------------------------
    f = ctx.fn("<ec_core::operator::composable::repeat_with::RepeatWith<F, N> as " + OP % "Input")
    ps = return_paths(ctx.paths(f))
    okp = [p for p in ps if not is_err_return(p)]
    erp = [p for p in ps if is_err_return(p)]
    b = {}
    coll = Bind("coll", Call("Iterator::collect", Call("Iterator::take", Call("iter::repeat_with", Bind("clo"), nargs=1), lambda n: n[0] == "const" and n[2].strip() in ("N", "const N"), nargs=2), nargs=1))
    good = len(okp) == 1 and match(okp[0].ret, Agg("Result::Ok", Call("Result::unwrap_or_else", Call("TryInto::try_into", TryOk(coll), nargs=1), ANY, nargs=2)), b)
    ctx.check(good, "R14.4", "RepeatWith/repeat_with.take(N).collect", short(okp[0].ret, 8) if okp else "-", f.at(),
              bad_detail="expected Ok(try_into(ok(collect(take(repeat_with(closure), N)))).unwrap_or_else(..)); extracted " + "; ".join(short(p.ret, 10) for p in okp))
    if good:
        cps = closure_paths(ctx, b["clo"])
        ok2 = bool(cps) and len(cps) == 1 and match(cps[0].ret, Call("Operator::apply", lambda a: derives_from_self(a, field="f"),
                                                                      Call("Clone::clone", Through(Param(2)), nargs=1), lambda a: rng_passthrough(a, 3), nargs=3))
        ctx.check(ok2, "R14.4", "RepeatWith/closure-applies-f-to-clone-of-input", short(cps[0].ret, 6) if cps else "-", f.at())
        # result type of the collect is Result<Vec<_>,_>: early exit on first Err (std contract)
        term = F.fns[f.id].blocks[b["coll"][4][1]]["term"]
        tys = [a.get("s", "") for a in term.get("targs", [])]
        ctx.check(any(s.startswith("std::result::Result<std::vec::Vec<") for s in tys), "R14.4", "RepeatWith/collect-into-Result<Vec>", "; ".join(tys)[:200], f.at())
    ctx.check(len(erp) == 1 and match(erp[0].ret, Call("FromResidual::from_residual", TryErr(ANY))), "R14.4", "RepeatWith/error-propagated", short(erp[0].ret, 6) if erp else "-", f.at())

    # ---------------- R14.5 same rng everywhere ------------------------------------------
    n = 0
    fam = []
    for base in ["<ec_core::operator::composable::then::Then<F, G> as " + OP % "A", "<ec_core::operator::composable::and::And<F, G> as " + OP % "A",
                 "<ec_core::operator::composable::map::Map<F> as " + OP % "[Input; 2]", "<ec_core::operator::composable::map::Map<F> as " + OP % "(Input, Input)",
                 "<ec_core::operator::composable::map::Map<F> as " + OP % "std::vec::Vec<Input>",
                 "<ec_core::operator::composable::repeat_with::RepeatWith<F, N> as " + OP % "Input"]:
        fam += F.family(base)
    from .graph import fn_uses
    for fid in fam:
        fn = F.fns[fid]
        ctx.fns_analysed.add(fid)
        for p in ctx.paths(fn):
            for c in p.calls():
                if callee_is(c, "Operator::apply"):
                    n += 1
                    r = c[3][2]
                    ok = rng_passthrough(r, 3) or (r[0] == "upvar") or (r[0] == "deref" and r[1][0] == "upvar")
                    if not ok:
                        ctx.bad("R14.5", "rng/%s" % fid[-60:], "inner apply receives %s instead of the shared rng" % short(r, 5), fn.at())
        for kind, path, full, rdef, rlocal, bi, span, t in fn_uses(fn):
            if any(path_ends(path, x) for x in ("rand::rng", "SeedableRng::seed_from_u64", "SeedableRng::from_seed", "SeedableRng::from_os_rng", "SeedableRng::from_rng")):
                ctx.bad("R14.5", "fresh-rng/%s" % fid[-60:], "combinator body uses %s" % path, (span or {}).get("at"))
    ctx.ok("R14.5", "all-inner-applies-use-own-rng", "%d inner apply calls across %d bodies all receive the function's rng parameter" % (n, len(fam)))
    ctx.floor("R14.5", n, 8, "inner Operator::apply call sites in combinators")

    # ---------------- R14.6 wrappers -------------------------------------------------------
    is_in = lambda a: a == ("param", 2)
    is_rng = lambda a: rng_passthrough(a, 3)
    W = [
        ("<ec_core::operator::mutator::Mutate<M> as " + OP % "G", "Mutator::mutate", "mutator"),
        ("<ec_core::operator::recombinator::Recombine<Rec> as " + OP % "G", "Recombinator::recombine", "recombinator"),
        ("<ec_core::operator::selector::Select<S> as " + OP % "&'pop P", "Selector::select", "selector"),
    ]
    for fid, callee, field in W:
        f = ctx.fn(fid)
        check_forwarder(ctx, "R14.6", field + "-wrapper/forwarder", f, callee, [lambda a, field=field: derives_from_self(a, field=field), is_in, is_rng], wrappers=())
    R = [
        ("<&M as ec_core::operator::mutator::Mutator<G>>::mutate", "Mutator::mutate"),
        ("<&mut M as ec_core::operator::mutator::Mutator<G>>::mutate", "Mutator::mutate"),
        ("<&Rec as ec_core::operator::recombinator::Recombinator<GS>>::recombine", "Recombinator::recombine"),
        ("<&S as ec_core::operator::selector::Selector<P>>::select", "Selector::select"),
    ]
    for fid, callee in R:
        f = ctx.fn(fid)
        check_forwarder(ctx, "R14.6", fid.split(" as ")[0].lstrip("<") + "/forwarder", f, callee, [lambda a: derives_from_self(a), is_in, is_rng], wrappers=())
    f = ctx.fn("<ec_core::operator::identity::Identity as " + OP % "T")
    ps = return_paths(ctx.paths(f))
    ctx.check(len(ps) == 1 and match(ps[0].ret, Agg("Result::Ok", Param(2))) and not ps[0].calls(), "R14.6", "Identity/returns-input", short(ps[0].ret), f.at())
    f = ctx.fn("<ec_core::operator::constant::Constant<T> as " + OP % "S")
    ps = return_paths(ctx.paths(f))
    ctx.check(len(ps) == 1 and match(ps[0].ret, Agg("Result::Ok", Call("Clone::clone", lambda a: derives_from_self(a, field="value"), nargs=1))) and len(ps[0].calls()) == 1,
              "R14.6", "Constant/returns-clone-of-value", short(ps[0].ret), f.at())
    f = ctx.fn("<ec_core::operator::genome_extractor::GenomeExtractor as " + OP % "&I")
    ps = return_paths(ctx.paths(f))
    ctx.check(len(ps) == 1 and match(ps[0].ret, Agg("Result::Ok", Call("Clone::clone", Call("Individual::genome", Through(Param(2)), nargs=1), nargs=1))) and len(ps[0].calls()) == 2,
              "R14.6", "GenomeExtractor/returns-clone-of-genome", short(ps[0].ret), f.at())
    # Composable provided methods
    C = "ec_core::operator::composable::Composable::"
    specs = {
        "then": Call("Then::new", Param(1), Param(2), nargs=2),
        "and": Call("And::new", Param(1), Param(2), nargs=2),
        "then_map": Call("Then::new", Param(1), Call("Map::new", Param(2), nargs=1), nargs=2),
        "apply_twice": Call("RepeatWith::new", Param(1), nargs=1),
        "apply_n_times": Call("RepeatWith::new", Param(1), nargs=1),
        "map": Call("Map::new", Param(2), nargs=1),
        "wrap": Call("Wrappable::construct", Param(1), Param(2), nargs=2),
    }
    for name, pat in specs.items():
        f = ctx.fn(C + name)
        ps = return_paths(ctx.paths(f))
        ctx.check(len(ps) == 1 and match(ps[0].ret, pat), "R14.6", "Composable::%s/builds-documented-combinator" % name, short(ps[0].ret) if ps else "-", f.at(),
                  bad_detail="extracted " + "; ".join(short(p.ret, 8) for p in ps))
    # constructors store their arguments in order
    for fid, adt, nfields in (("ec_core::operator::composable::then::Then::<F, G>::new", "Then::Then", 2), ("ec_core::operator::composable::and::And::<F, G>::new", "And::And", 2),
                              ("ec_core::operator::composable::map::Map::<F>::new", "Map::Map", 1), ("ec_core::operator::composable::repeat_with::RepeatWith::<F, N>::new", "RepeatWith::RepeatWith", 1)):
        f = ctx.fn(fid)
        ps = return_paths(ctx.paths(f))
        ctx.check(len(ps) == 1 and match(ps[0].ret, Agg(adt, *[Param(i + 1) for i in range(nfields)])), "R14.6", fid.split("::")[-3] + "::new/stores-args-in-order", short(ps[0].ret) if ps else "-", f.at())
    adt = F.adts.get("ec_core::operator::composable::then::Then")
    ctx.check(adt and [x["name"] for x in adt["variants"][0]["fields"]] == ["f", "g"], "R14.6", "Then/field-order-f-g", "fields f, g")
    adt = F.adts.get("ec_core::operator::composable::and::And")
    ctx.check(adt and [x["name"] for x in adt["variants"][0]["fields"]] == ["f", "g"], "R14.6", "And/field-order-f-g", "fields f, g")

    # ---------------- panic audit over the combinators -----------------------------------------
    cg = CallGraph(F)
    roots = [x for x in fam]
    scope = set(roots)
    discharge = [{"fn": "repeat_with::RepeatWith<F, N> as ec_core::operator::Operator<Input>>::apply::{closure#1}", "what": "panicking::panic_fmt",
                  "reason": "unreachable!: the Vec collected from take(N) over an endless repeat_with has exactly N elements, so try_into::<[_; N]> succeeds",
                  "guard": lambda c, s: (True, "take(N) shape verified by R14.4")}]
    audit_panics(ctx, "R14.4", scope, discharge, floor=1)
