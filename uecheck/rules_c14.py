"""C14 - Composed operators run their parts in order and stop at the first failure."""
from .pat import ANY, Bind, Call, Param, CParam, Field, Through, Agg, Const, match, find, callee_is, path_ends
from .sym import short, subexprs
from .common import (TryOk, TryErr, is_err_return, return_paths, peel, mentions, derives_from_self, rng_passthrough,
                     check_forwarder, closure_paths, audit_panics, CallGraph)

META = {
    "level": "other",
    "explanation": (
        "Static rule conformance on the MIR of every combinator's Operator::apply (Then, And, Map x3, RepeatWith), of the transparent wrappers "
        "(Identity, Constant, GenomeExtractor, Select/Mutate/Recombine, the &M/&mut M/&Rec/&S impls) and of Composable's provided methods. Decided per "
        "path: which inner apply calls happen, in which order, on which input (data flow from the input parameter / from the first result's Ok payload), "
        "with which rng (always the function's own rng parameter), which error constructor tags which part (First/Second, MapError(_, index) with the element's "
        "own index), that the second part is only reached on the first part's Ok edge (early exit: no later part runs or consumes randomness after a failure), "
        "and that the wrappers are single forwarders. Arbitrary nesting follows by structural induction over these per-combinator facts (argued, not mechanised)."),
    "rules": {
        "R14.1": "Then: g.apply(ok(f.apply(x, rng)), rng); f's error -> ThenError::First and early return without calling g; g's error -> Second; no inherent method hides a Composable/Operator method with a different computation, no impl overrides a provided Composable method differently",
        "R14.2": "And: f.apply(x.clone(), rng) then g.apply(x, rng); Ok((f_value, g_value)); First/Second; g only after f succeeded",
        "R14.3": "Map: element 0 then element 1 with MapError(_, 0) / MapError(_, 1), outputs in input order; Vec: into_iter().enumerate().map(f.apply(x) tagged with the enumerate index).collect() with no reordering adaptor",
        "R14.4": "RepeatWith: repeat_with(|| f.apply(input.clone(), rng)).take(N) collected into Result<Vec,_>, N the const generic; unreachable! discharged by take(N)",
        "R14.5": "every inner apply/mutate/recombine/select receives the function's own rng parameter",
        "R14.7": "the error names the failing part: MapError's message displays the stored element index itself (field 1, unmodified); ThenError/AndError messages say `first` for First and `second` for Second",
        "R14.6": "transparent wrappers are single forwarders; Identity returns its input; Constant returns value.clone(); GenomeExtractor returns genome().clone(); Composable::then/and/then_map/apply_twice/apply_n_times/map/wrap build the documented combinator with (self, op) in order",
    },
    "trusted_base": ["rustc MIR construction and `?` desugaring (Try::branch / FromResidual)", "std iterator adaptors into_iter/enumerate/map/take/repeat_with/collect::<Result<_,_>> (in-order, short-circuiting)", "uecfacts driver + uecheck rule engine"],
    "assumptions": [],
    "not_decided": ["nothing value-level is needed; nesting is by structural induction (argued)"],
}

OP = "ec_core::operator::Operator<%s>>::apply"
APPLY = ("Operator::apply",)


def fitem(name):
    return lambda e: e[0] == "fnitem" and path_ends(e[1], name)


def apply_of(field, inp, rng=3):
    return Call("Operator::apply", lambda a: derives_from_self(a, field=field), inp, lambda a: rng_passthrough(a, rng), nargs=3)


def err_tags(ctx, ret, call):
    """names of the constructors that wrap `call`'s error inside `ret` (map_err(call, Ctor) / map_err(call, |e| Ctor(e, ..)) /
    Err(Ctor(call's Err payload, ..))); also returns the constants passed along (e.g. MapError's index)"""
    tags = []
    for x in subexprs(ret):
        if callee_is(x, "Result::map_err") and len(x[3]) == 2 and peel(x[3][0], ()) == call:
            f = x[3][1]
            if f[0] == "fnitem":
                tags.append((f[1].rsplit("::", 1)[-1], ()))
            elif f[0] == "agg" and f[1] == "closure":
                for q in closure_paths(ctx, f) or []:
                    if q.end == "return" and q.ret[0] == "agg" and q.ret[1] == "adt" and q.ret[3] and q.ret[3][0][:2] == ("cparam", 2):
                        tags.append((q.ret[2].rsplit("::", 1)[-1], tuple(a[3] if a[0] == "const" else short(a, 3) for a in q.ret[3][1:])))
        if x[0] == "agg" and x[1] == "adt" and x[3] and x[3][0] == ("field", call, 0, "Err"):
            tags.append((x[2].rsplit("::", 1)[-1], tuple(a[3] if a[0] == "const" else short(a, 3) for a in x[3][1:])))
    return tags


def ok_of(call):
    """pattern: the Ok payload of `call` (possibly after map_err), via `?` or a match"""
    return TryOk(Through(lambda e: e == call, calls=("Result::map_err",)))


def is_error_of(ctx, p, call):
    """path p returns the (tagged) error of `call`"""
    r = p.ret
    if callee_is(r, "FromResidual::from_residual"):
        return match(r[3][0], TryErr(Through(lambda e: e == call, calls=("Result::map_err",))))
    if r[0] == "agg" and path_ends(r[2], "Result::Err"):
        return any(y == ("field", call, 0, "Err") for y in subexprs(r))
    return False


def check_two_stage(ctx, f, rule, name, specs, ok_shape):
    """specs: [(receiver field, input predicate(aps so far) -> pattern, tag, tag args)] for the two inner applies, in order.
    Every return path must apply a prefix of the stages in order; a path that stops after stage i returns stage i's error under its tag;
    the path that ran all stages returns ok_shape(aps)."""
    at = f.at()
    ps = [p for p in ctx.paths(f) if p.end != "unreachable"]
    seen_full = seen_stop = 0
    for pi, p in enumerate(ps):
        aps = [c for c in p.calls() if callee_is(c, "Operator::apply")]
        okp = p.end == "return" and len(aps) <= len(specs)
        detail = short(p.ret, 6)[:300] if p.ret is not None else p.end
        for i, c in enumerate(aps[:len(specs)]):
            recv, inp, tag, targs = specs[i]
            okp = okp and derives_from_self(c[3][0], field=recv) and rng_passthrough(c[3][2], 3) and match(c[3][1], inp(aps[:i]))
        if not okp:
            ctx.bad(rule, "%s/path%d/stages-in-order-on-right-inputs" % (name, pi), "inner applies on this path: %s" % ", ".join(short(c, 4) for c in aps), at)
            continue
        # every earlier stage succeeded on this path
        for i, c in enumerate(aps[:-1]):
            conds_ok = any(cc[1] == 0 and cc[0][0] == "discr" and (peel(cc[0][1], ()) == c or mentions(cc[0][1], c)) for cc in p.conds)
            if not conds_ok:
                okp = False
        last = aps[-1] if aps else None
        if last is not None and is_error_of(ctx, p, last):
            i = len(aps) - 1
            tags = err_tags(ctx, p.ret, last)
            want = (specs[i][2], specs[i][3])
            okp = okp and tags == [want]
            seen_stop += 1 if i < len(specs) - 1 else 0
            ctx.check(okp, rule, "%s/stage%d-failure-stops-pipeline-tagged-%s" % (name, i, specs[i][2] + ("(%s)" % ",".join(map(str, specs[i][3])) if specs[i][3] else "")), detail, at,
                      bad_detail="a failure of part %d must be returned at once under tag %s%s and later parts must not run; extracted tags %s, applies %d, ret %s" % (i, specs[i][2], specs[i][3] or "", tags, len(aps), detail))
        elif len(aps) == len(specs):
            seen_full += 1
            shape = ok_shape(ctx, p, aps)
            ctx.check(okp and shape, rule, "%s/all-parts-ran-result-assembled-in-order" % name, detail, at,
                      bad_detail="the success path must assemble the parts' results as documented; extracted " + detail)
        else:
            ctx.bad(rule, "%s/path%d/unclassified-return" % (name, pi), detail, at)
    ctx.check(seen_full >= 1 and seen_stop >= 1, rule, "%s/has-success-and-early-exit-paths" % name, "%d success, %d early-exit path(s)" % (seen_full, seen_stop), at)


def check_error_messages(ctx):
    """R14.7: the only public way to learn which element / part failed is the error's message (the fields are private)"""
    C = "ec_core::operator::composable::"
    f = ctx.fn("<" + C + "map::MapError<T> as std::fmt::Display>::fmt")
    ps = [p for p in ctx.paths(f) if p.end != "unreachable"]
    ok = len(ps) == 1 and ps[0].end == "return"
    shown = []
    if ok:
        for c in ps[0].calls():
            if callee_is(c, "Argument::new_display", "Argument::new_debug", "Argument::new_lower_exp", "Argument::new_upper_hex", "Argument::new_lower_hex"):
                shown.append(peel(c[3][0], ()))
        others = [c for c in ps[0].calls() if not callee_is(c, "Argument::new_display", "Argument::new_debug", "Arguments::new", "Arguments::new_const", "Formatter::write_fmt", "Formatter::write_str")]
        idx = ("field", ("param", 1), 1, None)
        norm = lambda e: ("field", peel(e[1], ()), e[2], None) if e[0] == "field" else e
        ok = len(shown) == 1 and norm(shown[0]) == idx and not others
    ctx.check(ok, "R14.7", "MapError/message-displays-the-stored-index", "; ".join(short(x, 3) for x in shown) or "-", f.at(),
              bad_detail="MapError's Display must format exactly its index field (self.1), nothing derived from it; displayed: %s; other calls: %s" % (
                  [short(x, 4) for x in shown], [short(c, 2) for p in ps for c in p.calls()][:6]))
    for mod, ty in (("then", "ThenError"), ("and", "AndError")):
        g = ctx.fn("<" + C + "%s::%s<T, U> as std::fmt::Display>::fmt" % (mod, ty))
        words = {}
        good = True
        for p in [p for p in ctx.paths(g) if p.end != "unreachable"]:
            d = [c for c in p.conds if c[0][0] == "discr" and peel(c[0][1], ()) == ("param", 1)]
            texts = [str(x[2]).lower() for c in p.calls() for x in subexprs(c) if x[0] == "const" and isinstance(x[2], (str, bytes))]
            txt = " ".join(texts)
            if not d or d[0][1] not in (0, 1):
                good = False
                continue
            want, other = ("first", "second") if d[0][1] == 0 else ("second", "first")
            words[d[0][1]] = (want in txt, other in txt)
            good = good and want in txt and other not in txt and not [c for c in p.calls() if not callee_is(c, "Formatter::write_str", "Formatter::write_fmt", "Arguments::new", "Arguments::new_const")]
        ctx.check(good and set(words) == {0, 1}, "R14.7", "%s/message-names-its-own-part" % ty, "First -> 'first', Second -> 'second'", g.at(),
                  bad_detail="%s's Display must say `first` exactly for First and `second` exactly for Second; found %s" % (ty, words))


def check(ctx):
    from .common import override_audit
    ctx.floor('R14.1', override_audit(ctx, 'R14.1', ('ec_core::operator::composable::Composable',)), 7, 'provided methods of Composable (override audit)')
    from .common import shadowing_audit
    ctx.floor("R14.1", shadowing_audit(ctx, "R14.1", ("ec_core::operator::composable::", "ec_core::operator::Operator")), 8, "Composable / Operator impls of workspace types (shadowing audit)")
    check_error_messages(ctx)
    from .ctors import check_table
    check_table(ctx, "C14", "R14.6")
    F = ctx.F
    # ---------------- Then -------------------------------------------------
    f = ctx.fn("<ec_core::operator::composable::then::Then<F, G> as " + OP % "A")

    def then_ok(ctx, p, aps):
        r = p.ret
        tags = err_tags(ctx, r, aps[1])
        comb = callee_is(r, "Result::map_err") and peel(r[3][0], ()) == aps[1] and tags == [("Second", ())]
        split = match(r, Agg("Result::Ok", ok_of(aps[1])))
        return comb or split
    check_two_stage(ctx, f, "R14.1", "Then", [("f", lambda prev: Param(2), "First", ()), ("g", lambda prev: ok_of(prev[0]), "Second", ())], then_ok)
    # ---------------- And ----------------------------------------------------
    f = ctx.fn("<ec_core::operator::composable::and::And<F, G> as " + OP % "A")

    def and_ok(ctx, p, aps):
        return match(p.ret, Agg("Result::Ok", Agg("tuple", ok_of(aps[0]), ok_of(aps[1]))))
    check_two_stage(ctx, f, "R14.2", "And", [("f", lambda prev: Call("Clone::clone", Through(Param(2)), nargs=1), "First", ()), ("g", lambda prev: Param(2), "Second", ())], and_ok)
    # every Operator impl of Map must be one of the three classified shapes (fail closed on a new one)
    known_inputs = {"[Input; 2]", "(Input, Input)", "std::vec::Vec<Input>"}
    for im in F.impls:
        if im.get("trait") == "ec_core::operator::Operator" and im["self"].get("path") == "ec_core::operator::composable::map::Map":
            inp = (im.get("targs") or [{}])[0].get("s")
            ctx.check(inp in known_inputs, "R14.3", "Map<%s>/impl-is-classified" % inp, "input type %s" % inp, im["span"]["at"],
                      bad_detail="Map has an Operator impl for input type %s that the rules do not classify (known: %s): its ordering / early-exit behaviour is not established - e.g. array::map cannot stop at the first failure" % (inp, sorted(known_inputs)))
    # ---------------- Map (array, tuple) -----------------------------------------
    for ty, elem, okagg in (("[Input; 2]", lambda i: ("index", ("param", 2), ("const", "usize", str(i), i)), "array"),
                            ("(Input, Input)", lambda i: ("field", ("param", 2), i, None), "tuple")):
        f = ctx.fn("<ec_core::operator::composable::map::Map<F> as " + OP % ty)

        def map_ok(ctx, p, aps, okagg=okagg):
            return match(p.ret, Agg("Result::Ok", Agg(okagg, ok_of(aps[0]), ok_of(aps[1]))))

        def direct(c, f=f, ty=ty, elem=elem, map_ok=map_ok):
            check_two_stage(c, f, "R14.3", "Map<%s>" % ty, [("f", lambda prev, e=elem(0): (lambda a: a == e), "MapError", (0,)), ("f", lambda prev, e=elem(1): (lambda a: a == e), "MapError", (1,))], map_ok)

        def via_array_impl(c, f=f, ty=ty):
            """the pair impl hands the pair, converted by std's `(T, T) -> [T; 2]` (component order kept), to the array impl
            (checked above) and converts the Ok back with std's `[T; 2] -> (T, T)`; the array impl's error is returned as it is"""
            from . import ckit as K
            paths = K.live(c.cpaths(f))
            arr = "<ec_core::operator::composable::map::Map<F> as " + OP % "[Input; 2]"
            ok = ty == "(Input, Input)" and len(paths) == 2
            seen = set()
            for p in paths:
                ap = K.calls_of(p, "Operator::apply")
                def pair_as_array(a):
                    # std's `(T, T) -> [T; 2]` conversion, or the same written out: [pair.0, pair.1]
                    a = peel(a, ())
                    if callee_is(a, "Into::into", "From::from"):
                        return a[3][0] == ("param", 2)
                    return a[0] == "agg" and a[1] == "array" and len(a[3]) == 2 and all(K.strip(x, calls=()) == ("field", ("param", 2), i, None) for i, x in enumerate(a[3]))

                def array_as_pair(v, okp_):
                    # std's `[T; 2] -> (T, T)`, or the same written out: (arr[0], arr[1])
                    if v is None:
                        return False
                    if callee_is(v, "Into::into", "From::from"):
                        return K.strip(v[3][0], calls=()) == okp_
                    return v[0] == "agg" and v[1] == "tuple" and len(v[3]) == 2 and all(
                        K.strip(x, calls=())[0] == "index" and K.strip(K.strip(x, calls=())[1], calls=()) == okp_ and K.strip(x, calls=())[2][0] == "const" and K.strip(x, calls=())[2][-1] == i
                        for i, x in enumerate(v[3]))
                okp = len(ap) == 1 and len(ap[0][3]) == 3 and K.strip(ap[0][3][0], calls=()) == ("param", 1) and rng_passthrough(ap[0][3][2], 3) and \
                    pair_as_array(ap[0][3][1]) and \
                    ((c.F.fns[ap[0][4][-2]].blocks[ap[0][4][-1]]["term"].get("res") or {}).get("def") == arr)
                kind, pay = K.outcome(p)
                if okp and K.discr_is(p, lambda o: o == ap[0], 0):
                    v = peel(pay, ()) if pay is not None else None
                    okp = kind == "ok" and array_as_pair(v, ("field", ap[0], 0, "Ok"))
                    seen.add("ok")
                elif okp and K.discr_is(p, lambda o: o == ap[0], 1):
                    okp = kind == "err" and K.conv_free(pay) == ("field", ap[0], 0, "Err") and pay == K.conv_free(pay)
                    seen.add("err")
                else:
                    okp = False
                ok = ok and okp
            ok = ok and seen == {"ok", "err"}
            for i in (0, 1):
                c.check(ok, "R14.3", "Map<%s>/path%d/stages-in-order-on-right-inputs" % (ty, i), "forwards to the [Input; 2] impl: apply(self, pair.into(), rng) -> .into()", f.at(),
                        bad_detail="neither two applies on .0 and .1 in order nor a forward of the whole pair to the [Input; 2] impl")
            c.check(ok, "R14.3", "Map<%s>/has-success-and-early-exit-paths" % ty, "Ok converted back, Err of the array impl returned unchanged", f.at())
        from . import ckit as _K4
        _K4.either(ctx, direct, via_array_impl)

    def map_vec_collect(ctx):
        # ---------------- Map (Vec) -----------------------------------------------------
        f = ctx.fn("<ec_core::operator::composable::map::Map<F> as " + OP % "std::vec::Vec<Input>")
        ps = return_paths(ctx.paths(f))
        b = {}
        good = len(ps) == 1 and match(ps[0].ret, Call("Iterator::collect", Call("Iterator::map", Call("Iterator::enumerate", Call("IntoIterator::into_iter", Param(2), nargs=1), nargs=1), Bind("clo"), nargs=2), nargs=1), b)
        good = good and len(ps[0].calls()) == 4
        ctx.check(good, "R14.3", "Map<Vec>/into_iter.enumerate.map.collect", short(ps[0].ret, 6) if ps else "-", f.at(),
                  bad_detail="expected collect(map(enumerate(into_iter(input)), closure)) and nothing else; extracted " + "; ".join(short(p.ret, 9) for p in ps))
        if good:
            clo = b["clo"]
            cps = closure_paths(ctx, clo)
            ok2 = False
            detail = "-"
            if cps and len(cps) == 1:
                r = cps[0].ret
                detail = short(r, 7)
                b2 = {}
                pat = Call("Result::map_err", Call("Operator::apply", lambda a: derives_from_self(a, field="f"), lambda a: a[0] == "field" and a[2] == 1 and a[1][:2] == ("cparam", 2) and a[1][2] == clo[2],
                                                    lambda a: rng_passthrough(a, 3), nargs=3), Bind("tag"), nargs=2)
                if match(r, pat, b2) and b2["tag"][0] == "agg" and b2["tag"][1] == "closure":
                    tps = closure_paths(ctx, b2["tag"])
                    if tps and len(tps) == 1:
                        # MapError(e, i) with i = the enumerate index = field 0 of the outer closure's argument
                        ok2 = match(tps[0].ret, Agg("MapError::MapError", CParam(2), lambda x: peel(x, ())[0] == "field" and peel(x, ())[2] == 0 and peel(x, ())[1][:2] == ("cparam", 2) and peel(x, ())[1][2] == clo[2]))
                        detail += " / tag: " + short(tps[0].ret, 5)
            ctx.check(ok2, "R14.3", "Map<Vec>/closure-applies-f-to-element-tagged-with-enumerate-index", detail, f.at())


    def map_vec_loop(ctx):
        """the same clauses for the explicit loop: for (index, element) in input.into_iter().enumerate() { out.push(f.apply(element, rng)
        .map_err(|e| MapError(e, index))?) } Ok(out) - in order, first failure leaves, the index in the error is the enumerate index"""
        from . import ckit as K
        f = ctx.fn("<ec_core::operator::composable::map::Map<F> as " + OP % "std::vec::Vec<Input>")
        paths = K.live(ctx.cpaths(f))
        is_nx = lambda c: callee_is(c, "Iterator::next") and match(c[3][0], Through(Call("IntoIterator::into_iter", Call("Iterator::enumerate", Call("IntoIterator::into_iter", Param(2), nargs=1), nargs=1), nargs=1))) or \
            (callee_is(c, "Iterator::next") and match(c[3][0], Through(Call("Iterator::enumerate", Call("IntoIterator::into_iter", Param(2), nargs=1), nargs=1))))
        good = bool(paths)
        seen = set()
        for p in paths:
            nx = [c for c in p.calls() if is_nx(c)]
            ap = K.calls_of(p, "Operator::apply")
            kind, pay = K.outcome(p)
            if len(nx) != 1:
                good = False
                continue
            if K.discr_is(p, lambda o: o == nx[0], 0):
                # input exhausted: Ok(out), nothing applied on this last round
                out = K.strip(pay, calls=()) if pay is not None else None
                good = good and kind == "ok" and not ap and out is not None and callee_is(out, "Vec::with_capacity", "Vec::new")
                seen.add("done")
                continue
            elem = ("field", ("field", nx[0], 0, "Some"), 1, None)
            idx = ("field", ("field", nx[0], 0, "Some"), 0, None)
            ok1 = len(ap) == 1 and derives_from_self(ap[0][3][0], field="f") and K.strip(ap[0][3][1], calls=()) == elem and rng_passthrough(ap[0][3][2], 3)
            if not ok1:
                good = False
                continue
            if K.discr_is(p, lambda o: o == ap[0], 0):
                push = K.calls_of(p, "Vec::push")
                good = good and p.end.startswith("loop:") and len(push) == 1 and K.strip(push[0][3][1], calls=()) == ("field", ap[0], 0, "Ok") and callee_is(K.strip(push[0][3][0], calls=()), "Vec::with_capacity", "Vec::new")
                seen.add("push")
            elif K.discr_is(p, lambda o: o == ap[0], 1):
                e = K.conv_free(pay) if pay is not None else None
                good = good and kind == "err" and e is not None and e[0] == "agg" and path_ends(e[2], "MapError::MapError") and len(e[3]) == 2 and \
                    K.strip(e[3][0], calls=()) == ("field", ap[0], 0, "Err") and K.strip(e[3][1], calls=()) == idx and not K.calls_of(p, "Vec::push")
                seen.add("err")
            else:
                good = False
        ctx.check(good and seen == {"done", "push", "err"}, "R14.3", "Map<Vec>/into_iter.enumerate.map.collect", "explicit loop over input.into_iter().enumerate(): apply, push on Ok, return MapError(e, index) on Err", f.at(),
                  bad_detail="Map over a Vec must apply f to each element in order, stop at the first failure with MapError(error, enumerate index) and collect the outputs in order")
        ctx.check(good and seen == {"done", "push", "err"}, "R14.3", "Map<Vec>/closure-applies-f-to-element-tagged-with-enumerate-index", "element = enumerate item .1, index = .0", f.at())

    from . import ckit as _K3
    _K3.either(ctx, map_vec_collect, map_vec_loop)

    # ---------------- RepeatWith -------------------------------------------------------
    repeat_shape = {"ok": False}

    def repeat_collect(ctx):
        f = ctx.fn("<ec_core::operator::composable::repeat_with::RepeatWith<F, N> as " + OP % "Input")
        ps = return_paths(ctx.paths(f))
        okp = [p for p in ps if not is_err_return(p)]
        erp = [p for p in ps if is_err_return(p)]
        b = {}
        coll = Bind("coll", Call("Iterator::collect", Call("Iterator::take", Call("iter::repeat_with", Bind("clo"), nargs=1), lambda n: n[0] == "const" and n[2].strip() in ("N", "const N"), nargs=2), nargs=1))
        good = len(okp) == 1 and match(okp[0].ret, Agg("Result::Ok", Call("Result::unwrap_or_else", Call("TryInto::try_into", TryOk(coll), nargs=1), ANY, nargs=2)), b)
        ctx.check(good, "R14.4", "RepeatWith/repeat_with.take(N).collect", short(okp[0].ret, 8) if okp else "-", f.at(),
                  bad_detail="expected Ok(try_into(ok(collect(take(repeat_with(closure), N)))).unwrap_or_else(..)); extracted " + "; ".join(short(p.ret, 10) for p in okp))
        if good:
            cps = closure_paths(ctx, b["clo"])
            ok2 = bool(cps) and len(cps) == 1 and match(cps[0].ret, Call("Operator::apply", lambda a: derives_from_self(a, field="f"),
                                                                          Call("Clone::clone", Through(Param(2)), nargs=1), lambda a: rng_passthrough(a, 3), nargs=3))
            ctx.check(ok2, "R14.4", "RepeatWith/closure-applies-f-to-clone-of-input", short(cps[0].ret, 6) if cps else "-", f.at())
            # result type of the collect is Result<Vec<_>,_>: early exit on first Err (std contract)
            term = F.fns[b["coll"][4][-2]].blocks[b["coll"][4][-1]]["term"]
            tys = [a.get("s", "") for a in term.get("targs", [])]
            ctx.check(any(s.startswith("std::result::Result<std::vec::Vec<") for s in tys), "R14.4", "RepeatWith/collect-into-Result<Vec>", "; ".join(tys)[:200], f.at())
            repeat_shape["ok"] = ok2 and any(s.startswith("std::result::Result<std::vec::Vec<") for s in tys)
        ctx.check(len(erp) == 1 and match(erp[0].ret, Call("FromResidual::from_residual", TryErr(ANY))), "R14.4", "RepeatWith/error-propagated", short(erp[0].ret, 6) if erp else "-", f.at())


    def repeat_loop(ctx):
        """the same clauses for the explicit loop `for _ in 0..N { out.push(self.f.apply(input.clone(), rng)?) }` followed by the
        conversion of the N collected outputs into [_; N]: N applies on clones of the input, first failure returned, outputs in order"""
        from . import ckit as K
        f = ctx.fn("<ec_core::operator::composable::repeat_with::RepeatWith<F, N> as " + OP % "Input")
        paths = K.live(ctx.cpaths(f))
        is_n = lambda n: n[0] == "const" and n[2].strip() in ("N", "const N")
        is_nx = lambda c: callee_is(c, "Iterator::next") and (match(c[3][0], Through(Call("IntoIterator::into_iter", Agg("Range::Range", Const(0), is_n), nargs=1))) or match(c[3][0], Through(Agg("Range::Range", Const(0), is_n))))
        is_out = lambda e: callee_is(K.strip(e, calls=()), "Vec::with_capacity", "Vec::new")
        good, seen = bool(paths), set()
        for p in paths:
            nx = [c for c in p.calls() if is_nx(c)]
            if len(nx) != 1 or len([c for c in p.calls() if callee_is(c, "Iterator::next")]) != 1:
                good = False
                continue
            ap = K.calls_of(p, "Operator::apply")
            push = K.calls_of(p, "Vec::push", "Extend::extend", "Vec::insert")
            kind, pay = K.outcome(p)
            if K.discr_is(p, lambda o: o == nx[0], 0):
                conv = [c for c in p.calls() if callee_is(c, "TryInto::try_into", "TryFrom::try_from")]
                okd = not ap and not push and len(conv) == 1 and is_out(conv[0][3][0])
                if p.end == "return":
                    okd = okd and kind == "ok" and K.strip(pay, calls=()) == ("field", conv[0], 0, "Ok")
                    seen.add("done")
                else:
                    okd = okd and p.end == "diverge" and K.discr_is(p, lambda o: o == conv[0], 1)      # unreachable!: exactly N elements were pushed
                good = good and okd
                continue
            ok1 = len(ap) == 1 and derives_from_self(ap[0][3][0], field="f") and match(ap[0][3][1], Call("Clone::clone", Through(Param(2)), nargs=1)) and rng_passthrough(ap[0][3][2], 3)
            if ok1 and K.discr_is(p, lambda o: o == ap[0], 0):
                good = good and p.end.startswith("loop:") and len(push) == 1 and callee_is(push[0], "Vec::push") and is_out(push[0][3][0]) and K.strip(push[0][3][1], calls=()) == ("field", ap[0], 0, "Ok")
                seen.add("push")
            elif ok1 and K.discr_is(p, lambda o: o == ap[0], 1):
                good = good and kind == "err" and K.conv_free(pay) == ("field", ap[0], 0, "Err") and not push
                seen.add("err")
            else:
                good = False
        good = good and seen == {"done", "push", "err"}
        ctx.check(good, "R14.4", "RepeatWith/repeat_with.take(N).collect", "explicit loop over 0..N: apply, push on Ok, return the first Err, convert the N outputs", f.at(),
                  bad_detail="expected N applies of f to clones of the input (0..N), outputs collected in order, first failure returned")
        ctx.check(good, "R14.4", "RepeatWith/closure-applies-f-to-clone-of-input", "f.apply(input.clone(), rng) once per iteration", f.at())
        ctx.check(good, "R14.4", "RepeatWith/collect-into-Result<Vec>", "`?` inside the loop: the first Err leaves", f.at())
        ctx.check(good, "R14.4", "RepeatWith/error-propagated", "the inner error is returned as it is", f.at())
        repeat_shape["ok"] = good

    from . import ckit as _K5
    _K5.either(ctx, repeat_collect, repeat_loop)

    # ---------------- R14.5 same rng everywhere ------------------------------------------
    n = 0
    fam = []
    for base in ["<ec_core::operator::composable::then::Then<F, G> as " + OP % "A", "<ec_core::operator::composable::and::And<F, G> as " + OP % "A",
                 "<ec_core::operator::composable::map::Map<F> as " + OP % "[Input; 2]", "<ec_core::operator::composable::map::Map<F> as " + OP % "(Input, Input)",
                 "<ec_core::operator::composable::map::Map<F> as " + OP % "std::vec::Vec<Input>",
                 "<ec_core::operator::composable::repeat_with::RepeatWith<F, N> as " + OP % "Input"]:
        fam += F.family(base)
    from .graph import fn_uses
    for fid in fam:
        fn = F.fns[fid]
        ctx.fns_analysed.add(fid)
        for p in ctx.paths(fn):
            for c in p.calls():
                if callee_is(c, "Operator::apply"):
                    n += 1
                    r = c[3][2]
                    ok = rng_passthrough(r, 3) or (r[0] == "upvar") or (r[0] == "deref" and r[1][0] == "upvar")
                    if not ok:
                        ctx.bad("R14.5", "rng/%s" % fid[-60:], "inner apply receives %s instead of the shared rng" % short(r, 5), fn.at())
        for kind, path, full, rdef, rlocal, bi, span, t in fn_uses(fn):
            if any(path_ends(path, x) for x in ("rand::rng", "SeedableRng::seed_from_u64", "SeedableRng::from_seed", "SeedableRng::from_os_rng", "SeedableRng::from_rng")):
                ctx.bad("R14.5", "fresh-rng/%s" % fid[-60:], "combinator body uses %s" % path, (span or {}).get("at"))
    ctx.ok("R14.5", "all-inner-applies-use-own-rng", "%d inner apply calls across %d bodies all receive the function's rng parameter" % (n, len(fam)))
    ctx.floor("R14.5", n, 8, "inner Operator::apply call sites in combinators")

    # ---------------- R14.6 wrappers -------------------------------------------------------
    is_in = lambda a: a == ("param", 2)
    is_rng = lambda a: rng_passthrough(a, 3)
    W = [
        ("<ec_core::operator::mutator::Mutate<M> as " + OP % "G", "Mutator::mutate", "mutator"),
        ("<ec_core::operator::recombinator::Recombine<Rec> as " + OP % "G", "Recombinator::recombine", "recombinator"),
        ("<ec_core::operator::selector::Select<S> as " + OP % "&'pop P", "Selector::select", "selector"),
    ]
    for fid, callee, field in W:
        f = ctx.fn(fid)
        check_forwarder(ctx, "R14.6", field + "-wrapper/forwarder", f, callee, [lambda a, field=field: derives_from_self(a, field=field), is_in, is_rng], wrappers=())
    R = [
        ("<&M as ec_core::operator::mutator::Mutator<G>>::mutate", "Mutator::mutate"),
        ("<&mut M as ec_core::operator::mutator::Mutator<G>>::mutate", "Mutator::mutate"),
        ("<&Rec as ec_core::operator::recombinator::Recombinator<GS>>::recombine", "Recombinator::recombine"),
        ("<&S as ec_core::operator::selector::Selector<P>>::select", "Selector::select"),
    ]
    for fid, callee in R:
        f = ctx.fn(fid)
        check_forwarder(ctx, "R14.6", fid.split(" as ")[0].lstrip("<") + "/forwarder", f, callee, [lambda a: derives_from_self(a), is_in, is_rng], wrappers=())
    f = ctx.fn("<ec_core::operator::identity::Identity as " + OP % "T")
    ps = return_paths(ctx.paths(f))
    ctx.check(len(ps) == 1 and match(ps[0].ret, Agg("Result::Ok", Param(2))) and not ps[0].calls(), "R14.6", "Identity/returns-input", short(ps[0].ret), f.at())
    f = ctx.fn("<ec_core::operator::constant::Constant<T> as " + OP % "S")
    ps = return_paths(ctx.paths(f))
    ctx.check(len(ps) == 1 and match(ps[0].ret, Agg("Result::Ok", Call("Clone::clone", lambda a: derives_from_self(a, field="value"), nargs=1))) and len(ps[0].calls()) == 1,
              "R14.6", "Constant/returns-clone-of-value", short(ps[0].ret), f.at())
    f = ctx.fn("<ec_core::operator::genome_extractor::GenomeExtractor as " + OP % "&I")
    ps = return_paths(ctx.paths(f))
    ctx.check(len(ps) == 1 and match(ps[0].ret, Agg("Result::Ok", Call("Clone::clone", Call("Individual::genome", Through(Param(2)), nargs=1), nargs=1))) and len(ps[0].calls()) == 2,
              "R14.6", "GenomeExtractor/returns-clone-of-genome", short(ps[0].ret), f.at())
    # Composable provided methods
    C = "ec_core::operator::composable::Composable::"
    specs = {
        "then": Call("Then::new", Param(1), Param(2), nargs=2),
        "and": Call("And::new", Param(1), Param(2), nargs=2),
        "then_map": Call("Then::new", Param(1), Call("Map::new", Param(2), nargs=1), nargs=2),
        "apply_twice": Call("RepeatWith::new", Param(1), nargs=1),
        "apply_n_times": Call("RepeatWith::new", Param(1), nargs=1),
        "map": Call("Map::new", Param(2), nargs=1),
        "wrap": Call("Wrappable::construct", Param(1), Param(2), nargs=2),
    }
    for name, pat in specs.items():
        f = ctx.fn(C + name)
        ps = return_paths(ctx.paths(f))
        ctx.check(len(ps) == 1 and match(ps[0].ret, pat), "R14.6", "Composable::%s/builds-documented-combinator" % name, short(ps[0].ret) if ps else "-", f.at(),
                  bad_detail="extracted " + "; ".join(short(p.ret, 8) for p in ps))
    # constructors store their arguments in order
    for fid, adt, nfields in (("ec_core::operator::composable::then::Then::<F, G>::new", "Then::Then", 2), ("ec_core::operator::composable::and::And::<F, G>::new", "And::And", 2),
                              ("ec_core::operator::composable::map::Map::<F>::new", "Map::Map", 1), ("ec_core::operator::composable::repeat_with::RepeatWith::<F, N>::new", "RepeatWith::RepeatWith", 1)):
        f = ctx.fn(fid)
        ps = return_paths(ctx.paths(f))
        ctx.check(len(ps) == 1 and match(ps[0].ret, Agg(adt, *[Param(i + 1) for i in range(nfields)])), "R14.6", fid.split("::")[-3] + "::new/stores-args-in-order", short(ps[0].ret) if ps else "-", f.at())
    adt = F.adts.get("ec_core::operator::composable::then::Then")
    ctx.check(adt and [x["name"] for x in adt["variants"][0]["fields"]] == ["f", "g"], "R14.6", "Then/field-order-f-g", "fields f, g")
    adt = F.adts.get("ec_core::operator::composable::and::And")
    ctx.check(adt and [x["name"] for x in adt["variants"][0]["fields"]] == ["f", "g"], "R14.6", "And/field-order-f-g", "fields f, g")

    # ---------------- panic audit over the combinators -----------------------------------------
    cg = CallGraph(F)
    roots = [x for x in fam]
    scope = set(roots)
    discharge = [{"fn": "repeat_with::RepeatWith<F, N> as ec_core::operator::Operator<Input>>::apply", "what": "panicking::panic_fmt",
                  "reason": "unreachable!: the Vec collected from take(N) over an endless repeat_with (or filled by N loop iterations) has exactly N elements, so try_into::<[_; N]> succeeds",
                  "guard": lambda c, s: (repeat_shape["ok"], "N-element shape verified by R14.4")}]
    audit_panics(ctx, "R14.4", scope, discharge, floor=1)
