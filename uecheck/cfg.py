"""CFG helpers on raw MIR (A1): back edges / natural loops, dominators, local definitions."""
from .facts import term_targets


def back_edges(fn):
    """(tail, header) pairs found by DFS from bb0 over normal edges"""
    color = {}
    out = []
    stack = [(0, iter(fn.succ(0)))]
    color[0] = 1
    while stack:
        b, it = stack[-1]
        adv = False
        for s in it:
            if color.get(s, 0) == 0:
                color[s] = 1
                stack.append((s, iter(fn.succ(s))))
                adv = True
                break
            if color.get(s) == 1:
                out.append((b, s))
        if not adv:
            color[b] = 2
            stack.pop()
    return out


def loop_body(fn, tail, header):
    body = {header, tail}
    work = [tail]
    while work:
        x = work.pop()
        if x == header:
            continue
        for p in fn.pred(x):
            if p not in body:
                body.add(p)
                work.append(p)
    return body


def dominators(fn):
    n = len(fn.blocks)
    reach = set()
    work = [0]
    while work:
        b = work.pop()
        if b in reach:
            continue
        reach.add(b)
        work.extend(fn.succ(b))
    dom = {b: set(reach) for b in reach}
    dom[0] = {0}
    changed = True
    order = sorted(reach)
    while changed:
        changed = False
        for b in order:
            if b == 0:
                continue
            ps = [p for p in fn.pred(b) if p in reach]
            if not ps:
                continue
            new = set.intersection(*[dom[p] for p in ps]) | {b}
            if new != dom[b]:
                dom[b] = new
                changed = True
    return dom


def defs_of_local(fn, l):
    """all whole-local definitions of `l`: list of (block, kind, payload) with kind 'assign' (rvalue json) or 'call' (term json)"""
    out = []
    for bi, b in enumerate(fn.blocks):
        if b.get("cleanup"):
            continue
        for st in b["stmts"]:
            if st["k"] == "assign" and st["lhs"]["l"] == l and not st["lhs"]["p"]:
                out.append((bi, "assign", st["rv"]))
        t = b["term"]
        if t["k"] == "call" and t["dest"]["l"] == l and not t["dest"]["p"]:
            out.append((bi, "call", t))
    return out


def chase(fn, op, depth=0):
    """follow plain copies/moves of whole locals back to a defining rvalue/call.
    returns ('local', l) if l has several defs or is an argument, ('rv', rv), ('call', term), ('const', op)"""
    if op.get("k") == "const":
        return ("const", op)
    if op.get("k") not in ("copy", "move"):
        return ("other", op)
    pl = op["place"]
    if pl["p"]:
        return ("place", pl)
    l = pl["l"]
    if 1 <= l <= fn.argc:
        return ("local", l)
    ds = defs_of_local(fn, l)
    if len(ds) != 1 or depth > 12:
        return ("local", l)
    bi, kind, x = ds[0]
    if kind == "call":
        return ("call", x)
    if x["k"] == "use":
        return chase(fn, x["a"], depth + 1)
    return ("rv", x)


def _uses_defs(fn):
    """per block: (locals used before any definition in the block, locals fully defined in the block)"""
    out = []
    for b in fn.blocks:
        use, de = set(), set()

        def u(l):
            if l not in de:
                use.add(l)

        def op(o):
            if isinstance(o, dict) and o.get("k") in ("copy", "move"):
                u(o["place"]["l"])
                for e in o["place"]["p"]:
                    if isinstance(e, dict) and "idx" in e:
                        u(e["idx"])
        for st in b["stmts"]:
            if st["k"] == "assign":
                rv = st["rv"]
                for key in ("a", "b"):
                    if key in rv:
                        op(rv[key])
                for o in rv.get("ops", []) or []:
                    op(o)
                if "place" in rv:
                    u(rv["place"]["l"])
                lhs = st["lhs"]
                if lhs["p"]:
                    u(lhs["l"])
                else:
                    de.add(lhs["l"])
            elif st["k"] == "setdiscr":
                u(st["lhs"]["l"])
        t = b.get("term") or {}
        k = t.get("k")
        if k == "call":
            for a in t.get("args", []):
                op(a)
            if t.get("fnop"):
                op(t["fnop"])
            d = t.get("dest")
            if d is not None:
                if d["p"]:
                    u(d["l"])
                else:
                    de.add(d["l"])
        elif k == "switch":
            op(t.get("discr"))
        elif k == "assert":
            op(t.get("cond"))
            for o in t.get("ops", []) or []:
                op(o)
        elif k == "drop":
            pl = t.get("place")
            if isinstance(pl, dict):
                u(pl["l"])
        elif k == "return":
            u(0)
        out.append((use, de))
    return out


def live_in(fn, block):
    """locals live on entry to `block` (backward dataflow over normal edges)"""
    cache = getattr(fn, "_live_cache", None) if hasattr(fn, "__dict__") else None
    ud = _uses_defs(fn)
    n = len(fn.blocks)
    live = [set() for _ in range(n)]
    changed = True
    while changed:
        changed = False
        for b in range(n - 1, -1, -1):
            out = set()
            for s in fn.succ(b):
                out |= live[s]
            new = ud[b][0] | (out - ud[b][1])
            if new != live[b]:
                live[b] = new
                changed = True
    return live[block]
