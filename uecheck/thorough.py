"""Thorough tier: the property's rules on (1) a cold, fresh extraction in the dev profile, (2) a second
extraction in the release profile (overflow checks off: no verdict may depend on debug-only asserts),
and (3) the checker's own self-test for this property: every catalogued mutant must be reported,
every benign rewrite must stay silent (run on scratch copies outside /repo and /verif)."""
import json
import os
import random
import subprocess
import sys
import time

from .run import run_property, write_evidence, VERIF


def run(prop, seed):
    t0 = time.time()
    work = os.environ.get("UEC_WORK", os.path.join(VERIF, ".work"))
    ev_dir = os.environ.get("UEC_EVIDENCE_DIR", os.path.join(VERIF, "evidence"))
    rc = 0
    configs = []
    rc1, ev = run_property(prop, "thorough", seed, facts_dir=os.path.join(work, "facts-thorough-" + prop), extract_args=["--cold"], write=False, label="dev profile, cold target dir")
    configs.append({"config": "dev profile, cold target dir", "obligations": ev["coverage"]["obligations"], "discharged": ev["coverage"]["discharged"], "violations": ev["violations"]})
    rc |= rc1
    if prop != "C19" or True:
        os.environ["UEC_SKIP_WITNESSES"] = "1"      # witnesses are profile independent: compiled once above
        try:
            rc2, ev2 = run_property(prop, "thorough", seed, facts_dir=os.path.join(work, "facts-thorough-rel-" + prop), extract_args=["--release"], write=False, label="release profile (overflow checks off)")
        finally:
            os.environ.pop("UEC_SKIP_WITNESSES", None)
        configs.append({"config": "release profile (overflow checks off)", "obligations": ev2["coverage"]["obligations"], "discharged": ev2["coverage"]["discharged"], "violations": ev2["violations"]})
        rc |= rc2
    # self-test -------------------------------------------------------------------
    cat = json.load(open(os.path.join(VERIF, "selftest", "catalog.json")))
    mine = [e for e in cat if prop in e["props"] and (e["kind"] == "benign" or (e.get("expect") or {}).get(prop) not in (None,))]
    rnd = random.Random(seed)
    limit = int(os.environ.get("UEC_SELFTEST_MAX", "40"))
    if len(mine) > limit:
        mine = rnd.sample(mine, limit)
    ids = ",".join(e["id"] for e in mine)
    st = {"entries": len(mine), "results": []}
    if mine and os.environ.get("UEC_NO_SELFTEST") != "1":
        out_json = os.path.join(work, "selftest-%s.json" % prop)
        r = subprocess.run([sys.executable, "-B", os.path.join(VERIF, "selftest", "mut.py"), "--jobs", os.environ.get("UEC_SELFTEST_JOBS", "8"), "--prop", prop, "--only", ids, "--json", out_json],
                           stdout=subprocess.PIPE, stderr=subprocess.STDOUT, text=True)
        try:
            st["results"] = json.load(open(out_json))
        except Exception:
            st["results"] = []
        st["rc"] = r.returncode
        killed = sum(1 for x in st["results"] if x["kind"] == "mutant" and x["ok"])
        mut = sum(1 for x in st["results"] if x["kind"] == "mutant")
        silent = sum(1 for x in st["results"] if x["kind"] == "benign" and x["ok"])
        ben = sum(1 for x in st["results"] if x["kind"] == "benign")
        st["summary"] = "mutants reported %d/%d, benign rewrites silent %d/%d" % (killed, mut, silent, ben)
        print("%s self-test: %s" % (prop, st["summary"]))
        for x in st["results"]:
            if not x["ok"]:
                print("SELFTEST-PROBLEM %s %s: %s" % (prop, x["id"], x["text"]))
    ev["tier"] = "thorough"
    ev["coverage"]["configurations"] = configs
    ev["coverage"]["selftest"] = st
    ev["coverage"]["checker_cmd"] = "./check %s --tier thorough" % prop
    ev["violations"] = sum(c["violations"] for c in configs)
    ev["wall_s"] = round(time.time() - t0, 3)
    write_evidence(ev_dir, prop, ev)
    return 1 if rc else 0
