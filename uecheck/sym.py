"""Path-sensitive def-use reconstruction over MIR (analyses A1-A4 of DESIGN.md).

For one function body the walker enumerates the acyclic CFG paths (unwind edges
ignored, each loop body entered once) and, along each path, rebuilds for every
local the *expression tree* that defines it from the function's parameters,
constants and call results.  No value is ever computed: the trees are def-use
chains made explicit, and branch conditions are recorded, not solved.  The only
pruning is by syntactic facts: a switch on a constant, or on a discriminant
already fixed earlier on the same path (or of an aggregate built on the path).

Expression forms (tuples, structurally comparable):
  ('param', i)                       i-th local of the body (1-based), i <= argc
  ('upvar', name, idx)               captured variable of a closure body
  ('const', ty, text, intvalue|None)
  ('fnitem', path, full, resolved|None, generic argument texts of the (resolved) item|None)
  ('call', path, full, args, site)   site = (fn_id, block)
  ('field', base, name|idx, variant|None)
  ('deref', e)   ('ref', e, is_mut)
  ('binop', op, a, b)  ('unop', op, a)  ('cast', kind, a, ty)
  ('agg', kind, name, ops)           kind in tuple/array/adt/closure
  ('discr', e)  ('index', base, idx)  ('len', e)
  ('unknown', tag)
"""
import os, sys
import sys

sys.setrecursionlimit(10000)

MAX_PATHS = 60000


class PathLimit(Exception):
    pass


class Path:
    __slots__ = ("conds", "events", "ret", "end", "blocks", "env", "fieldenv")

    def __init__(self, conds, events, ret, end, blocks, env=None, fieldenv=None):
        self.conds = conds      # [(expr, value, block)]  value may be ('not', [values]) for otherwise
        # events also carry ("cond", expr, value) markers: where in the sequence of effects each condition was evaluated
        self.events = events    # [('call', expr) | ('write', place_expr, value_expr, block) | ('assert', msg, cond, expected, ops, block)]
        self.ret = ret          # Expr of _0 at return, or None
        self.end = end          # 'return' | 'unreachable' | 'diverge' | 'loop:<bb>'
        self.blocks = blocks    # block indices in order
        self.env = env
        self.fieldenv = fieldenv

    def calls(self):
        return [e[1] for e in self.events if e[0] == "call"]


def simp_ref(e, mut):
    # &*x  == x  (reborrow)
    if e[0] == "deref":
        return e[1]
    return ("ref", e, mut)


def simp_deref(e):
    if e[0] == "ref":
        return e[1]
    return ("deref", e)


class Walker:
    def __init__(self, fn, facts=None, keep_env=False, depth=0, canon=False):
        self.fn = fn
        self.facts = facts
        self.keep_env = keep_env
        self.depth = depth
        self.canon = canon
        self.inline_all = False      # summary mode: see through every small workspace function, not only new ones
        self.models = None
        if canon:
            from .canon import Models
            self.models = Models(self)
        self.paths = []
        self.npaths = 0

    # -- operand / place evaluation -----------------------------------
    def local_expr(self, l, env):
        if l in env:
            return env[l]
        if 1 <= l <= self.fn.argc:
            return ("param", l)
        return ("unknown", "local%d" % l)

    def place_expr(self, p, env, fenv):
        l = p["l"]
        proj = p["p"]
        i = 0
        # closure upvar access: (*_1).k or _1.k
        base = None
        if proj and not (l in env):
            pass
        if proj and isinstance(proj[0], dict) and "f" in proj[0] and (l, proj[0]["f"]) in fenv:
            base = fenv[(l, proj[0]["f"])]
            i = 1
        else:
            base = self.local_expr(l, env)
        variant = None
        while i < len(proj):
            e = proj[i]
            if e == "deref":
                base = simp_deref(base)
            elif isinstance(e, dict):
                if "f" in e:
                    base = self.field_of(base, e, variant)
                    variant = None
                elif "dc" in e:
                    variant = e.get("name")
                elif "idx" in e:
                    base = ("index", base, self.local_expr(e["idx"], env))
                elif "cidx" in e:
                    base = ("index", base, ("const", "usize", "%s%d" % ("-" if e["from_end"] else "", e["cidx"]),
                                            -e["cidx"] if e["from_end"] else e["cidx"]))
                elif "sub" in e:
                    base = ("subslice", base, e["sub"], e["to"], e["from_end"])
            else:
                base = ("proj", base, e)
            i += 1
        return base

    def field_of(self, base, e, variant):
        idx = e["f"]
        name = e.get("name")
        if e.get("upvar") and base[0] in ("param", "deref") and self.fn.is_closure:
            root = base[1] if base[0] == "deref" else base
            if root == ("param", 1):
                return ("upvar", name, idx)
        if base[0] == "agg" and idx < len(base[3]):
            if base[1] in ("tuple", "array", "closure"):
                return base[3][idx]
            if base[1] == "adt":
                # only if the variant matches (or struct)
                vname = base[2].rsplit("::", 1)[-1]
                if variant is None or variant == vname:
                    return base[3][idx]
        key = name if (name is not None and not e.get("tuple")) else idx
        if isinstance(key, str) and key.isdigit():
            key = int(key)
        return ("field", base, key, variant)

    def op_expr(self, o, env, fenv):
        k = o["k"]
        if k in ("copy", "move"):
            return self.place_expr(o["place"], env, fenv)
        if k == "const":
            if "promoted" in o:
                pe = self.promoted_expr(o["promoted"])
                if pe is not None:
                    return pe
            if "fn" in o:
                res = o.get("res")
                ta = (res or {}).get("targs") if res else o.get("targs")
                ta = tuple(a.get("s") if isinstance(a, dict) else None for a in ta) if ta is not None else None
                return ("fnitem", o["fn"], o["full"], res["def"] if res else None, ta)
            if "closure" in o:
                return ("agg", "closure", o["closure"], ())
            v = o.get("v")
            if v is None and "fv" in o:
                v = o["fv"]
            if v is None and self.facts is not None and isinstance(o.get("ty"), str):
                # the value of a field-less workspace struct (`EmptyPopulation`, `ZeroWeight`) written as a path is a constant in
                # MIR; it is the same value as the aggregate the struct literal builds
                adt = self.facts.adts.get(o["ty"])
                if adt is not None and adt.get("kind") == "struct" and len(adt.get("variants") or ()) == 1 and not adt["variants"][0]["fields"]:
                    return ("agg", "adt", o["ty"] + "::" + adt["variants"][0]["name"], ())
            return ("const", o["ty"], o["s"], v)
        return ("unknown", "operand")

    def promoted_expr(self, idx):
        """value of a promoted constant (`&0.0`, `&[..]`): its tiny straight-line body is evaluated symbolically"""
        proms = self.fn.j.get("promoted") or []
        if idx >= len(proms):
            return None
        blocks = proms[idx]
        env, fenv = {}, {}
        bi = 0
        for _ in range(64):
            b = blocks[bi]
            for st in b["stmts"]:
                if st["k"] == "assign":
                    val = self.rv_expr(st["rv"], env, fenv)
                    self.assign(st["lhs"], val, env, fenv, [], bi)
            t = b["term"]
            if t["k"] == "goto":
                bi = t["target"]
                continue
            if t["k"] == "return":
                return env.get(0)
            return None
        return None

    def rv_expr(self, rv, env, fenv):
        k = rv["k"]
        if k == "use":
            return self.op_expr(rv["a"], env, fenv)
        if k == "ref":
            return simp_ref(self.place_expr(rv["place"], env, fenv), rv["mut"])
        if k == "rawptr":
            return ("rawptr", self.place_expr(rv["place"], env, fenv))
        if k == "copy_for_deref":
            return self.place_expr(rv["place"], env, fenv)
        if k == "binop":
            return ("binop", rv["op"], self.op_expr(rv["a"], env, fenv), self.op_expr(rv["b"], env, fenv))
        if k == "unop":
            if rv["op"] == "PtrMetadata":
                return ("len", self.op_expr(rv["a"], env, fenv))
            return ("unop", rv["op"], self.op_expr(rv["a"], env, fenv))
        if k == "cast":
            a = rv["a"]
            src = None
            if a.get("k") in ("copy", "move") and not a["place"]["p"]:
                src = self.fn.locals[a["place"]["l"]]["ty"].get("s")
            return ("cast", rv["kind"], self.op_expr(a, env, fenv), rv["ty"]["s"], src)
        if k == "discr":
            return ("discr", self.place_expr(rv["place"], env, fenv))
        if k == "agg":
            kind = rv.get("agg")
            ops = tuple(self.op_expr(x, env, fenv) for x in rv["ops"])
            if kind == "adt":
                return ("agg", "adt", rv["adt"] + "::" + rv["variant"], ops)
            if kind == "closure":
                return ("agg", "closure", rv["closure"], ops)
            if kind in ("tuple", "array"):
                return ("agg", kind, kind, ops)
            return ("agg", "other", str(kind), ops)
        if k == "repeat":
            return ("repeat", self.op_expr(rv["a"], env, fenv), rv["n"])
        if k == "thread_local_ref":
            return ("thread_local", rv["path"])
        return ("unknown", rv.get("s", k)[:60])

    # -- walking -------------------------------------------------------
    def run(self, start=0, env=None, known=None):
        self.paths = []
        self.npaths = 0
        self._walk(start, dict(env or {}), {}, [], [], dict(known or {}), [], set())
        return self.paths

    def _finish(self, conds, events, ret, end, blocks, env, fenv):
        self.npaths += 1
        if self.npaths > MAX_PATHS:
            raise PathLimit(self.fn.id)
        self.paths.append(Path(list(conds), list(events), ret, end, list(blocks),
                               dict(env) if self.keep_env else None,
                               dict(fenv) if self.keep_env else None))

    def assign(self, lhs, val, env, fenv, events, bi):
        l = lhs["l"]
        proj = lhs["p"]
        if not proj:
            env[l] = val
            env.pop(("refto", l), None)
            for key in [k for k in fenv if k[0] == l]:
                del fenv[key]
            return
        if len(proj) == 1 and isinstance(proj[0], dict) and "f" in proj[0]:
            fenv[(l, proj[0]["f"])] = val
            # a write into a by-value param / local aggregate: also an event if it is a param
            if 1 <= l <= self.fn.argc:
                events.append(("write", self.place_expr_nofenv(lhs, env), val, bi))
            return
        events.append(("write", self.place_expr(lhs, env, fenv), val, bi))

    def place_expr_nofenv(self, p, env):
        return self.place_expr(p, env, {})

    def _walk(self, bi, env, fenv, conds, events, known, blocks, onpath):
        fn = self.fn
        while True:
            if bi in onpath:
                self._finish(conds, events, None, "loop:%d" % bi, blocks, env, fenv)
                return
            onpath = onpath | {bi}
            blocks = blocks + [bi]
            b = fn.blocks[bi]
            for st in b["stmts"]:
                if st["k"] == "assign":
                    val = self.rv_expr(st["rv"], env, fenv)
                    self.assign(st["lhs"], val, env, fenv, events, bi)
                    rv = st["rv"]
                    if not st["lhs"]["p"]:
                        # remember `_t = &mut _x` / `_t = move _u` (with _u such a reference) for mem::swap/replace
                        if rv["k"] == "ref" and rv["mut"] and not rv["place"]["p"]:
                            env[("refto", st["lhs"]["l"])] = rv["place"]["l"]
                        elif rv["k"] == "ref" and rv["mut"] and rv["place"]["p"] == ["deref"] and ("refto", rv["place"]["l"]) in env:
                            env[("refto", st["lhs"]["l"])] = env[("refto", rv["place"]["l"])]
                        elif rv["k"] == "use" and rv["a"].get("k") in ("move", "copy") and not rv["a"]["place"]["p"] and ("refto", rv["a"]["place"]["l"]) in env:
                            env[("refto", st["lhs"]["l"])] = env[("refto", rv["a"]["place"]["l"])]
                elif st["k"] == "setdiscr":
                    events.append(("setdiscr", self.place_expr(st["lhs"], env, fenv), st["vidx"], bi))
            t = b["term"]
            k = t["k"]
            if k == "goto":
                bi = t["target"]
                continue
            if k == "drop":
                bi = t["target"]
                continue
            if k == "return":
                self._finish(conds, events, self.local_expr(0, env) if (0 in env) else self._ret_from_fields(env, fenv), "return", blocks, env, fenv)
                return
            if k == "unreachable":
                self._finish(conds, events, None, "unreachable", blocks, env, fenv)
                return
            if k == "assert":
                events.append(("assert", t["msg"], self.op_expr(t["cond"], env, fenv), t["expected"],
                               tuple(self.op_expr(o, env, fenv) for o in t["ops"]), bi))
                bi = t["target"]
                continue
            if k == "call":
                args = tuple(self.op_expr(a, env, fenv) for a in t["args"])
                if t.get("fn"):
                    ce = ("call", t["fn"], t["full"], args, (fn.id, bi))
                else:
                    ce = ("call", None, t.get("fnty"), (self.op_expr(t["fnop"], env, fenv),) + args, (fn.id, bi))
                if self.canon and t.get("fn"):
                    outs = self.models.model(t["fn"], t.get("full"), args, ce, (fn.id, bi), known)
                    if outs is not None:
                        for o in outs:
                            c2 = conds + [(c[0], c[1], bi) for c in o.conds]
                            marked = {(e[1], e[2]) for e in o.events if e[0] == "cond"}
                            ev2 = list(events) + [("cond", c[0], c[1]) for c in o.conds if (c[0], c[1]) not in marked] + list(o.events)
                            k2 = dict(known)
                            k2.update(o.known)
                            if o.end != "return" or o.value is None:
                                self._finish(c2, ev2, None, o.end if o.end != "return" else "diverge", blocks, env, fenv)
                                continue
                            env2, fenv2 = dict(env), dict(fenv)
                            self.assign(t["dest"], o.value, env2, fenv2, ev2, bi)
                            if t["target"] is None:
                                self._finish(c2, ev2, None, "diverge", blocks, env2, fenv2)
                            else:
                                self._walk(t["target"], env2, fenv2, c2, ev2, k2, blocks, onpath)
                        return
                if not self.canon and t.get("fn") in ("std::ops::Try::branch", "core::ops::Try::branch") and len(args) == 1 and t["target"] is not None and \
                        args[0][0] == "agg" and args[0][1] == "adt" and args[0][2] in ("std::result::Result::Ok", "std::result::Result::Err", "std::option::Option::Some", "std::option::Option::None"):
                    # `?` on a value whose variant is known (it was built by a helper this walk has just seen through)
                    v = args[0][2].rsplit("::", 1)[-1]
                    cf = ("agg", "adt", "std::ops::ControlFlow::Continue", (args[0][3][0],)) if v in ("Ok", "Some") else ("agg", "adt", "std::ops::ControlFlow::Break", (args[0],))
                    self.assign(t["dest"], cf, env, fenv, events, bi)
                    bi = t["target"]
                    continue
                inl = self.inline_candidate(t)
                clo_map = None
                if inl is None:
                    # a closure built in this body and invoked directly (`let f = |x| ..; f(a)`): see through the call
                    clo_map = self.local_closure_call(t, args)
                    if clo_map is not None:
                        inl = clo_map[0]
                if inl is not None:
                    qs = self.facts.inline_paths(inl, self.depth, canon=self.canon, inline_all=self.inline_all)
                    if qs is not None:
                        mapping = clo_map[1] if clo_map is not None else {("param", i + 1): a for i, a in enumerate(args)}
                        gmap = self.generic_map(t, inl) if (self.inline_all and clo_map is None) else None
                        for q in qs:
                            if gmap:
                                q = subst_generics_path(q, gmap)      # callee's own parameter names -> the call's arguments
                            q2 = subst_path(q, mapping, bi, site=(fn.id, bi))
                            # a function value the caller supplied and the callee calls: one path per path of that body
                            for q2 in expand_deferred(q2, self.facts, self.canon, self.inline_all, self.depth):
                                if self.canon:
                                    from .canon import simplify_path
                                    q2 = simplify_path(q2, known, self.facts.adts)
                                    if q2 is None:
                                        continue
                                inst = None
                                if self.inline_all and clo_map is None:
                                    # instantiate the callee's generic parameters with the call's arguments where the mapping is
                                    # known (a direct call of the inlined function itself); otherwise remember the instantiation
                                    if gmap is None:
                                        from .canonsum import concrete_instantiation
                                        inst = concrete_instantiation(t.get("full"), inl)
                                ev2 = list(events) + [("inlined", inl, args, bi, inst)] + q2.events
                                c2 = conds + q2.conds
                                if q2.end != "return":
                                    self._finish(c2, ev2, None, q2.end, blocks, env, fenv)
                                    continue
                                env2, fenv2 = dict(env), dict(fenv)
                                self.assign(t["dest"], q2.ret if q2.ret is not None else ("unknown", "ret"), env2, fenv2, ev2, bi)
                                if t["target"] is None:
                                    self._finish(c2, ev2, None, "diverge", blocks, env2, fenv2)
                                else:
                                    self._walk(t["target"], env2, fenv2, c2, ev2, dict(known), blocks, onpath)
                        return
                events.append(("call", ce))
                self.assign(t["dest"], ce, env, fenv, events, bi)
                self.model_mem_fns(t, ce, env, fenv)
                self.model_tamper(ce, env)
                if t["target"] is None:
                    self._finish(conds, events, None, "diverge", blocks, env, fenv)
                    return
                bi = t["target"]
                continue
            if k == "switch":
                d = self.op_expr(t["discr"], env, fenv)
                arms = t["arms"]
                # constant?
                if d[0] == "const" and d[3] is not None and not isinstance(d[3], str):
                    v = d[3]
                    tgt = t["otherwise"]
                    for av, at in arms:
                        if av == v:
                            tgt = at
                            break
                    bi = tgt
                    continue
                fixed = self.known_value(d, known)
                if fixed is not None:
                    kind, val = fixed
                    if kind == "eq":
                        tgt = t["otherwise"]
                        for av, at in arms:
                            if av == val:
                                tgt = at
                                break
                        bi = tgt
                        continue
                    # kind == 'ne': set of excluded values
                    excluded = val
                else:
                    excluded = frozenset()
                # fork
                vals = [av for av, _ in arms]
                targets = []
                for av, at in arms:
                    if av in excluded:
                        continue
                    targets.append((av, at))
                # group arms by target so or-patterns do not multiply paths?  No:
                # the value matters for later re-switches.  Keep one per value.
                for av, at in targets:
                    k2 = dict(known)
                    k2[d] = ("eq", av)
                    self._walk(at, dict(env), dict(fenv), conds + [(d, av, bi)], list(events) + [("cond", d, av)], k2, blocks, onpath)
                # otherwise
                ov = frozenset(vals) | excluded
                rest = self.remaining_variants(b, t, ov) if self.canon else None
                if rest is not None and len(rest) == 0:
                    return          # every variant of the enum has its own arm: the catch-all is dead
                if self.otherwise_feasible(d, t, ov):
                    k2 = dict(known)
                    only = rest[0] if (rest is not None and len(rest) == 1) else None
                    if only is not None:
                        # canonical mode: "not any of the other variants" of a known enum is "is the remaining one"
                        k2[d] = ("eq", only)
                        self._walk(t["otherwise"], dict(env), dict(fenv), conds + [(d, only, bi)], list(events) + [("cond", d, only)], k2, blocks, onpath)
                    else:
                        k2[d] = ("ne", ov)
                        self._walk(t["otherwise"], dict(env), dict(fenv), conds + [(d, ("not", tuple(sorted(ov))), bi)],
                                   list(events) + [("cond", d, ("not", tuple(sorted(ov))))], k2, blocks, onpath)
                return
            # other terminators (resume etc.)
            self._finish(conds, events, None, "diverge", blocks, env, fenv)
            return

    def inline_candidate(self, t):
        F = self.facts
        if F is None or not t.get("fn") or (getattr(F, "known_fn_ids", None) is None and not self.inline_all):
            return None
        res = t.get("res") or {}
        via = (res.get("via_from") or {}).get("def")        # x.into() is <U as From<T>>::from(x): the impl the compiler picked
        for fid in (via, res.get("def"), t.get("fn")):
            if fid and fid != self.fn.id and F.is_new_fn(fid):
                return fid
            if self.inline_all and fid and fid != self.fn.id and fid not in getattr(F, "noinline", ()):
                g = F.fns.get(fid)
                if g is not None and not g.is_closure:
                    return fid
        return None

    def generic_map(self, t, inl):
        """{callee type/const parameter name: argument text} for a direct call of `inl`, None when unknown"""
        F = self.facts
        g = F.fns.get(inl) if F is not None else None
        res = t.get("res") or {}
        if g is None:
            return None
        names = g.j.get("generics")
        if (res.get("via_from") or {}).get("def") == inl and (res.get("via_from") or {}).get("targs") is not None:
            targs = res["via_from"]["targs"]
        elif res.get("def") == inl and res.get("targs") is not None:
            # a trait method call resolved to this impl item: the resolved instance's arguments (impl parameters, then the
            # method's own) say what the body's parameter names stand for here
            targs = res["targs"]
        elif t.get("fn") != inl or (res and res.get("def") not in (None, inl)):
            return None
        else:
            targs = t.get("targs")
        if names is None or targs is None or len(names) != len(targs):
            return None
        m = {}
        for n, a in zip(names, targs):
            txt = a.get("s") if isinstance(a, dict) else None
            if txt is None:
                return None
            if txt != n:
                m[n] = txt
        return m

    def local_closure_call(self, t, args):
        """(closure fn id, parameter mapping) when the call is Fn::call / FnMut::call_mut / FnOnce::call_once on a
        closure aggregate built in this very body, else None"""
        F = self.facts
        path = t.get("fn") or ""
        if F is None or path.split("::")[-1] not in ("call", "call_mut", "call_once") or "ops::Fn" not in path or len(args) != 2:
            return None
        c = strip_refs(args[0])
        if not (isinstance(c, tuple) and c[0] == "agg" and c[1] == "closure"):
            return None
        cf = F.fns.get(c[2])
        if cf is None or not cf.is_closure or cf.id == self.fn.id:
            return None
        tup = args[1]
        if not (tup[0] == "agg" and tup[1] == "tuple"):
            return None
        mapping = {}
        for i, cap in enumerate(cf.captures):
            if i < len(c[3]):
                mapping[("upvar", cap["var"], i)] = c[3][i]
        for i, a in enumerate(tup[3]):
            mapping[("param", i + 2)] = a
        return cf.id, mapping

    def model_mem_fns(self, t, ce, env, fenv):
        """std::mem::swap / replace / take on plain locals update the def-use environment"""
        path = t.get("fn") or ""
        if not path.startswith("std::mem::") and not path.startswith("core::mem::"):
            return
        name = path.rsplit("::", 1)[-1]

        def target(op):
            if op.get("k") in ("move", "copy") and not op["place"]["p"]:
                return env.get(("refto", op["place"]["l"]))
            return None
        args = t["args"]
        if name == "swap" and len(args) == 2:
            a, b = target(args[0]), target(args[1])
            if a is not None and b is not None:
                va, vb = self.local_expr(a, env), self.local_expr(b, env)
                env[a], env[b] = vb, va
        elif name == "replace" and len(args) == 2:
            a = target(args[0])
            if a is not None:
                old = self.local_expr(a, env)
                env[a] = self.op_expr(args[1], env, fenv)
                if not t["dest"]["p"]:
                    env[t["dest"]["l"]] = old
        elif name == "take" and len(args) == 1:
            a = target(args[0])
            if a is not None:
                old = self.local_expr(a, env)
                env[a] = ("call", "std::default::Default::default", "Default::default", (), ce[4])
                if not t["dest"]["p"]:
                    env[t["dest"]["l"]] = old

    TAMPER = ("[T]::reverse", "[T]::sort", "[T]::sort_by", "[T]::sort_by_key", "[T]::sort_unstable", "[T]::sort_unstable_by", "[T]::sort_unstable_by_key",
              "[T]::rotate_left", "[T]::rotate_right", "[T]::swap", "[T]::fill", "[T]::fill_with", "[T]::swap_with_slice", "[T]::copy_from_slice", "[T]::clone_from_slice",
              "Vec::truncate", "Vec::clear", "Vec::remove", "Vec::swap_remove", "Vec::pop", "Vec::drain", "Vec::retain", "Vec::retain_mut", "Vec::dedup", "Vec::dedup_by",
              "Vec::dedup_by_key", "Vec::insert", "Vec::resize", "Vec::resize_with", "Vec::split_off", "Vec::push", "Vec::extend", "Extend::extend", "Vec::append",
              "Vec::extend_from_slice",
              # handing out mutable access to the elements: whatever is done through it happens in place
              "[T]::iter_mut", "[T]::get_mut", "[T]::first_mut", "[T]::last_mut", "[T]::split_at_mut", "[T]::split_first_mut", "[T]::split_last_mut", "[T]::chunks_mut",
              "IndexMut::index_mut", "[T]::select_nth_unstable", "[T]::partition_dedup", "Vec::as_mut_slice", "Vec::as_mut_ptr", "Vec::spare_capacity_mut")
    EMPTY_CTORS = ("Vec::new", "Vec::with_capacity", "Default::default", "VecDeque::new", "String::new")

    def model_tamper(self, ce, env):
        """A local that holds a *computed* collection (the result of a call such as collect(), not an empty vector that the
        code then fills, and not a place inside a parameter) and is then changed in place - reversed, sorted, truncated,
        appended to - no longer has the value its defining expression describes: from here on it reads as
        ('tampered', <that expression>, <method>, site), which no rule's pattern for the constructed value matches."""
        from .pat import callee_is
        if not ce[1] or not ce[3] or not callee_is(ce, *self.TAMPER):
            return
        a = ce[3][0]
        mutable = False
        while isinstance(a, tuple) and a:
            if a[0] == "ref":
                mutable = mutable or (len(a) > 2 and bool(a[2]))
                a = a[1]
            elif a[0] == "deref":
                a = a[1]
            elif a[0] == "cast" and len(a) > 2:
                a = a[2]            # &mut [T; N] -> &mut [T]
            elif a[0] == "call" and len(a[3]) == 1 and callee_is(a, "DerefMut::deref_mut", "Vec::as_mut_slice", "AsMut::as_mut", "BorrowMut::borrow_mut"):
                mutable = True
                a = a[3][0]
            elif a[0] == "call" and len(a[3]) == 2 and callee_is(a, "IndexMut::index_mut"):
                mutable = True
                a = a[3][0]
            else:
                break
        if not mutable or not isinstance(a, tuple) or not a or a[0] == "tampered":
            return
        root = a
        while isinstance(root, tuple) and root and root[0] in ("field", "index", "deref", "ref"):
            root = root[1]
        if isinstance(root, tuple) and root and root[0] == "param":
            # an argument taken *by value* (or a part it was destructured into) is this function's own local: changing it in
            # place changes what later reads of it see.  (Behind a reference - `self.values` of `&mut self` - it is a place
            # of the caller's, read where it is used.)
            chain, x = [], a
            while isinstance(x, tuple) and x and x[0] in ("field", "index", "deref", "ref"):
                chain.append(x[0])
                x = x[1]
            if "deref" in chain or not (1 <= root[1] <= self.fn.argc) or not self.by_value_param(root[1]):
                return
            new = ("tampered", a, (ce[1] or "").rsplit("::", 1)[-1], ce[4])
            hit = False
            for l, v in list(env.items()):
                if v == a:
                    env[l] = new
                    hit = True
            if a == root and root[1] not in env:
                env[root[1]] = new
                hit = True
            if not hit and self.local_expr(root[1], env) == root:
                env[root[1]] = ("tampered", root, (ce[1] or "").rsplit("::", 1)[-1], ce[4])      # a part of the parameter was changed: the whole reads as changed
            return
        if not (isinstance(root, tuple) and root and root[0] in ("call", "agg")):
            return              # a place inside a parameter / captured variable: read again where it is used
        if root[0] == "call" and callee_is(root, *self.EMPTY_CTORS):
            return              # an accumulator: the rules follow what is appended to it
        if root[0] == "agg" and not root[3]:
            return
        new = ("tampered", a, (ce[1] or "").rsplit("::", 1)[-1], ce[4])
        for l, v in list(env.items()):
            if v == a:
                env[l] = new

    def by_value_param(self, k):
        try:
            return (self.fn.j["locals"][k]["ty"] or {}).get("k") not in ("ref", "refmut", "ptr")
        except Exception:
            return False

    def _ret_from_fields(self, env, fenv):
        fs = sorted((k[1], v) for k, v in fenv.items() if k[0] == 0)
        if fs:
            return ("agg", "fields", "_0", tuple(v for _, v in fs))
        return ("unknown", "ret")

    def known_value(self, d, known):
        if d in known:
            return known[d]
        # discriminant of an aggregate built on this path
        if d[0] == "discr" and d[1][0] == "agg" and d[1][1] == "adt" and self.facts is not None:
            path, vname = d[1][2].rsplit("::", 1)
            adt = self.facts.adts.get(path) or STD_ADTS.get(path)
            if adt:
                for v in adt["variants"]:
                    if v["name"] == vname:
                        return ("eq", v["discr"])
        return None

    def otherwise_feasible(self, d, t, ov):
        # bool switch: arms list only 0 → otherwise is 'true'; always feasible unless both listed
        ty = t.get("discr_ty", "")
        if ty == "bool":
            return len(ov) < 2
        if d[0] == "discr":
            n = self.variant_count(d[1])
            if n is not None:
                return len(ov) < n
        return True

    def variant_count(self, e):
        return None

    def place_ty(self, pl):
        """type string of a MIR place (local type followed through deref / field projections), or None"""
        ty = self.fn.locals[pl["l"]]["ty"].get("s", "")
        for e in pl["p"]:
            if e == "deref":
                for pre in ("&mut ", "&"):
                    if ty.startswith(pre):
                        ty = ty[len(pre):]
                        break
                else:
                    if ty.startswith("std::boxed::Box<"):
                        ty = ty[len("std::boxed::Box<"):-1]
                    else:
                        return None
                if ty.startswith("'"):
                    ty = ty.split(" ", 1)[-1]
                    if ty.startswith("mut "):
                        ty = ty[4:]
            elif isinstance(e, dict) and "f" in e:
                ty = e.get("ty") or ""
            elif isinstance(e, dict) and "dc" in e:
                return None
            else:
                return None
        return ty

    def remaining_variants(self, b, t, ov):
        """the discriminant values left for the otherwise branch of a switch on `discriminant(place)` of a known enum (None: unknown)"""
        op = t.get("discr") or {}
        if op.get("k") not in ("copy", "move") or op["place"]["p"]:
            return None
        l = op["place"]["l"]
        pl = None
        for st in b["stmts"]:
            if st["k"] == "assign" and not st["lhs"]["p"] and st["lhs"]["l"] == l and st["rv"]["k"] == "discr":
                pl = st["rv"]["place"]
        if pl is None:
            return None
        ty = self.place_ty(pl)
        if not ty:
            return None
        head = ty.split("<", 1)[0]
        adt = STD_ADTS.get(head) or (self.facts.adts.get(head) if self.facts is not None else None)
        if not adt:
            return None
        vals = [v.get("discr") for v in adt["variants"]]
        if any(v is None for v in vals):
            return None
        return [v for v in vals if v not in ov]


STD_ADTS = {
    "std::result::Result": {"variants": [{"name": "Ok", "discr": 0}, {"name": "Err", "discr": 1}]},
    "std::option::Option": {"variants": [{"name": "None", "discr": 0}, {"name": "Some", "discr": 1}]},
    "std::ops::ControlFlow": {"variants": [{"name": "Continue", "discr": 0}, {"name": "Break", "discr": 1}]},
    "std::cmp::Ordering": {"variants": [{"name": "Less", "discr": -1}, {"name": "Equal", "discr": 0}, {"name": "Greater", "discr": 1}]},
    "polonius_the_crab::PoloniusResult": {"variants": [{"name": "Borrowing", "discr": 0}, {"name": "Owned", "discr": 1}]},
}


def walk(fn, facts=None, **kw):
    w = Walker(fn, facts, keep_env=kw.pop("keep_env", False), canon=kw.pop("canon", False))
    return w.run(**kw)


# ---------------------------------------------------------------------------
# helpers over expressions

def subexprs(e):
    """Pre-order traversal of an expression tree."""
    stack = [e]
    while stack:
        x = stack.pop()
        if not isinstance(x, tuple):
            continue
        yield x
        tag = x[0]
        if tag == "call":
            stack.extend(x[3])
        elif tag in ("field", "deref", "ref", "discr", "len", "rawptr", "repeat", "proj", "subslice"):
            stack.append(x[1])
        elif tag == "index":
            stack.append(x[1]); stack.append(x[2])
        elif tag == "binop":
            stack.append(x[2]); stack.append(x[3])
        elif tag == "unop":
            stack.append(x[2])
        elif tag == "cast":
            stack.append(x[2])
        elif tag == "agg":
            stack.extend(x[3])


def contains(e, pred):
    for x in subexprs(e):
        if pred(x):
            return True
    return False


def calls_in(e):
    return [x for x in subexprs(e) if x[0] == "call"]


def mentions(e, target):
    return contains(e, lambda x: x == target)


def last_seg(path, n=2):
    if path is None:
        return "<indirect>"
    # strip generic args inside <>
    parts = []
    for x in split_path(path):
        if x.startswith("<impl ") and x.endswith(">") and " for " not in x:
            parts.append(x[6:-1])       # inherent impl on a primitive: <impl i64> -> i64
        elif x.startswith("<") and x.endswith(">") and " as " not in x:
            continue                    # generic argument list
        else:
            parts.append(x)
    return "::".join(parts[-n:])


def split_path(path):
    parts = []
    depth = 0
    cur = ""
    i = 0
    while i < len(path):
        c = path[i]
        if c == "<":
            depth += 1
        elif c == ">":
            depth -= 1
        if c == ":" and depth == 0 and path[i:i + 2] == "::":
            parts.append(cur)
            cur = ""
            i += 2
            continue
        cur += c
        i += 1
    parts.append(cur)
    return parts


def short(e, depth=12):
    """Compact human-readable rendering (diagnostics, evidence samples)."""
    if not isinstance(e, tuple) or not e:
        return str(e)
    if depth <= 0:
        return "…"
    t = e[0]
    d = depth - 1
    if t == "param":
        return "p%d" % e[1]
    if t == "upvar":
        return "^%s" % e[1]
    if t == "tampered":
        return "changed-in-place-by-%s(%s)" % (e[2], short(e[1], d))
    if t == "cparam":
        return "c%d" % e[1]
    if t == "const":
        return e[2].replace("const ", "")
    if t == "fnitem":
        return "fn:" + last_seg(e[1])
    if t == "call":
        return "%s(%s)" % (last_seg(e[1]), ", ".join(short(a, d) for a in e[3]))
    if t == "field":
        v = ("{%s}" % e[3]) if e[3] else ""
        return "%s.%s%s" % (short(e[1], d), v, e[2])
    if t == "deref":
        return "*" + short(e[1], d)
    if t == "ref":
        return ("&mut " if e[2] else "&") + short(e[1], d)
    if t == "binop":
        return "%s(%s, %s)" % (e[1], short(e[2], d), short(e[3], d))
    if t == "unop":
        return "%s(%s)" % (e[1], short(e[2], d))
    if t == "cast":
        return "(%s as %s)" % (short(e[2], d), e[3])
    if t == "agg":
        nm = e[2] if e[1] in ("adt",) else e[1]
        if e[1] == "adt":
            nm = last_seg(e[2])
        if e[1] == "closure":
            nm = "closure#" + e[2].rsplit("#", 1)[-1].rstrip("}")
        return "%s{%s}" % (nm, ", ".join(short(a, d) for a in e[3]))
    if t == "discr":
        return "discr(%s)" % short(e[1], d)
    if t == "index":
        return "%s[%s]" % (short(e[1], d), short(e[2], d))
    if t == "len":
        return "len(%s)" % short(e[1], d)
    if t == "unknown":
        return "?%s" % e[1]
    return t


def resite(e, site, memo):
    """give the call expressions of an inlined body the caller's call site (kept unique per callee block), so that
    site-based identity ("a distinct draw") and block-based placement ("inside the loop") refer to the caller"""
    if not isinstance(e, tuple) or not e:
        return e
    k = id(e)
    if k in memo:
        return memo[k]
    if e[0] == "call":
        r = ("call", e[1], e[2], tuple(resite(a, site, memo) for a in e[3]), tuple(site) + tuple(e[4]))
    elif e[0] in ("param", "const", "upvar", "cparam", "fnitem", "unknown"):
        r = e
    else:
        r = tuple(resite(x, site, memo) if isinstance(x, tuple) else x for x in e)
    memo[k] = r
    return r


def subst_path(p, mapping, at_block=None, site=None):
    """a callee path with its parameters replaced by the caller's argument expressions"""
    if site is not None:
        m2 = {}
        p = Path([(resite(c[0], site, m2), c[1], c[2]) for c in p.conds],
                 [tuple(resite(x, site, m2) if isinstance(x, tuple) else x for x in e) for e in p.events],
                 resite(p.ret, site, m2) if p.ret is not None else None, p.end, p.blocks)
    memo = {}
    ev = []
    for e in p.events:
        if e[0] == "call":
            ev.append(("call", subst_params(e[1], mapping, memo)))
        elif e[0] == "assert":
            ev.append(("assert", e[1], subst_params(e[2], mapping, memo), e[3], tuple(subst_params(o, mapping, memo) for o in e[4]), at_block if at_block is not None else e[5]))
        elif e[0] == "inlined":
            ev.append(("inlined", e[1], tuple(subst_params(a, mapping, memo) for a in e[2]), at_block if at_block is not None else e[3]) + tuple(e[4:]))
        elif e[0] == "cond":
            ev.append(("cond", subst_params(e[1], mapping, memo), e[2]))
        elif e[0] == "write":
            ev.append(("write", subst_params(e[1], mapping, memo), subst_params(e[2], mapping, memo), at_block if at_block is not None else e[3]))
        elif e[0] == "setdiscr":
            ev.append(("setdiscr", subst_params(e[1], mapping, memo)) + tuple(e[2:]))
        else:
            ev.append(e)
    return Path([(subst_params(c[0], mapping, memo), c[1], at_block if at_block is not None else c[2]) for c in p.conds], ev,
                subst_params(p.ret, mapping, memo) if p.ret is not None else None, p.end, p.blocks)


DEFERRED_CALLS = ("std::ops::FnOnce::call_once", "std::ops::FnMut::call_mut", "std::ops::Fn::call")


def replace_expr(x, old, new, memo):
    """x with every occurrence of the expression `old` replaced by `new`"""
    if not isinstance(x, tuple) or not x:
        return x
    k = id(x)
    if k in memo:
        return memo[k]
    if x == old:
        r = new
    elif x[0] in ("param", "const", "upvar", "cparam", "fnitem", "unknown"):
        r = x
    else:
        r = tuple(replace_expr(y, old, new, memo) if isinstance(y, tuple) else y for y in x)
    memo[k] = r
    return r


def expand_deferred(p, facts, canon=False, inline_all=False, depth=0):
    """A helper that takes a function value (`fn helper(x, f: impl FnOnce(A) -> B) { .. f(a) .. }`) calls it through
    FnOnce::call_once / FnMut::call_mut / Fn::call on its parameter.  Once the helper is seen through and the parameter is
    replaced by what the caller passed - a closure of the workspace or a function item - that call has a known body:
    splice the body's paths in (closure, workspace function) or turn it into the direct call (function item).
    Returns the list of resulting paths ([p] when there is nothing to expand)."""
    if facts is None or depth > 6:
        return [p]
    for idx, e in enumerate(p.events):
        if e[0] != "call" or e[1][1] not in DEFERRED_CALLS or len(e[1][3]) != 2:
            continue
        call = e[1]
        f = strip_refs(call[3][0])
        tup = call[3][1]
        if not (isinstance(tup, tuple) and tup[:2] == ("agg", "tuple")) or not isinstance(f, tuple):
            continue
        args = tuple(tup[3])
        if f[0] == "fnitem":
            fid = f[3] or f[1]
            g = facts.fns.get(fid)
            inl = g is not None and not g.is_closure and (facts.is_new_fn(fid) or (inline_all and fid not in getattr(facts, "noinline", ())))
            if not inl:
                direct = ("call", f[1], f[2], args, call[4])
                memo = {}
                ev = [tuple(replace_expr(x, call, direct, memo) if isinstance(x, tuple) else x for x in y) for y in p.events]
                q = Path([(replace_expr(c[0], call, direct, memo), c[1], c[2]) for c in p.conds], ev,
                         replace_expr(p.ret, call, direct, memo) if p.ret is not None else None, p.end, p.blocks, p.env, p.fieldenv)
                return expand_deferred(q, facts, canon, inline_all, depth + 1)
            qs = facts.inline_paths(fid, depth, canon=canon, inline_all=inline_all)
            mapping = {("param", i + 1): a for i, a in enumerate(args)}
            body_id = fid
        elif f[0] == "agg" and f[1] == "closure" and f[2] in facts.fns:
            cf = facts.fns[f[2]]
            qs = facts.inline_paths(cf.id, depth, canon=canon, inline_all=inline_all)
            mapping = {}
            for i, cap in enumerate(cf.captures):
                if i < len(f[3]):
                    mapping[("upvar", cap["var"], i)] = f[3][i]
            for i, a in enumerate(args):
                mapping[("param", i + 2)] = a
            body_id = cf.id
        else:
            continue
        if qs is None:
            continue
        out = []
        blk = call[4][1] if len(call[4]) > 1 else None
        for q in qs:
            q2 = subst_path(q, mapping, blk, site=call[4])
            if q2.end == "return" and q2.ret is not None:
                memo = {}
                rest = [tuple(replace_expr(x, call, q2.ret, memo) if isinstance(x, tuple) else x for x in y) for y in p.events[idx + 1:]]
                ev = list(p.events[:idx]) + [("inlined", body_id, args, blk, None)] + list(q2.events) + rest
                r = Path([(replace_expr(c[0], call, q2.ret, memo), c[1], c[2]) for c in p.conds] + list(q2.conds), ev,
                         replace_expr(p.ret, call, q2.ret, memo) if p.ret is not None else None, p.end, p.blocks, p.env, p.fieldenv)
            else:
                # the body does not return: what the caller would have done afterwards does not happen
                seen = {(x[1], x[2]) for x in p.events[:idx] if x[0] == "cond"}
                marked = {(x[1], x[2]) for x in p.events if x[0] == "cond"}
                keep = [c for c in p.conds if (c[0], c[1]) in seen or (c[0], c[1]) not in marked]
                r = Path(keep + list(q2.conds), list(p.events[:idx]) + [("inlined", body_id, args, blk, None)] + list(q2.events), None,
                         q2.end if q2.end != "return" else "diverge", p.blocks, p.env, p.fieldenv)
            out.extend(expand_deferred(r, facts, canon, inline_all, depth + 1))
        return out
    return [p]


def subst_generics(e, gmap, rx, memo):
    """replace the bare type/const parameter names of an inlined callee by the caller's arguments in every type-bearing text"""
    if not isinstance(e, tuple) or not e:
        return e
    k = id(e)
    if k in memo:
        return memo[k]
    sub = lambda s: rx.sub(lambda m: gmap[m.group(0)], s) if isinstance(s, str) else s
    t = e[0]
    if t == "call":
        r = ("call", e[1], sub(e[2]), tuple(subst_generics(a, gmap, rx, memo) for a in e[3]), e[4])
    elif t == "const":
        r = ("const", sub(e[1]), sub(e[2]), e[3])
    elif t == "fnitem":
        r = ("fnitem", e[1], sub(e[2]), e[3]) + ((tuple(sub(x) for x in e[4]) if e[4] is not None else None,) if len(e) > 4 else ())
    elif t == "cast":
        r = ("cast", e[1], subst_generics(e[2], gmap, rx, memo), sub(e[3])) + tuple(sub(x) for x in e[4:])
    elif t in ("param", "upvar", "cparam", "unknown"):
        r = e
    elif t == "agg" and e[1] == "closure":
        # the closure body lives in the inlined function: remember the instantiation for when the body is summarised
        prev = dict(e[4]) if len(e) > 4 and e[4] else {}
        prev = {k2: sub(v2) for k2, v2 in prev.items()}
        for k2, v2 in gmap.items():
            prev.setdefault(k2, v2)
        r = ("agg", "closure", e[2], tuple(subst_generics(x, gmap, rx, memo) for x in e[3]), tuple(sorted(prev.items())))
    else:
        r = tuple(subst_generics(x, gmap, rx, memo) if isinstance(x, tuple) else x for x in e)
    memo[k] = r
    return r


def subst_generics_path(p, gmap):
    import re
    rx = re.compile(r"(?<![:\w'])(?:%s)(?![\w])" % "|".join(sorted((re.escape(n) for n in gmap), key=len, reverse=True)))
    memo = {}
    ev = []
    for e in p.events:
        ev.append(tuple(subst_generics(x, gmap, rx, memo) if isinstance(x, tuple) else x for x in e))
    return Path([(subst_generics(c[0], gmap, rx, memo), c[1], c[2]) for c in p.conds], ev,
                subst_generics(p.ret, gmap, rx, memo) if p.ret is not None else None, p.end, p.blocks, p.env, p.fieldenv)


def strip_refs(e):
    while isinstance(e, tuple) and e[0] in ("ref", "deref"):
        e = e[1]
    return e


def subst_params(e, mapping, memo=None):
    """Replace ('param', i) / ('upvar', name, idx) leaves according to mapping."""
    if memo is None:
        memo = {}
    if not isinstance(e, tuple):
        return e
    key = id(e)
    if key in memo:
        return memo[key]
    t = e[0]
    if t == "param" or t == "upvar":
        r = mapping.get(e, e)
    elif t == "call":
        r = ("call", e[1], e[2], tuple(subst_params(a, mapping, memo) for a in e[3]), e[4])
    elif t == "field":
        b = subst_params(e[1], mapping, memo)
        if b[0] == "agg" and isinstance(e[2], int) and e[2] < len(b[3]) and b[1] in ("tuple", "array"):
            r = b[3][e[2]]
        elif b[0] == "agg" and b[1] == "adt" and isinstance(e[2], int) and e[2] < len(b[3]) and e[3] is not None and b[2].rsplit("::", 1)[-1] == e[3]:
            r = b[3][e[2]]
        else:
            r = ("field", b, e[2], e[3])
    elif t == "deref":
        r = simp_deref(subst_params(e[1], mapping, memo))
    elif t == "ref":
        r = simp_ref(subst_params(e[1], mapping, memo), e[2])
    elif t in ("discr", "len", "rawptr"):
        r = (t, subst_params(e[1], mapping, memo))
    elif t == "binop":
        r = ("binop", e[1], subst_params(e[2], mapping, memo), subst_params(e[3], mapping, memo))
    elif t == "unop":
        r = ("unop", e[1], subst_params(e[2], mapping, memo))
    elif t == "cast":
        r = ("cast", e[1], subst_params(e[2], mapping, memo), e[3]) + tuple(e[4:])
    elif t == "agg":
        r = ("agg", e[1], e[2], tuple(subst_params(a, mapping, memo) for a in e[3])) + tuple(e[4:])
    elif t == "index":
        r = ("index", subst_params(e[1], mapping, memo), subst_params(e[2], mapping, memo))
    else:
        r = e
    memo[key] = r
    return r
