"""C02 - A failed instruction leaves the machine state untouched and is skipped."""
from .pat import ANY, Bind, Call, Param, CParam, Field, Through, Agg, Const, BinOp, match, find, callee_is, path_ends
from .sym import short, subexprs
from .common import (TryOk, TryErr, is_err_return, return_paths, peel, peel_box, mentions, derives_from_self, closure_paths, cond_str, self_field, ctor_names)
from . import pushleaves as PL
from .pushfx import INF

META = {
    "level": "other",
    "explanation": (
        "Static effect analysis (pushfx abstract interpretation over the MIR of all 88 leaf instructions, intervals on initial stack sizes/rooms, no values). Decided: (R02.1) on every "
        "feasible abstract run of every instruction that ends in an error - recoverable or fatal - no stack was popped or pushed and nothing was written to the output before the failure "
        "point, evaluated on the complete boundary grid (each touched stack empty / one short / exactly enough / more, no room / one slot / more): this is exactly the 'pops from one "
        "stack before discovering another is full' bug class; (R02.2) the primitive summaries the interpreter relies on are themselves verified against the bodies of the stack/error "
        "helpers (not_full, with_push, with_replace, push_onto, replace_on, with_stack_push, with_stack_discard, map_err_into, Error::fatal/recoverable/map_inner_err, StatefulError::new) "
        "and the StackError variant each Stack primitive can construct; (R02.3) every Error::fatal/recoverable in the instruction set carries the instruction's own state value (never a "
        "clone, default or rebuilt state); (R02.4) recovery wiring: try_recover maps Recoverable -> Ok(into_state), Fatal -> Err; into_state unboxes the carried state; run_to_completion "
        "applies try_recover()? to every perform result and counts the step on both the Ok and the recovered edge. NOT decided: byte equality of the output buffer's internals (Cursor trusted). R02.4 additionally pins the error value's own accessors (Error::is_recoverable/is_fatal answer for their own variant, state()/error() return the carried fields) and the RecoverableError form of try_recover."),
    "rules": {
        "R02.1": "no mutation before any failure point, on the boundary grid, for all 88 instructions",
        "R02.2": "helper bodies match their primitive summaries; StackError variants per primitive",
        "R02.3": "errors carry the instruction's own state",
        "R02.4": "try_recover / into_state / interpreter recovery wiring",
        "R02.5": "who may write PushState: inputs and step limit only the builder, stacks only via HasStack::stack_mut, output only via HasStdout::stdout",
    },
    "trusted_base": ["std Result/Option combinators", "Box::new / deref", "uecfacts driver + uecheck rule engine (pushfx)"],
    "assumptions": ["S1: every stack holds at most max_stack_size elements at instruction entry (C04 R04.1, C19 typestate); under S1 a push that follows a pop on the same stack cannot overflow", "S2: HasStack::stack::<T>() and stack_mut::<T>() name the same stack (decided for the derived impls by C19's accessor clause; hand-written impls are the user's)"],
    "not_decided": ["Cursor<Vec<u8>> internals"],
}

HS = "push::push_vm::stack::HasStack::"


def is_state(e, i=1):
    return peel(e, ()) == ("param", i)


def check_primitives(ctx):
    F = ctx.F
    # ---- HasStack provided methods ------------------------------------------
    f = ctx.fn(HS + "not_full")
    ps = return_paths(ctx.paths(f))
    kinds = set()
    for p in ps:
        fullc = [c for c in p.conds if callee_is(c[0], "Stack::is_full") and callee_is(peel(c[0][3][0], ()), "HasStack::stack") and is_state(peel(c[0][3][0], ())[3][0])]
        if not fullc:
            ctx.bad("R02.2", "not_full/unguarded-path", cond_str(p), f.at())
            continue
        if fullc[0][1] != 0:
            kinds.add("full")
            ok = match(p.ret, Agg("Result::Err", Call("Error::fatal", lambda e: is_state(e), Agg("StackError::Overflow", ANY), nargs=2)))
            ctx.check(ok, "R02.2", "not_full/full->Fatal(Overflow)-with-same-state", short(p.ret, 4), f.at())
        else:
            kinds.add("room")
            ctx.check(match(p.ret, Agg("Result::Ok", Param(1))) and len(p.calls()) == 2, "R02.2", "not_full/room->Ok(self)-untouched", short(p.ret, 3), f.at())
    ctx.check(kinds == {"full", "room"}, "R02.2", "not_full/both-branches", str(sorted(kinds)), f.at())
    f = ctx.fn(HS + "with_push")
    ps = return_paths(ctx.paths(f))
    kinds = set()
    for p in ps:
        pu = [c for c in p.calls() if callee_is(c, "Stack::push")]
        ok0 = len(pu) == 1 and callee_is(peel(pu[0][3][0], ()), "HasStack::stack_mut") and is_state(peel(pu[0][3][0], ())[3][0]) and pu[0][3][1] == ("param", 2)
        d = [c for c in p.conds if c[0] == ("discr", pu[0])] if pu else []
        if d and d[0][1] == 0:
            kinds.add("ok")
            ctx.check(ok0 and match(p.ret, Agg("Result::Ok", Param(1))), "R02.2", "with_push/ok->Ok(self)", short(p.ret, 3), f.at())
        else:
            kinds.add("err")
            ctx.check(ok0 and match(p.ret, Agg("Result::Err", Call("Error::fatal", lambda e: is_state(e), Field(lambda e: e == pu[0], 0, "Err"), nargs=2))), "R02.2",
                      "with_push/err->Fatal(push-error)-with-same-state", short(p.ret, 4), f.at())
    ctx.check(kinds == {"ok", "err"}, "R02.2", "with_push/both-branches", str(sorted(kinds)), f.at())
    f = ctx.fn(HS + "with_replace")
    ps = return_paths(ctx.paths(f))
    kinds = set()
    for p in ps:
        di = [c for c in p.calls() if callee_is(c, "Stack::discard")]
        ok0 = len(di) == 1 and callee_is(peel(di[0][3][0], ()), "HasStack::stack_mut") and is_state(peel(di[0][3][0], ())[3][0]) and di[0][3][1] == ("param", 2)
        d = [c for c in p.conds if c[0] == ("discr", di[0])] if di else []
        if d and d[0][1] == 0:
            kinds.add("ok")
            ctx.check(ok0 and match(p.ret, Call("HasStack::with_push", Param(1), Param(3), nargs=2)), "R02.2", "with_replace/discarded->with_push(value)", short(p.ret, 3), f.at())
        else:
            kinds.add("err")
            ctx.check(ok0 and match(p.ret, Agg("Result::Err", Call("Error::fatal", lambda e: is_state(e), Field(lambda e: e == di[0], 0, "Err"), nargs=2))) and
                      not any(callee_is(c, "HasStack::with_push", "Stack::push") for c in p.calls()), "R02.2", "with_replace/underflow->Fatal-before-any-push", short(p.ret, 4), f.at())
    ctx.check(kinds == {"ok", "err"}, "R02.2", "with_replace/both-branches", str(sorted(kinds)), f.at())
    # ---- PushOnto for Result --------------------------------------------------------
    for name, inner, nargs in (("push_onto", "HasStack::with_push", 2), ("replace_on", "HasStack::with_replace", 3)):
        f = ctx.trait_fn("push::push_vm::stack::PushOnto::" + name, "std::result::Result<T, E1>")
        ps = return_paths(ctx.paths(f))
        kinds = set()
        st = 2 if name == "push_onto" else 3
        for p in ps:
            d = [c for c in p.conds if c[0] == ("discr", ("param", 1))]
            if d and d[0][1] == 0:
                kinds.add("ok")
                if name == "push_onto":
                    pat = Call("MapInstructionError::map_err_into", Call(inner, Param(2), Field(Param(1), 0, "Ok"), nargs=2), nargs=1)
                else:
                    pat = Call("MapInstructionError::map_err_into", Call(inner, Param(3), Param(2), Field(Param(1), 0, "Ok"), nargs=3), nargs=1)
                ctx.check(match(p.ret, pat) and len(p.calls()) == 2, "R02.2", name + "/Ok(v)->state." + inner.split("::")[1] + "(v)", short(p.ret, 4), f.at())
            elif d:
                kinds.add("err")
                ctx.check(match(p.ret, Agg("Result::Err", Call("Error::recoverable", Param(st), Field(Param(1), 0, "Err"), nargs=2))) and len(p.calls()) == 1, "R02.2",
                          name + "/Err(e)->Recoverable(e)-with-untouched-state", short(p.ret, 4), f.at())
        ctx.check(kinds == {"ok", "err"}, "R02.2", name + "/both-branches", str(sorted(kinds)), f.at())
    # ---- StackPush / StackDiscard for InstructionResult ---------------------------------
    for tname, mname, prim in (("StackPush", "with_stack_push", "Stack::push"), ("StackDiscard", "with_stack_discard", "Stack::discard")):
        f = ctx.trait_fn("push::push_vm::stack::%s::%s" % (tname, mname), "std::result::Result<S, push::error::Error<S, E>>")
        ps = return_paths(ctx.paths(f))
        kinds = set()
        for p in ps:
            d = [c for c in p.conds if c[0] == ("discr", ("param", 1))]
            if d and d[0][1] != 0:
                kinds.add("passthrough")
                ctx.check(match(p.ret, Agg("Result::Err", Field(Param(1), 0, "Err"))) and not p.calls(), "R02.2", mname + "/Err-passed-through-untouched", short(p.ret, 3), f.at())
                continue
            pr = [c for c in p.calls() if callee_is(c, prim)]
            st = ("field", ("param", 1), 0, "Ok")
            ok0 = len(pr) == 1 and callee_is(peel(pr[0][3][0], ()), "HasStack::stack_mut") and peel(peel(pr[0][3][0], ())[3][0], ()) == st and pr[0][3][1] == ("param", 2)
            dd = [c for c in p.conds if c[0] == ("discr", pr[0])] if pr else []
            if dd and dd[0][1] == 0:
                kinds.add("ok")
                ctx.check(ok0 and match(p.ret, Agg("Result::Ok", lambda e: e == st)), "R02.2", mname + "/Ok->primitive-then-Ok(state)", short(p.ret, 3), f.at())
            else:
                kinds.add("fatal")
                ctx.check(ok0 and match(p.ret, Agg("Result::Err", Call("Error::fatal", lambda e: e == st, Field(lambda e: e == pr[0], 0, "Err"), nargs=2))), "R02.2",
                          mname + "/primitive-error->Fatal-with-same-state", short(p.ret, 4), f.at())
        ctx.check(kinds == {"ok", "fatal", "passthrough"}, "R02.2", mname + "/three-branches", str(sorted(kinds)), f.at())
    # ---- error plumbing --------------------------------------------------------------------
    f = ctx.trait_fn("push::error::MapInstructionError::map_err_into", "std::result::Result<S, push::error::Error<S, E1>>")
    ps = return_paths(ctx.paths(f))
    b = {}
    ok = len(ps) == 1 and match(ps[0].ret, Call("Result::map_err", Param(1), Bind("clo"), nargs=2), b)
    if ok:
        qs = [q for q in closure_paths(ctx, b["clo"]) if q.end == "return"]
        ok = len(qs) == 1 and match(qs[0].ret, Call("Error::map_inner_err", CParam(2), lambda e: e[0] == "fnitem" and path_ends(e[1], "Into::into"), nargs=2))
    ctx.check(ok, "R02.2", "map_err_into=map_err(|e| e.map_inner_err(Into::into))", short(ps[0].ret, 4) if ps else "-", f.at())
    f = ctx.fn("push::error::Error::<S, E>::map_inner_err")
    ps = return_paths(ctx.paths(f))
    okm = len(ps) == 2
    for p in ps:
        d = [c for c in p.conds if c[0] == ("discr", ("param", 1))]
        v = {0: "Recoverable", 1: "Fatal"}.get(d[0][1]) if d else None
        okm = okm and v is not None and match(p.ret, Agg("Error::" + v, Call("StatefulError::new_boxed", Field(Field(Param(1), 0, v), "state"), Call("FnOnce::call_once", Param(2), Agg("tuple", Field(Field(Param(1), 0, v), "error"))), nargs=2)))
    ctx.check(okm, "R02.2", "map_inner_err/keeps-severity-and-the-same-boxed-state", "; ".join(short(p.ret, 4) for p in ps), f.at())
    for name, variant in (("fatal", "Fatal"), ("recoverable", "Recoverable")):
        f = ctx.fn("push::error::Error::<S, E>::" + name)
        ps = return_paths(ctx.paths(f))
        ctx.check(len(ps) == 1 and match(ps[0].ret, Agg("Error::" + variant, Call("StatefulError::new", Param(1), Call("Into::into", Param(2), nargs=1), nargs=2))), "R02.2",
                  "Error::%s=%s(StatefulError::new(state,e.into()))" % (name, variant), short(ps[0].ret, 4), f.at())
    f = ctx.fn("push::error::stateful::StatefulError::<S, E, Severity>::new")
    ps = return_paths(ctx.paths(f))
    ctx.check(len(ps) == 1 and match(ps[0].ret, Call("StatefulError::new_boxed", Call("Box::new", Param(1), nargs=1), Param(2), nargs=2)), "R02.2", "StatefulError::new-boxes-the-given-state", short(ps[0].ret, 4), f.at())
    f = ctx.fn("push::error::stateful::StatefulError::<S, E, Severity>::new_boxed")
    ps = return_paths(ctx.paths(f))
    names = [x["name"] for x in F.adts["push::error::stateful::StatefulError"]["variants"][0]["fields"]]
    ctx.check(len(ps) == 1 and match(ps[0].ret, Agg("StatefulError::StatefulError", Param(1), Param(2), ANY)) and names[:2] == ["state", "error"], "R02.2", "StatefulError::new_boxed-stores-(state,error)", short(ps[0].ret, 3), f.at())
    # ---- StackError variants per Stack primitive ---------------------------------------------
    table = {"push": {"Overflow"}, "push_many": {"Overflow"}, "top": {"Underflow"}, "top2": {"Underflow"}, "top3": {"Underflow"}, "pop": {"Underflow"}, "pop2": {"Underflow"}, "pop3": {"Underflow"}, "discard": {"Underflow"}}
    for name, want in sorted(table.items()):
        fid = "push::push_vm::stack::Stack::<T>::" + name
        got = set()
        for g in F.family(fid):
            fn = ctx.fn(g)
            for p in ctx.paths(fn):
                for e in ([p.ret] if p.ret is not None else []) + [a for c in p.calls() for a in c[3]]:
                    for n_ in ctor_names(e):
                        if "StackError::" in n_:
                            got.add(n_.split("::")[-1])
        ctx.check(got == want, "R02.2", "Stack::%s/constructs-only-%s" % (name, "/".join(sorted(want))), str(sorted(got)), ctx.F.fns[fid].at(),
                  bad_detail="Stack::%s constructs StackError variants %s, expected exactly %s (the interpreter's cause table relies on it)" % (name, sorted(got), sorted(want)))
    te = ctx.trait_fn("collectable::TryExtend::try_extend", "push::push_vm::stack::Stack<A>")
    got = set()
    for p in ctx.paths(te):
        if p.ret is not None:
            got |= {n_.split("::")[-1] for n_ in ctor_names(p.ret) if "StackError::" in n_}
    ctx.check(got == {"Overflow"}, "R02.2", "Stack::try_extend/constructs-only-Overflow", str(sorted(got)), te.at())


def check(ctx):
    from .common import override_audit
    ctx.floor('R02.2', override_audit(ctx, 'R02.2', ('push::push_vm::stack::HasStack', 'push::push_vm::State')), 4, 'provided methods of HasStack / State (override audit)')
    F = ctx.F
    fx, leaves, problems = PL.analyse(ctx)
    real = [l for l in leaves if l.outcomes is not None]
    ctx.floor("R02.1", len(real), 88, "leaf instructions")
    # ---- R02.1 -----------------------------------------------------------------------
    n_err = 0
    pts = 0
    for l in real:
        stacks = PL.touched_stacks(l)
        bad = {}
        errs = [o for o in l.outcomes if o.kind == "err"]
        for o in errs:
            n_err += 1
            if o.run.mutated:
                where = o.describe()
                bad.setdefault("%s(%s)" % (o.severity, o.cause), where)
        # grid confirmation: at which boundary states does it strike?
        strikes = {}
        for sizes, rooms in PL.grid_for([s for s in stacks if s in PL.STACKS]):
            pts += 1
            for o in errs:
                if o.run.mutated and o.run.admits(sizes, rooms):
                    strikes.setdefault("%s(%s)" % (o.severity, o.cause), (sizes, rooms))
        for k, where in bad.items():
            at_state = strikes.get(k)
            ctx.bad("R02.1", "%s/mutated-before-%s" % (l.name, k),
                    "%s changes the machine state before it fails: %s%s" % (l.name, where, (" - e.g. at sizes %s rooms %s" % at_state) if at_state else ""), l.at)
        for o in l.outcomes:
            if o.run.opaque or o.kind in ("unknown", "loop"):
                ctx.bad("R02.1", l.name + "/unclassified", "%s %s %s" % (o.kind, "; ".join(o.run.opaque)[:200], "; ".join(o.run.notes)[:200]), l.at)
        if not bad:
            ctx.ok("R02.1", l.name + "/failures-leave-state-untouched", "%d failing outcome(s): %s" % (len(errs), "; ".join(o.describe() for o in errs)[:400]), l.at, nontrivial=bool(errs))
    ctx.extra["grid_points_compared"] = pts
    ctx.extra["failing_outcomes_examined"] = n_err
    ctx.floor("R02.1", n_err, 110, "failing outcomes across the instruction set")
    # block unfolding (Vec<I>::perform) and the top-level program dispatcher
    vf = ctx.trait_fn("push::instruction::Instruction::perform", "std::vec::Vec<I>")
    outs = fx.summary(vf.id, {"I": "exec"})
    okb = bool(outs) and all((o.kind == "ok") or (o.kind == "err" and o.severity == "fatal" and o.cause == "overflow" and not o.run.mutated) for o in outs) and any(o.kind == "err" for o in outs)
    ctx.check(okb, "R02.1", "Block/overflow-reported-before-anything-is-pushed", "; ".join(o.describe() for o in outs or []), vf.at())
    # ---- R02.2 ---------------------------------------------------------------------------
    check_primitives(ctx)
    # the interpreter's summaries of pop2/pop3/discard/push/push_many/try_extend ("fail without touching the
    # vector") are C04's all-or-nothing rules: re-evaluated here, filed under R02.2
    from . import rules_c04
    from .rules_c03 import _Refile
    rules_c04.check(_Refile(ctx, {"R04.1": "R02.2", "R04.3": "R02.2"}))
    # ---- R02.3 ---------------------------------------------------------------------------
    n_sites = 0
    for fid, c, ok, detail in fx.error_sites:
        n_sites += 1
    seen = set()
    for fid, c, ok, detail in fx.error_sites:
        key = (fid, c[4])
        if key in seen:
            continue
        seen.add(key)
        ctx.check(ok, "R02.3", "%s/bb%d/%s-carries-own-state" % (fid.split(" as ")[0].split("::")[-1].strip("<>") if " as " in fid else fid.split("::")[-1], c[4][1], short(c, 1).split("(")[0]),
                  detail, ctx.F.fns[c[4][-2]].blocks[c[4][-1]]["term"]["span"]["at"],
                  bad_detail="%s in %s is built with %s, which is not the state value the instruction was given" % (short(c, 1).split("(")[0], fid, detail))
    ctx.floor("R02.3", len(seen), 10, "Error::fatal / Error::recoverable construction sites in instruction bodies")
    # ---- R02.4 ----------------------------------------------------------------------------
    f = ctx.trait_fn("push::error::try_recover::TryRecover::try_recover", "std::result::Result<S, push::error::Error<S, E>>")
    ps = return_paths(ctx.paths(f))
    b = {}
    ok = len(ps) == 1 and match(ps[0].ret, Call("Result::or_else", Param(1), Bind("clo"), nargs=2), b)
    if ok:
        qs = [q for q in closure_paths(ctx, b["clo"]) if q.end == "return"]
        seenv = set()
        for q in qs:
            d = [c for c in q.conds if c[0][0] == "discr" and c[0][1][:2] == ("cparam", 2)]
            v = d[0][1] if d else None
            if v == 0:
                seenv.add("Recoverable")
                ok = ok and match(q.ret, Agg("Result::Ok", Call("IntoState::into_state", Field(CParam(2), 0, "Recoverable"), nargs=1)))
            elif v == 1:
                seenv.add("Fatal")
                ok = ok and match(q.ret, Agg("Result::Err", Field(CParam(2), 0, "Fatal")))
        ok = ok and seenv == {"Recoverable", "Fatal"}
    ctx.check(ok, "R02.4", "try_recover/Recoverable->Ok(into_state)-Fatal->Err", short(ps[0].ret, 3) if ps else "-", f.at())
    for fid_self in ("push::error::stateful::StatefulError<S, E, Severity>", "push::error::Error<S, E>"):
        g = ctx.trait_fn("push::error::into_state::IntoState::into_state", fid_self)
        okg = True
        stateful_impl = ctx.trait_fn("push::error::into_state::IntoState::into_state", "push::error::stateful::StatefulError<S, E, Severity>").id
        for p in return_paths(ctx.paths(g)):
            r = peel_box(("ref", p.ret, False))
            direct = r[0] == "field" and r[2] == "state" and not [c for c in p.calls() if not callee_is(c, "Drop::drop")]
            # Error<S, E>: a variant may hand its own StatefulError payload to that type's into_state (checked above)
            cs = [c for c in p.calls() if not callee_is(c, "Drop::drop")]
            deleg = fid_self.startswith("push::error::Error<") and callee_is(p.ret, "IntoState::into_state") and len(cs) == 1 and cs[0] == p.ret and len(p.ret[3]) == 1 and \
                match(p.ret[3][0], Field(Param(1), 0)) and ((ctx.F.fns[p.ret[4][-2]].blocks[p.ret[4][-1]]["term"].get("res") or {}).get("def") == stateful_impl)
            okg = okg and (direct or deleg)
        ctx.check(okg, "R02.4", "into_state/%s-returns-the-carried-state" % fid_self.split("::")[-1].split("<")[0], "*self.state", g.at())
    # the error value's own accessors: what a caller reads back is the carried state / error / severity
    E_ = "push::error::Error::<S, E>::"
    for name, variant_true in (("is_recoverable", 0), ("is_fatal", 1)):
        g = ctx.fn(E_ + name)
        ps = return_paths(ctx.paths(g))
        okv = len(ps) == 2
        for q in ps:
            d = [c for c in q.conds if c[0][0] == "discr" and peel(c[0][1], ()) == ("param", 1)]
            is_v = bool(d) and d[0][1] == variant_true
            okv = okv and bool(d) and q.ret[0] == "const" and q.ret[3] == (1 if is_v else 0) and not q.calls()
        ctx.check(okv, "R02.4", "Error::%s-iff-that-variant" % name, "; ".join("[%s] -> %s" % (cond_str(q), short(q.ret)) for q in ps), g.at(),
                  bad_detail="Error::%s must answer true exactly for its own variant; extracted %s" % (name, "; ".join("[%s] -> %s" % (cond_str(q), short(q.ret)) for q in ps)))
    for name in ("state", "error"):
        g = ctx.fn(E_ + name)
        ps = return_paths(ctx.paths(g))
        okv = len(ps) == 2
        seenv = set()
        for q in ps:
            d = [c for c in q.conds if c[0][0] == "discr" and peel(c[0][1], ()) == ("param", 1)]
            v = {0: "Recoverable", 1: "Fatal"}.get(d[0][1]) if d else None
            seenv.add(v)
            r = peel_box(("ref", q.ret, False)) if name == "state" else peel(q.ret, ())
            okv = okv and v is not None and r[0] == "field" and r[2] == name and r[1][0] == "field" and r[1][3] == v and r[1][2] == 0 and peel(r[1][1], ()) == ("param", 1) and not q.calls()
        ctx.check(okv and seenv == {"Recoverable", "Fatal"}, "R02.4", "Error::%s()-returns-the-carried-%s" % (name, name), "; ".join("[%s] -> %s" % (cond_str(q), short(q.ret, 4)) for q in ps), g.at(),
                  bad_detail="Error::%s() must return the `%s` field of whichever variant it is; extracted %s" % (name, name, "; ".join("[%s] -> %s" % (cond_str(q), short(q.ret, 6)) for q in ps)))
    g = ctx.trait_fn("push::error::try_recover::TryRecover::try_recover", "std::result::Result<S, push::error::stateful::StatefulError<S, E, push::error::stateful::Recoverable>>")
    ps = return_paths(ctx.paths(g))
    into = lambda e: e[0] == "fnitem" and path_ends(e[1], "IntoState::into_state")
    ctx.check(len(ps) == 1 and len(ctx.paths(g)) == 1 and match(ps[0].ret, Agg("Result::Ok", Call("Result::unwrap_or_else", Param(1), into, nargs=2))), "R02.4",
              "try_recover(RecoverableError)/Ok(state-or-carried-state)", short(ps[0].ret, 4) if ps else "-", g.at())
    # ---- R02.5: what an instruction may write at all ------------------------------------------------------
    # "identical ... (every stack, the output buffer, the inputs and the limits)": the input bindings and the step
    # limit are written by the builder only; the stack fields are reached mutably only through the HasStack
    # accessors (+ the builder and run_to_completion's exec pop); the output buffer only through HasStdout::stdout.
    # Anything else that takes a mutable path into PushState - e.g. input_instructions.remove_entry() around a
    # perform - can leave the state changed when the instruction fails.
    PS = "push::push_vm::push_state::PushState"
    adt = ctx.F.adts.get(PS)
    fields = [x["name"] for x in adt["variants"][0]["fields"]] if adt else []
    acc = {}
    for fn in ctx.F.fns.values():
        for bb in fn.blocks:
            for st in bb["stmts"]:
                if st["k"] != "assign":
                    continue
                for e in st["lhs"]["p"]:
                    if isinstance(e, dict) and e.get("adt") == PS:
                        acc.setdefault(e.get("name"), set()).add(fn.id)
                rv = st["rv"]
                if rv["k"] == "ref" and rv.get("mut"):
                    for e in rv["place"]["p"]:
                        if isinstance(e, dict) and e.get("adt") == PS:
                            acc.setdefault(e.get("name"), set()).add(fn.id)
    is_builder = lambda fid: "PushStateBuilder::<" in fid
    is_hasstack = lambda fid: fid.endswith(">::stack_mut") and " as push::push_vm::stack::HasStack<" in fid
    RTC_ = "<push::push_vm::push_state::PushState as push::push_vm::State>::run_to_completion"
    # a private helper of the interpreter loop that is new to the rule base (called from run_to_completion only) is part of it
    from .graph import fn_uses as _fu
    _callers = {}
    for g in ctx.F.fns.values():
        for kind2, path2, full2, rdef2, rlocal2, bi2, span2, t2 in _fu(g):
            for tgt in (rdef2, path2):
                if tgt in ctx.F.fns:
                    _callers.setdefault(tgt, set()).add(g.root or g.id)
    for tgt, cs in (getattr(ctx.F, "pre_subst_callers", None) or {}).items():
        _callers.setdefault(tgt, set()).update(cs)
    rtc_family = {RTC_}
    for fid, cs in _callers.items():
        if ctx.F.is_new_fn(fid) and cs and cs <= {RTC_} and not ctx.F.fns[fid].pub:
            rtc_family.add(fid)
    STDOUT_ = "<push::push_vm::push_state::PushState as push::push_vm::push_io::HasStdout>::stdout"
    ctx.check(set(fields) >= {"exec", "input_instructions", "max_instruction_steps", "stdout"}, "R02.5", "PushState/fields-known", str(fields), adt["span"]["at"] if adt else None)
    for name in sorted(set(fields) | set(acc)):
        writers = acc.get(name, set())
        if name in ("input_instructions", "max_instruction_steps"):
            bad = sorted(w for w in writers if not is_builder(w))
            what = "written by the builder only"
        elif name == "stdout":
            bad = sorted(w for w in writers if w != STDOUT_)
            what = "reached mutably only through HasStdout::stdout"
        else:
            bad = sorted(w for w in writers if not (is_builder(w) or is_hasstack(w) or (name == "exec" and w in rtc_family)))
            what = "reached mutably only through HasStack::stack_mut (+ builder" + (", run_to_completion's pop" if name == "exec" else "") + ")"
        ctx.check(not bad, "R02.5", "PushState.%s/%s" % (name, what.replace(" ", "-")), "%d mutable access site function(s)" % len(writers), None,
                  bad_detail="PushState.%s must be %s, but is also taken mutably / assigned in: %s" % (name, what, "; ".join(bad)))
    def rtc_legacy(ctx):
        rt = ctx.fn("<push::push_vm::push_state::PushState as push::push_vm::State>::run_to_completion")
        body = [p for p in ctx.paths(rt) if p.end != "unreachable"]
        okr = False
        counted = 0
        for p in body:
            perf = [c for c in p.calls() if callee_is(c, "State::perform", "Instruction::perform")]
            if not perf:
                continue
            tr = [c for c in p.calls() if callee_is(c, "TryRecover::try_recover")]
            good = len(perf) == 1 and len(tr) == 1 and tr[0][3][0] == perf[0]
            d = [c for c in p.conds if c[0][0] == "discr" and callee_is(c[0][1], "Try::branch") and c[0][1][3][0] == tr[0]] if tr else []
            if good and d and d[0][1] == 0:
                # continuing after Ok(state) - whether the instruction succeeded or was recovered - counts one step
                ca = [c for c in p.calls() if callee_is(c, "usize::checked_add")]
                counted += 1 if len(ca) == 1 and match(ca[0][3][1], Const(1)) else 0
                okr = True
            elif good and d and d[0][1] == 1:
                okr = okr and callee_is(p.ret, "FromResidual::from_residual")
        ctx.check(okr and counted >= 1, "R02.4", "run_to_completion/try_recover()?-on-every-perform-and-step-counted-after-recovery", "%d continuing path(s) count a step" % counted, rt.at(),
                  bad_detail="every perform result must go through try_recover()? and the step counter must be advanced on the continuing edge (recovered errors cost one step like a no-op)")

    def rtc_canonical(ctx):
        """the same clause over canonical outcomes: whatever the spelling, each perform result goes through try_recover, its Ok
        continues (and the iteration is counted: checked_add(counter, 1) or one element of 0..max consumed), its Err is returned"""
        from . import ckit as K
        rt = ctx.fn("<push::push_vm::push_state::PushState as push::push_vm::State>::run_to_completion")
        paths = K.live(ctx.cpaths(rt))
        okr, counted, seen = True, 0, 0
        for p in paths:
            perf = K.calls_of(p, "State::perform", "Instruction::perform")
            if not perf:
                continue
            seen += 1
            tr = K.calls_of(p, "TryRecover::try_recover")
            good = len(perf) == 1 and len(tr) == 1 and tr[0][3][0] == perf[0]
            if not good:
                okr = False
                continue
            if K.discr_is(p, lambda o: o == tr[0], 0):
                ca = K.calls_of(p, "usize::checked_add")
                rng_step = [c for c in p.conds if c[0][0] == "discr" and callee_is(c[0][1], "Iterator::next") and c[1] == 1 and
                            match(c[0][1][3][0], Through(Call("IntoIterator::into_iter", Agg("Range::Range", Const(0), Call("PushState::max_instruction_steps", Through(Param(1)), nargs=1)), nargs=1)))]
                if (len(ca) == 1 and match(ca[0][3][1], Const(1))) or rng_step:
                    counted += 1
            elif K.discr_is(p, lambda o: o == tr[0], 1):
                kind, pay = K.outcome(p)
                okr = okr and kind == "err" and K.conv_free(pay) == ("field", tr[0], 0, "Err")
            else:
                okr = False
        ctx.check(okr and counted >= 1 and seen >= 2, "R02.4", "run_to_completion/try_recover()?-on-every-perform-and-step-counted-after-recovery", "%d continuing path(s) count a step" % counted, rt.at(),
                  bad_detail="every perform result must go through try_recover, its Err must be returned and the step must be counted on the continuing edge")

    from . import ckit as _K2
    _K2.either(ctx, rtc_legacy, rtc_canonical)
