"""Constructor conformance (shared by several properties).

A *constructor-like* function is a straight-line function whose value is an
aggregate of its parameters and constants, possibly reached through other such
functions (`binary()` -> `of_size::<2>()` -> `new(const)` -> `Tournament{size}`).
`value_of` returns that aggregate with the intermediate calls replaced by their
bodies, so that a rule can say "`Umad::new(a, d, g)` stores (a, d, Some(a), g)"
no matter how the constructors delegate to each other.  A constructor that
branches, loops or calls something that is not itself straight-line is left as
it is (the pattern will then not match: fail closed).
"""
from .pat import match, Agg, Param, Const, Call, ANY, Through, callee_is
from .sym import short, subst_params
from .common import return_paths

MAX_DEPTH = 5


def _fn_of_call(ctx, e):
    F = ctx.F
    for fid in (e[1],):
        if fid and fid in F.fns:
            return F.fns[fid]
    return None


def flatten(ctx, e, depth=0, seen=()):
    """replace calls to straight-line workspace functions by their (flattened) return expressions"""
    if not isinstance(e, tuple) or not e:
        return e
    t = e[0]
    if t == "call":
        args = tuple(flatten(ctx, a, depth, seen) for a in e[3])
        g = _fn_of_call(ctx, e)
        if g is not None and depth < MAX_DEPTH and g.id not in seen and not g.is_closure:
            try:
                ps = return_paths(ctx.paths(g))
            except Exception:
                ps = []
            allp = ctx.paths(g)
            if len(ps) == 1 and len(allp) == 1 and not ps[0].conds and not [ev for ev in ps[0].events if ev[0] in ("write", "assert")]:
                mapping = {("param", i + 1): a for i, a in enumerate(args)}
                body = subst_params(ps[0].ret, mapping)
                return flatten(ctx, body, depth + 1, seen + (g.id,))
        return ("call", e[1], e[2], args, e[4])
    if t == "agg":
        return ("agg", e[1], e[2], tuple(flatten(ctx, a, depth, seen) for a in e[3]))
    if t in ("ref",):
        return ("ref", flatten(ctx, e[1], depth, seen), e[2])
    if t in ("deref",):
        return ("deref", flatten(ctx, e[1], depth, seen))
    if t == "field":
        b = flatten(ctx, e[1], depth, seen)
        if b[0] == "agg" and isinstance(e[2], int) and e[2] < len(b[3]) and b[1] in ("tuple", "array"):
            return b[3][e[2]]
        return ("field", b, e[2], e[3])
    if t == "cast":
        return ("cast", e[1], flatten(ctx, e[2], depth, seen), e[3])
    return e


def value_of(ctx, fn):
    """flattened return expression of a straight-line function, or None when it branches"""
    allp = ctx.paths(fn)
    ps = return_paths(allp)
    if len(ps) != 1 or len(allp) != 1 or ps[0].conds:
        return None
    return flatten(ctx, ps[0].ret, 0, (fn.id,))


def check_ctor(ctx, rule, key, fid, pat, fields=None, adt=None, optional=False):
    """`fid` returns a value matching `pat` (after flattening); `fields` pins the declared field order of `adt`
    so that positional aggregate patterns mean what they say"""
    f = ctx.fn_opt(fid) if optional else ctx.fn(fid)
    if f is None:
        return None
    ok = True
    detail = ""
    if adt is not None and fields is not None:
        a = ctx.F.adts.get(adt)
        names = [x["name"] for x in a["variants"][0]["fields"]] if a else None
        ok = names == list(fields)
        if not ok:
            detail = "declared fields of %s are %s, expected %s; " % (adt, names, list(fields))
    v = value_of(ctx, f)
    good = ok and v is not None and match(v, pat)
    ctx.check(good, rule, key, short(v, 6) if v is not None else "-", f.at(),
              bad_detail=detail + "constructor value: " + (short(v, 8) if v is not None else "not a straight-line constructor (branches or loops)"))
    return good
