"""Constructor conformance (shared by several properties).

A *constructor-like* function is a straight-line function whose value is an
aggregate of its parameters and constants, possibly reached through other such
functions (`binary()` -> `of_size::<2>()` -> `new(const)` -> `Tournament{size}`).
`value_of` returns that aggregate with the intermediate calls replaced by their
bodies, so that a rule can say "`Umad::new(a, d, g)` stores (a, d, Some(a), g)"
no matter how the constructors delegate to each other.  A constructor that
branches, loops or calls something that is not itself straight-line is left as
it is (the pattern will then not match: fail closed).
"""
from .pat import match, Agg, Param, Const, Call, ANY, Through, Field, callee_is
from .sym import short, subst_params
from .common import return_paths

MAX_DEPTH = 5


def _fn_of_call(ctx, e):
    F = ctx.F
    for fid in (e[1],):
        if fid and fid in F.fns:
            return F.fns[fid]
    # a trait method call that the compiler resolved to a workspace impl (`Self::from_iter(x)`, `value.into()`)
    try:
        r = F.fns[e[4][-2]].blocks[e[4][-1]]["term"].get("res") or {}
        res = r.get("def")
        via = (r.get("via_from") or {}).get("def")        # x.into() dispatching to a workspace `impl From`
    except Exception:
        res = via = None
    for fid in (via, res):
        if fid and fid in F.fns:
            return F.fns[fid]
    # `iter.collect::<B>()` is by definition `<B as FromIterator<_>>::from_iter(iter)`: for a workspace collection B its own impl
    if e[1] == "std::iter::Iterator::collect" and len(e[3]) == 1:
        try:
            ta = F.fns[e[4][-2]].blocks[e[4][-1]]["term"].get("targs") or []
            b = ta[1].get("path") if len(ta) == 2 and ta[1].get("k") == "adt" else None
        except Exception:
            b = None
        if b:
            c = [g for fid, g in F.fns.items() if fid.startswith("<" + b) and " as std::iter::FromIterator<" in fid and fid.endswith(">::from_iter")]
            if len(c) == 1:
                return c[0]
    return None


def collected_in_order(src):
    """pattern: the Vec of the items of `src`, in order - `src.into_iter().collect()` or `Vec::from_iter(src)`"""
    a = Call("Iterator::collect", Call("IntoIterator::into_iter", src, nargs=1), nargs=1)
    b = Call("FromIterator::from_iter", src, nargs=1)

    def once_converted(e):
        # into_iter() of what already is an iterator is the identity (core's blanket `impl<I: Iterator> IntoIterator for I`)
        while match(e, Call("Iterator::collect", Call("IntoIterator::into_iter", Call("IntoIterator::into_iter", ANY, nargs=1), nargs=1), nargs=1)):
            e = (e[0], e[1], e[2], (e[3][0][3][0],), e[4])
        return e
    return lambda e: match(once_converted(e), a) or (match(e, b) and (e[2] or "").startswith("<std::vec::Vec<"))


def flatten(ctx, e, depth=0, seen=()):
    """replace calls to straight-line workspace functions by their (flattened) return expressions"""
    if not isinstance(e, tuple) or not e:
        return e
    t = e[0]
    if t == "call":
        args = tuple(flatten(ctx, a, depth, seen) for a in e[3])
        g = _fn_of_call(ctx, e)
        if g is not None and depth < MAX_DEPTH and g.id not in seen and not g.is_closure:
            try:
                ps = return_paths(ctx.paths(g))
            except Exception:
                ps = []
            allp = ctx.paths(g)
            if len(ps) == 1 and len(allp) == 1 and not ps[0].conds and not [ev for ev in ps[0].events if ev[0] in ("write", "assert")] and not mutated_after_construction(ps[0]):
                mapping = {("param", i + 1): a for i, a in enumerate(args)}
                body = subst_params(ps[0].ret, mapping)
                return flatten(ctx, body, depth + 1, seen + (g.id,))
        return ("call", e[1], e[2], args, e[4])
    if t == "agg":
        return ("agg", e[1], e[2], tuple(flatten(ctx, a, depth, seen) for a in e[3]))
    if t in ("ref",):
        return ("ref", flatten(ctx, e[1], depth, seen), e[2])
    if t in ("deref",):
        return ("deref", flatten(ctx, e[1], depth, seen))
    if t == "field":
        b = flatten(ctx, e[1], depth, seen)
        if b[0] == "agg" and isinstance(e[2], int) and e[2] < len(b[3]) and b[1] in ("tuple", "array"):
            return b[3][e[2]]
        return ("field", b, e[2], e[3])
    if t == "cast":
        return ("cast", e[1], flatten(ctx, e[2], depth, seen), e[3])
    return e


def value_of(ctx, fn):
    """flattened return expression of a straight-line function, or None when it branches"""
    allp = ctx.paths(fn)
    ps = return_paths(allp)
    if len(ps) != 1 or len(allp) != 1 or ps[0].conds:
        return None
    if mutated_after_construction(ps[0]):
        return None
    return flatten(ctx, ps[0].ret, 0, (fn.id,))


def mutated_after_construction(p):
    """the returned expression describes the returned value only if nothing changed a part of it in place after it was
    computed: a call on the path that takes `&mut` to a (sub)value the result is built from (`genes.reverse()`,
    `weights.clear()`), or a write into it, makes the expression a description of some earlier state"""
    from .sym import subexprs
    if p.ret is None:
        return False
    parts = {x for x in subexprs(p.ret) if isinstance(x, tuple) and x and x[0] in ("call", "agg")}

    def target(a):
        while isinstance(a, tuple) and a and a[0] in ("ref", "deref", "field", "index"):
            if a[0] == "ref" and len(a) > 2 and a[2] and _base(a[1]) in parts:
                return True
            a = a[1]
        return False

    def _base(a):
        while isinstance(a, tuple) and a and a[0] in ("ref", "deref", "field", "index"):
            a = a[1]
        return a
    for ev in p.events:
        if ev[0] == "call" and any(target(a) for a in ev[1][3]) and ev[1] not in parts:
            return True
        if ev[0] == "write" and _base(ev[1]) in parts:
            return True
    return False


def check_ctor(ctx, rule, key, fid, pat, fields=None, adt=None, optional=False):
    """`fid` returns a value matching `pat` (after flattening); `fields` pins the declared field order of `adt`
    so that positional aggregate patterns mean what they say"""
    f = ctx.fn_opt(fid) if optional else ctx.fn(fid)
    if f is None:
        return None
    ok = True
    detail = ""
    if adt is not None and fields is not None:
        a = ctx.F.adts.get(adt)
        names = [x["name"] for x in a["variants"][0]["fields"]] if a else None
        ok = names == list(fields)
        if not ok:
            detail = "declared fields of %s are %s, expected %s; " % (adt, names, list(fields))
    v = value_of(ctx, f)
    good = ok and v is not None and match(v, pat)
    ctx.check(good, rule, key, short(v, 6) if v is not None else "-", f.at(),
              bad_detail=detail + "constructor value: " + (short(v, 8) if v is not None else "not a straight-line constructor (branches or loops)"))
    return good


# ---------------------------------------------------------------------------------------------------------
# per-property tables: (key, function id, pattern over the flattened value, declared field order, adt path)
# "the value a user configures is the value the operator acts on" - each entry is a necessary condition of the
# property it is filed under: the rules on select/apply/mutate read `self.<field>`, these pin what the public
# constructors put there.
def _self_field(e, name):
    while isinstance(e, tuple) and e[0] in ("ref", "deref"):
        e = e[1]
    if not (e[0] == "field" and e[2] == name):
        return False
    b = e[1]
    while isinstance(b, tuple) and b[0] in ("ref", "deref"):
        b = b[1]
    return b == ("param", 1)


def _t(key, fid, pat, fields=None, adt=None):
    return (key, fid, pat, fields, adt)


EC = "ec_core::"
TABLES = {
    "C07": [
        _t("Tournament::new-stores-size", EC + "operator::selector::tournament::Tournament::new", Agg("Tournament::Tournament", Param(1)),
           ("size",), EC + "operator::selector::tournament::Tournament"),
    ],
    "C06": [
        _t("TournamentSizeError::new-stores-(tournament_size,population_size)", EC + "operator::selector::tournament::TournamentSizeError::new",
           Agg("TournamentSizeError::TournamentSizeError", Param(1), Param(2)), ("tournament_size", "population_size"), EC + "operator::selector::tournament::TournamentSizeError"),
    ],
    "C08": [
        _t("Lexicase::new-stores-num_test_cases", EC + "operator::selector::lexicase::Lexicase::new", Agg("Lexicase::Lexicase", Param(1)),
           ("num_test_cases",), EC + "operator::selector::lexicase::Lexicase"),
    ],
    "C14": [
        _t("Select::new-wraps-the-selector", EC + "operator::selector::Select::<S>::new", Agg("Select::Select", Param(1))),
        _t("Mutate::new-wraps-the-mutator", EC + "operator::mutator::Mutate::<M>::new", Agg("Mutate::Mutate", Param(1))),
        _t("Recombine::new-wraps-the-recombinator", EC + "operator::recombinator::Recombine::<R>::new", Agg("Recombine::Recombine", Param(1))),
        _t("Constant::new-stores-the-value", EC + "operator::constant::Constant::<T>::new", Agg("Constant::Constant", Param(1))),
        _t("GenomeScorer::new-stores-(genome_maker,scorer)", EC + "operator::genome_scorer::GenomeScorer::<G, S>::new", Agg("GenomeScorer::GenomeScorer", Param(1), Param(2)),
           ("genome_maker", "scorer"), EC + "operator::genome_scorer::GenomeScorer"),
        _t("GenomeScorer::construct=new(genome_maker,scorer)", "<" + EC + "operator::genome_scorer::GenomeScorer<G, S> as " + EC + "operator::composable::Wrappable<G>>::construct",
           Agg("GenomeScorer::GenomeScorer", Param(1), Param(2))),
    ],
    "C15": [
        _t("IndividualGenerator::new-stores-(genome_generator,scorer)", EC + "individual::ec::IndividualGenerator::<GG, S>::new", Agg("IndividualGenerator::IndividualGenerator", Param(1), Param(2)),
           ("genome_generator", "scorer"), EC + "individual::ec::IndividualGenerator"),
        _t("with_scorer=IndividualGenerator(self,scorer)", "<GG as " + EC + "individual::ec::WithScorer>::with_scorer", Agg("IndividualGenerator::IndividualGenerator", Param(1), Param(2))),
        _t("EcIndividual::from((genome,results))=new(genome,results)", "<" + EC + "individual::ec::EcIndividual<G, R> as std::convert::From<(G, R)>>::from",
           Agg("EcIndividual::EcIndividual", Field(Param(1), 0), Field(Param(1), 1)), ("genome", "test_results"), EC + "individual::ec::EcIndividual"),
        _t("with_scorer_fn=with_scorer(self,FnScorer(f))", EC + "individual::ec::WithScorer::with_scorer_fn", Call("WithScorer::with_scorer", Param(1), Agg("FnScorer::FnScorer", Param(2)), nargs=2)),
        _t("EcIndividual::new-stores-(genome,test_results)", EC + "individual::ec::EcIndividual::<G, R>::new", Agg("EcIndividual::EcIndividual", Param(1), Param(2)),
           ("genome", "test_results"), EC + "individual::ec::EcIndividual"),
    ],
    "C01": [
        _t("PushValue::new-stores-the-literal", "push::instruction::common::push_value::PushValue::<T>::new", Agg("PushValue::PushValue", Param(1))),
        _t("PrintString::new-stores-the-text", "push::instruction::printing::string::PrintString::new", Agg("PrintString::PrintString", Param(1))),
        _t("stdout_string-is-the-output-buffer-as-text", "push::push_vm::push_state::PushState::stdout_string",
           Call("String::from_utf8", Call("Cursor::into_inner", Call("Clone::clone", lambda e: _self_field(e, "stdout"), nargs=1), nargs=1), nargs=1)),
        _t("PushProgram::from(instruction)=Instruction(into)", "<push::push_vm::program::PushProgram as std::convert::From<T>>::from",
           Agg("PushProgram::Instruction", Call("Into::into", Param(1), nargs=1))),
    ],
    "C04": [
        _t("Stack::default=unbounded-empty-stack", "<push::push_vm::stack::Stack<T> as std::default::Default>::default",
           Agg("Stack::Stack", lambda e: e[0] == "const" and "usize" in str(e[2]) and str(e[2]).endswith("MAX"), Call("Default::default", nargs=0)),
           ("max_stack_size", "values"), "push::push_vm::stack::Stack"),
    ],
    "C05": [
        _t("Plushy::new-collects-the-genes-in-order", "push::genome::plushy::Plushy::new", Agg("Plushy::Plushy", collected_in_order(Param(1)))),
        _t("Plushy::get_genes-returns-a-copy-of-the-genes", "push::genome::plushy::Plushy::get_genes", Call("Clone::clone", lambda e: _self_field(e, "genes"), nargs=1)),
        _t("PushGene::from(instruction)=Instruction(into)", "<push::genome::plushy::PushGene as std::convert::From<T>>::from", Agg("PushGene::Instruction", Call("Into::into", Param(1), nargs=1))),
    ],
}


def check_table(ctx, prop, rule):
    from .run import AnchorMissing
    n = 0
    for key, fid, pat, fields, adt in TABLES.get(prop, []):
        try:
            check_ctor(ctx, rule, key, fid, pat, fields=fields, adt=adt)
        except AnchorMissing:
            pass            # recorded as anchor-missing (a violation); the remaining entries are still evaluated
        n += 1
    return n
