"""C13 - Weighted selector combinations choose members in proportion to their weights."""
from .pat import ANY, Bind, Call, Param, Field, Through, Agg, Const, BinOp, match, find, callee_is, path_ends
from .sym import short, subexprs
from .common import (TryOk, TryErr, is_err_return, return_paths, peel, mentions, derives_from_self, rng_passthrough,
                     check_forwarder, closure_paths, self_field, cond_str)

META = {
    "level": "other",
    "explanation": (
        "Static rule conformance on the MIR of WeightedPair::new/weight/select, Weighted::new/weight/select, the three WithWeightedItem impls (+ the provided "
        "with_item_and_weight) and DynWeighted::new/with_selector/select. Decided: the Bernoulli parameter is from_ratio(a.weight(), checked sum) with the sum "
        "computed by u32::checked_add of exactly the two members' weights, overflow mapped to WeightSumOverflow(a_w, b_w) before anything is built; the pair "
        "stores (a, b, distr, sum) in the fields of those names and reports the stored sum as its weight (so nesting multiplies out to w_i / total); "
        "select: no distribution -> ZeroWeight, sample true -> a, false -> b, exactly one delegation with the caller's population and rng; the chain builders pass "
        "(self, item) in that order and the Result impl propagates an earlier overflow first; DynWeighted weighs by the tuple's second component and delegates once to "
        "the chosen entry. NOT decided: that Bernoulli/choose_weighted realise those probabilities (rand contracts), i.e. the frequencies themselves."),
    "rules": {
        "R13.1": "WeightedPair::new: sum = checked_add(a.weight(), b.weight()); None -> Err(WeightSumOverflow(a_w,b_w)) via ?; distr = Bernoulli::from_ratio(a_w, sum).ok(); fields (a,b,distr,weight_sum) = (a,b,distr,sum); weight() returns weight_sum",
        "R13.2": "Weighted::select: weight 0 -> ZeroWeight, otherwise one delegation to the item (the clause of C06/R06.2, restated); WeightedPair::select: None -> ZeroWeight; sample(rng)==true -> a.select, false -> b.select; errors wrapped A/B then Selector",
        "R13.3": "WithWeightedItem impls build WeightedPair::new(self, item); Result impl: self? first; with_item_and_weight = with_weighted_item(Weighted::new(item, weight)); Weighted::new/weight store/return weight",
        "R13.4": "DynWeighted::select: choose_weighted(selectors, rng, |(_, w)| *w); WeightError propagated; chosen.0 performs the one selection; new/with_selector store (Box(selector), weight); with_selector only pushes that entry onto self.selectors and returns self",
    },
    "trusted_base": ["rand 0.9 Bernoulli::from_ratio(n, d) = P(true) n/d (Err when d == 0 or n > d), Distribution::sample, IndexedRandom::choose_weighted", "rustc MIR construction", "uecfacts driver + uecheck rule engine"],
    "assumptions": [],
    "not_decided": ["delegation frequencies as distributions"],
}

RNG = ("param", 3)
POP = ("param", 2)


def check(ctx):
    # a member of weight zero is never used: the clause on Weighted::select is C06's (R06.2); restated here under C13's own rule
    from . import rules_c06 as _c06
    _c06.check_weighted_select(ctx, "R13.2", "R13.2")
    from .common import override_audit
    ctx.floor('R13.1', override_audit(ctx, 'R13.1', ('ec_core::weighted::with_weighted_item::WithWeightedItem',)), 1, 'provided methods of WithWeightedItem (override audit)')
    from .common import shadowing_audit
    ctx.floor('R13.1', shadowing_audit(ctx, 'R13.1', ('ec_core::weighted::', 'ec_core::operator::selector::')), 6, 'weighted-combination trait impls of workspace types (shadowing audit)')
    F = ctx.F
    # ---- R13.1 ------------------------------------------------------------------
    f = ctx.fn("ec_core::weighted::weighted_pair::WeightedPair::<A, B>::new")
    ps = return_paths(ctx.paths(f))
    okp = [p for p in ps if not is_err_return(p)]
    erp = [p for p in ps if is_err_return(p)]
    aw = Bind("aw", Call("WithWeight::weight", Through(Param(1)), nargs=1))
    bw = Bind("bw", Call("WithWeight::weight", Through(Param(2)), nargs=1))
    summ = Bind("sum", Call("Option::ok_or", Call("u32::checked_add", aw, bw, nargs=2), Agg("WeightSumOverflow::WeightSumOverflow", Bind("aw"), Bind("bw")), nargs=2))
    distr = Call("Result::ok", Call("Bernoulli::from_ratio", Bind("aw"), TryOk(Bind("sum")), nargs=2), nargs=1)
    b = {}
    good = len(okp) == 1 and match(okp[0].ret, Agg("Result::Ok", Agg("WeightedPair::WeightedPair", Param(1), Param(2), distr, TryOk(summ))), b)
    if not good and okp:
        # aggregate operand order follows field declaration order; try binding sum first
        b = {}
        good = match(okp[0].ret, Agg("Result::Ok", Agg("WeightedPair::WeightedPair", Param(1), Param(2), ANY, TryOk(summ))), b) and \
            match(okp[0].ret[3][0][3][2], distr, b)
    ctx.check(good, "R13.1", "WeightedPair::new/from_ratio(a_w,checked_sum)", short(okp[0].ret, 7)[:400] if okp else "-", f.at(),
              bad_detail="expected Ok(WeightedPair{a, b, from_ratio(a.weight(), a_w+b_w checked).ok(), sum}); extracted " + "; ".join(short(p.ret, 10) for p in okp))
    adt = F.adts.get("ec_core::weighted::weighted_pair::WeightedPair")
    names = [x["name"] for x in adt["variants"][0]["fields"]] if adt else []
    ctx.check(names == ["a", "b", "distr", "weight_sum"], "R13.1", "WeightedPair/field-order", str(names))
    ctx.check(len(erp) == 1 and match(erp[0].ret, Call("FromResidual::from_residual", TryErr(summ))) and
              not any(callee_is(c, "Bernoulli::from_ratio") for c in erp[0].calls()), "R13.1", "WeightedPair::new/overflow-rejected-before-build",
              short(erp[0].ret, 6)[:300] if erp else "-", f.at())
    if okp:
        n_w = len({c[4] for c in okp[0].calls() if callee_is(c, "WithWeight::weight")})
        ctx.check(n_w == 2, "R13.1", "WeightedPair::new/each-weight-read-once", "%d weight() call sites" % n_w, f.at())
        arith = [c for c in okp[0].calls() if callee_is(c, "u32::wrapping_add", "u32::saturating_add", "u32::overflowing_add")] + \
                [e for e in okp[0].events if e[0] == "assert"]
        ctx.check(not arith, "R13.1", "WeightedPair::new/no-unchecked-arithmetic", "only checked_add combines the weights", f.at())
    f = ctx.fn("<ec_core::weighted::weighted_pair::WeightedPair<A, B> as ec_core::weighted::with_weight::WithWeight>::weight")
    ps = return_paths(ctx.paths(f))
    ctx.check(len(ps) == 1 and self_field(ps[0].ret, "weight_sum") and not ps[0].calls(), "R13.1", "WeightedPair::weight=stored-sum", short(ps[0].ret), f.at())

    # ---- R13.2 --------------------------------------------------------------------
    f = ctx.fn("<ec_core::weighted::weighted_pair::WeightedPair<A, B> as ec_core::operator::selector::Selector<P>>::select")
    ps = return_paths(ctx.paths(f))
    seen = set()
    for p in ps:
        sel = [c for c in p.calls() if callee_is(c, "Selector::select")]
        smp = [c for c in p.calls() if callee_is(c, "Distribution::sample")]
        dcond = [c for c in p.conds if c[0][0] == "discr" and self_field(c[0][1], "distr")]
        if not sel:
            seen.add("none")
            ok = is_err_return(p) and not smp and dcond and dcond[0][1] != 1 and any(x[0] == "agg" and path_ends(x[2], "ZeroWeight::ZeroWeight") for x in subexprs(p.ret))
            ctx.check(ok, "R13.2", "select/no-distribution->ZeroWeight-without-sampling", cond_str(p) + " -> " + short(p.ret, 5), f.at())
            continue
        scond = [c for c in p.conds if callee_is(c[0], "Distribution::sample")]
        ok = len(sel) == 1 and len(smp) == 1 and len(scond) == 1 and smp[0][3][1] == RNG and \
            match(smp[0][3][0], Through(Field(Through(Field(Through(Param(1)), "distr")), 0, "Some")))
        took_true = scond and scond[0][1] != 0
        member = "a" if took_true else "b"
        seen.add(member)
        ok = ok and derives_from_self(sel[0][3][0], field=member) and sel[0][3][1] == POP and sel[0][3][2] == RNG
        tag = "WeightedPairError::" + member.upper()
        ok = ok and match(p.ret, Call("Result::map_err", Call("Result::map_err", lambda e: e == sel[0], lambda e: e[0] == "fnitem" and path_ends(e[1], tag), nargs=2),
                                      lambda e: e[0] == "fnitem" and path_ends(e[1], "SelectionError::Selector"), nargs=2))
        ctx.check(ok, "R13.2", "select/sample-%s->%s" % ("true" if took_true else "false", member), cond_str(p) + " -> " + short(p.ret, 5), f.at(),
                  bad_detail="sample == %s must delegate exactly once to member `%s` (population, rng unchanged) and wrap errors %s/Selector; extracted %s" % (
                      took_true, member, tag, short(p.ret, 8)))
    ctx.check(seen == {"none", "a", "b"}, "R13.2", "select/three-outcomes", str(sorted(seen)), f.at())

    # ---- R13.3 ----------------------------------------------------------------------
    for fid in ("<ec_core::weighted::Weighted<T> as ec_core::weighted::with_weighted_item::WithWeightedItem>::with_weighted_item",
                "<ec_core::weighted::weighted_pair::WeightedPair<A, B> as ec_core::weighted::with_weighted_item::WithWeightedItem>::with_weighted_item"):
        f = ctx.fn(fid)
        ps = return_paths(ctx.paths(f))
        ctx.check(len(ps) == 1 and match(ps[0].ret, Call("WeightedPair::new", Param(1), Param(2), nargs=2)) and len(ps[0].calls()) == 1, "R13.3",
                  fid.split(" as ")[0].split("::")[-1] + "/with_weighted_item=WeightedPair::new(self,item)", short(ps[0].ret), f.at())
    f = ctx.fn("<std::result::Result<T, ec_core::weighted::error::WeightSumOverflow> as ec_core::weighted::with_weighted_item::WithWeightedItem>::with_weighted_item")
    ps = return_paths(ctx.paths(f))
    okp = [p for p in ps if not is_err_return(p)]
    erp = [p for p in ps if is_err_return(p)]
    ctx.check(len(okp) == 1 and match(okp[0].ret, Call("WithWeightedItem::with_weighted_item", TryOk(Param(1)), Param(2), nargs=2)), "R13.3", "Result/continues-chain-with-ok-payload",
              short(okp[0].ret) if okp else "-", f.at())
    ctx.check(len(erp) == 1 and match(erp[0].ret, Call("FromResidual::from_residual", TryErr(Param(1)))) and not any(callee_is(c, "WithWeightedItem::with_weighted_item", "WeightedPair::new") for c in erp[0].calls()),
              "R13.3", "Result/earlier-overflow-propagated-first", short(erp[0].ret) if erp else "-", f.at())
    f = ctx.fn("ec_core::weighted::with_weighted_item::WithWeightedItem::with_item_and_weight")
    ps = return_paths(ctx.paths(f))
    ctx.check(len(ps) == 1 and match(ps[0].ret, Call("WithWeightedItem::with_weighted_item", Param(1), Call("Weighted::new", Param(2), Param(3), nargs=2), nargs=2)), "R13.3",
              "with_item_and_weight=with_weighted_item(Weighted::new(item,weight))", short(ps[0].ret), f.at())
    f = ctx.fn("ec_core::weighted::Weighted::<T>::new")
    ps = return_paths(ctx.paths(f))
    adt = F.adts.get("ec_core::weighted::Weighted")
    names = [x["name"] for x in adt["variants"][0]["fields"]] if adt else []
    ctx.check(len(ps) == 1 and match(ps[0].ret, Agg("Weighted::Weighted", Param(1), Param(2))) and names == ["item", "weight"], "R13.3", "Weighted::new-stores-(item,weight)", short(ps[0].ret), f.at())
    f = ctx.fn("<ec_core::weighted::Weighted<T> as ec_core::weighted::with_weight::WithWeight>::weight")
    ps = return_paths(ctx.paths(f))
    ctx.check(len(ps) == 1 and self_field(ps[0].ret, "weight") and not ps[0].calls(), "R13.3", "Weighted::weight=stored-weight", short(ps[0].ret), f.at())

    # ---- R13.4 -------------------------------------------------------------------------
    f = ctx.fn("<ec_core::operator::selector::dyn_weighted::DynWeighted<P> as ec_core::operator::selector::Selector<P>>::select")
    ps = return_paths(ctx.paths(f))
    okp = [p for p in ps if not is_err_return(p)]
    for p in okp:
        cw = [c for c in p.calls() if callee_is(c, "IndexedRandom::choose_weighted")]
        sel = [c for c in p.calls() if callee_is(c, "Selector::select", "DynSelector::dyn_select")]
        ok = len(cw) == 1 and len(sel) == 1
        if ok:
            ok = derives_from_self(cw[0][3][0], field="selectors") and cw[0][3][1] == RNG
            clo = cw[0][3][2]
            cps = closure_paths(ctx, clo) if clo[0] == "agg" and clo[1] == "closure" else None
            r0 = peel(cps[0].ret, ()) if cps and len(cps) == 1 else ("unknown",)
            wproj = r0[0] == "field" and r0[2] == 1 and peel(r0[1], ())[:2] == ("cparam", 2)
            ctx.check(wproj, "R13.4", "DynWeighted/weight-projection-is-tuple-field-1", short(cps[0].ret) if cps else "-", f.at(),
                      bad_detail="the weight closure must return the entry's second component; extracted " + (short(cps[0].ret, 6) if cps else "no closure"))
            chosen = sel[0][3][0]
            ok = ok and match(chosen, Through(Field(Through(TryOk(lambda e: e == cw[0])), 0))) and sel[0][3][1] == POP and sel[0][3][2] == RNG
        ctx.check(ok, "R13.4", "DynWeighted/one-weighted-choice-then-one-delegation-to-entry.0", short(p.ret, 6), f.at(),
                  bad_detail="extracted calls: " + ", ".join(short(c, 4) for c in p.calls()))
    ctx.floor("R13.4", len(okp), 1, "DynWeighted::select success paths")
    erp = [p for p in ps if is_err_return(p)]
    ctx.check(len(erp) == 1 and match(erp[0].ret, Call("FromResidual::from_residual", TryErr(Call("IndexedRandom::choose_weighted")))), "R13.4", "DynWeighted/WeightError-propagated",
              short(erp[0].ret, 5) if erp else "-", f.at())
    im = [x for x in F.impls if x.get("trait") == "std::convert::From" and x["self"].get("path") == "ec_core::operator::selector::dyn_weighted::DynWeightedError"]
    ws = [x for x in im if any("WeightError" in t.get("s", "") for t in x.get("targs", []))]
    ctx.check(len(ws) == 1, "R13.4", "DynWeightedError: From<WeightError>", "%d impl(s)" % len(ws))
    if ws:
        ffn = [ff for ff in F.fns.values() if ff.parent == ws[0]["id"] and ff.assoc_name == "from"]
        if ffn:
            pp = return_paths(ctx.paths(ffn[0]))
            ctx.check(len(pp) == 1 and match(pp[0].ret, Agg("DynWeightedError::ZeroWeightSum", Param(1))), "R13.4", "WeightError->ZeroWeightSum", short(pp[0].ret), ffn[0].at())
    for name in ("new", "with_selector"):
        f = ctx.fn("ec_core::operator::selector::dyn_weighted::DynWeighted::<P>::" + name)
        ps = [p for p in ctx.paths(f) if p.end == "return"]
        sp, wp = (("param", 1), ("param", 2)) if name == "new" else (("param", 2), ("param", 3))
        found = False
        for p in ps:
            cands = list(subexprs(p.ret)) + [a for c in p.calls() for a in c[3]] + [y for e in p.events if e[0] == "write" for y in subexprs(e[2])] + [y for c in p.calls() for a in c[3] for y in subexprs(a)]
            for x in cands:
                if x[0] == "agg" and x[1] == "tuple" and len(x[3]) == 2 and x[3][1] == wp and mentions(x[3][0], sp):
                    found = True
        if not found and name == "new":
            # delegation idiom: new(selector, weight) = <empty DynWeighted>.with_selector(selector, weight)
            for p in ps:
                ws = [c for c in p.calls() if callee_is(c, "DynWeighted::with_selector")]
                others = [c for c in p.calls() if not callee_is(c, "DynWeighted::with_selector", "Vec::new", "Default::default", "Vec::with_capacity")]
                if len(ws) == 1 and not others and p.ret == ws[0] and len(ws[0][3]) == 3 and ws[0][3][1] == ("param", 1) and ws[0][3][2] == ("param", 2):
                    base = ws[0][3][0]
                    found = base[0] == "agg" and base[2].endswith("DynWeighted::DynWeighted") and len(base[3]) == 1 and callee_is(base[3][0], "Vec::new", "Default::default", "Vec::with_capacity")
        ctx.check(found, "R13.4", "DynWeighted::%s-stores-(selector,weight)" % name, "entry tuple = (Box(selector), weight)", f.at())
        if name == "with_selector":
            # ... and does nothing else to the members already there: the one in-place change of `self` is that push onto
            # self.selectors, and self is what is returned
            strict = len(ps) == 1 and len([p for p in ctx.paths(f) if p.end != "unreachable"]) == 1
            detail = "-"
            if strict:
                p = ps[0]
                pushes = [c for c in p.calls() if callee_is(c, "Vec::push")]
                others = [c for c in p.calls() if not callee_is(c, "Vec::push", "Box::new")]
                detail = "; ".join(short(c, 4) for c in p.calls()) + " -> " + short(p.ret, 4)
                strict = len(pushes) == 1 and not others and peel(pushes[0][3][0], ("DerefMut::deref_mut",)) == ("field", ("param", 1), "selectors", None) or \
                    (len(pushes) == 1 and not others and peel(pushes[0][3][0], ("DerefMut::deref_mut",))[:3] == ("field", ("param", 1), 0))
                r = p.ret
                strict = strict and (r == ("param", 1) or (r[0] == "tampered" and r[1] == ("param", 1) and r[2] == "push" and r[3] == pushes[0][4]))
            ctx.check(strict, "R13.4", "DynWeighted::with_selector-only-appends-and-returns-self", detail, f.at(),
                      bad_detail="with_selector must push the one new entry onto self.selectors, change nothing else and return self; extracted " + detail)
