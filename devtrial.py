#!/usr/bin/env python3
"""dev helper: devtrial.py <facts-subdir> <Cxx> : run a property's rules on extracted facts and print every failed obligation,
including those of alternative formulations that ckit.either() discarded (env UEC_TRACE_EITHER=1)"""
import sys, os
os.environ["UEC_TRACE_EITHER"] = "1"
sys.path.insert(0, os.path.dirname(os.path.abspath(__file__)))
from uecheck.run import run_property
fd = os.path.join(os.path.dirname(os.path.abspath(__file__)), ".work", sys.argv[1])
for p in sys.argv[2:]:
    run_property(p, "quick", 0, facts_dir=fd, do_extract=False, write=False, quiet=True)
