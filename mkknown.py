#!/usr/bin/env python3
"""Regenerate uecheck/known_fns.json: the ids of all workspace functions on the tree the rules were written
against.  Run ONLY after reviewing a legitimate change of /repo (never at check time): functions that are not on the
list are treated as fresh helpers and seen through by the path walker."""
import json, sys
sys.path.insert(0, '/verif')
from uecheck.facts import Facts
F = Facts(sys.argv[1] if len(sys.argv) > 1 else '/verif/.work/facts')
ids = sorted(fid for fid, f in F.fns.items() if not f.is_closure)
json.dump(ids, open('/verif/uecheck/known_fns.json', 'w'), indent=0)
print(len(ids), "function ids")
