#!/usr/bin/env python3
"""dev helper: which library functions does no rule module look at?  (union of ctx.fns_analysed + panic scopes over all properties)"""
import importlib, os, sys, json
sys.path.insert(0, os.path.dirname(os.path.abspath(__file__)))
from uecheck.run import Ctx, extract, PROPS, AnchorMissing, VERIF
from uecheck.facts import Facts
fd = os.path.join(VERIF, ".work", "facts-cov")
nonce = extract(fd)
F = Facts(fd, nonce)
seen = {}
for p in [q for q in PROPS if q not in ("C16",)]:
    mod = importlib.import_module("uecheck.rules_" + p.lower())
    ctx = Ctx(p, F, "quick", 0, fd)
    try:
        mod.check(ctx)
    except AnchorMissing:
        pass
    for f in ctx.fns_analysed:
        seen.setdefault(f, set()).add(p)
    for k, v in ctx.extra.items():
        if k.startswith("scope_fn_ids"):
            for f in v:
                seen.setdefault(f, set()).add(p)
unseen = []
for fid, f in sorted(F.fns.items()):
    if fid in seen:
        continue
    unseen.append((getattr(f,"span","") or "", fid, getattr(f,"derived",None)))
print("functions in facts:", len(F.fns), "seen by some rule:", len([f for f in F.fns if f in seen]))
for s, fid, d in sorted(unseen, key=lambda x:(str(x[0]),x[1])):
    print(s, fid, d)
