#!/usr/bin/env python3
"""dev helper: dump.py <regex>  -> pretty MIR of matching fns"""
import sys
sys.path.insert(0, '/verif')
from uecheck.facts import Facts, fmt_fn
F = Facts(sys.argv[2] if len(sys.argv) > 2 else '/verif/.work/facts')
for f in F.find_fns(sys.argv[1]):
    print(fmt_fn(f)); print()
