#!/usr/bin/env python3
"""dev helper: paths.py <regex> -> per-path summaries"""
import sys
sys.path.insert(0, '/verif')
from uecheck.facts import Facts
from uecheck.sym import walk, short
import os; F = Facts(os.environ.get('FACTS','/verif/.work/facts'))
for f in F.find_fns(sys.argv[1]):
    print("==", f.id, f.at())
    ps = walk(f, F)
    print("  paths:", len(ps))
    for p in ps[: int(sys.argv[2]) if len(sys.argv) > 2 else 40]:
        print("  -- end=%s blocks=%s" % (p.end, p.blocks if len(p.blocks)<30 else len(p.blocks)))
        for c in p.conds:
            print("     if %s == %s" % (short(c[0]), c[1]))
        for e in p.events:
            if e[0]=='call': print("     call", short(e[1],4))
            else: print("     ", e[0], *[short(x) if isinstance(x,tuple) else x for x in e[1:]])
        print("     ret", short(p.ret) if p.ret else None)
