#!/bin/bash
# dev helper: extract facts of every stored benign seed (or the named ones) into .work/facts-<id>
cd /verif
for id in ${@:-$(ls seeded | grep -E -- '-[rstuv]$')}; do
  [ -f .work/facts-$id/push.json ] && continue
  rm -rf /tmp/scr-$id; mkdir -p /tmp/scr-$id && flock /tmp/uec-repo.lock rsync -a --exclude target --exclude .git /repo/ /tmp/scr-$id/ && (cd /tmp/scr-$id && patch -p1 -s < /verif/seeded/$id/patch.diff && find packages/ec-macros packages/push-macros -type f -exec touch {} +) && UEC_REPO=/tmp/scr-$id ./extract.sh .work/facts-$id >/dev/null && echo "extracted $id"
  rm -rf /tmp/scr-$id
done
